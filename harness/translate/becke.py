"""Translator: grid/becke.py (+ the Bragg-Slater radii it loads) -> Gen/Becke.lean.

AST based.  What is carried (DESIGN 2.3):

* `_switch_func`: the loop body `x = <polynomial in x>` as a generic-K `def switchStep`, the loop
  `for _ in range(order)` as `switchFunc = switchStep^[order]`;
* `_calculate_alpha`: the default `cutoff`, the `u_ab` and `alpha` formulas and the two masked
  assignments (clipping) in their order;
* `generate_weights` and `compute_atom_weight` (two copies of the same text in the source, both
  carried): the `v_pp` and `s_ab` formulas, and the fact that `_calculate_alpha` is called with the
  default cutoff;
* `__call__`: the chunk-size expression, the `range(...)` arguments of the chunk loop, the slice bounds of
  the points and the shifted/clipped segment table expression;
* `__init__`: the covalent-radius dictionary as it is built today (module imported, dict dumped; `nan` ->
  `none`, a float -> the exact rational of its shortest decimal representation).

Everything else in those functions must look like the shapes checked below; on any syntax that cannot be
carried a `ValueError` is raised (the check treats that as a broken proof obligation).
"""
import ast
import importlib
import math
from fractions import Fraction

from ..common import SRC
from .util import HEADER, write_if_changed


class Untranslatable(ValueError):
    pass


def _src(node):
    try:
        return ast.unparse(node)
    except Exception:  # pragma: no cover
        return repr(node)


def _nat(n: int) -> str:
    return f"(({n} : Nat) : K)"


def _rat(fr: Fraction) -> str:
    if fr < 0:
        raise Untranslatable(f"negative literal {fr}")
    if fr.denominator == 1:
        return _nat(fr.numerator)
    return f"({_nat(fr.numerator)} / {_nat(fr.denominator)})"


def _float_literal(v: float) -> Fraction:
    if not math.isfinite(v):
        raise Untranslatable(f"non-finite literal {v!r}")
    fr = Fraction(repr(v))  # the decimal text of the literal; p/q is correctly rounded back to v by Float division
    if fr.numerator >= 2**53 or fr.denominator >= 2**53:
        raise Untranslatable(f"literal {v!r} is not a quotient of two exactly representable integers")
    if float(fr.numerator) / float(fr.denominator) != v:
        raise Untranslatable(f"literal {v!r} does not survive the rational round trip")
    return fr


class Num:
    """Scalar float expressions -> generic-K Lean terms."""

    def __init__(self, env, calls=None):
        self.env = env  # python source of a sub-expression -> lean variable
        self.calls = calls or {}

    def tr(self, e) -> str:
        key = _src(e)
        if key in self.env:
            return self.env[key]
        if isinstance(e, ast.Constant):
            if isinstance(e.value, bool):
                raise Untranslatable(f"boolean literal {key}")
            if isinstance(e.value, int):
                if e.value < 0:
                    raise Untranslatable(f"negative literal {key}")
                return _nat(e.value)
            if isinstance(e.value, float):
                return _rat(_float_literal(e.value))
            raise Untranslatable(f"literal {key}")
        if isinstance(e, ast.UnaryOp) and isinstance(e.op, ast.USub):
            return f"(-{self.tr(e.operand)})"
        if isinstance(e, ast.BinOp):
            if isinstance(e.op, ast.Pow):
                if isinstance(e.right, ast.Constant) and isinstance(e.right.value, int) and not isinstance(e.right.value, bool) and e.right.value >= 0:
                    return f"(npow {self.tr(e.left)} {e.right.value})"
                raise Untranslatable(f"power with exponent {_src(e.right)}")
            ops = {ast.Add: "+", ast.Sub: "-", ast.Mult: "*", ast.Div: "/"}
            for k, s in ops.items():
                if isinstance(e.op, k):
                    return f"({self.tr(e.left)} {s} {self.tr(e.right)})"
            raise Untranslatable(f"operator in {key}")
        if isinstance(e, ast.Call):
            f = _src(e.func)
            if f in self.calls:
                return self.calls[f](self, e)
            raise Untranslatable(f"call {key}")
        raise Untranslatable(f"expression {key}")


class Idx:
    """Integer expressions of `__call__` -> Lean terms over Nat (or Int where a subtraction occurs)."""

    def __init__(self, env, ty="Nat"):
        self.env = env
        self.ty = ty

    def tr(self, e) -> str:
        key = _src(e)
        if key in self.env:
            v = self.env[key]
            return f"({v} : Int)" if self.ty == "Int" else v
        if isinstance(e, ast.Constant) and isinstance(e.value, int) and not isinstance(e.value, bool) and e.value >= 0:
            return str(e.value)
        if isinstance(e, ast.UnaryOp) and isinstance(e.op, ast.USub) and self.ty == "Int":
            return f"(-{self.tr(e.operand)})"
        if isinstance(e, ast.BinOp):
            if isinstance(e.op, ast.Pow):
                if isinstance(e.right, ast.Constant) and isinstance(e.right.value, int) and e.right.value >= 0 and self.ty == "Nat":
                    return f"({self.tr(e.left)} ^ {e.right.value})"
                raise Untranslatable(f"power {key}")
            if isinstance(e.op, ast.Sub):
                if self.ty != "Int":
                    raise Untranslatable(f"subtraction of naturals {key} (Python integers do not truncate)")
                return f"({self.tr(e.left)} - {self.tr(e.right)})"
            if isinstance(e.op, ast.FloorDiv):
                if self.ty != "Nat":
                    raise Untranslatable(f"floor division of signed integers {key}")
                return f"({self.tr(e.left)} / {self.tr(e.right)})"
            ops = {ast.Add: "+", ast.Mult: "*"}
            for k, s in ops.items():
                if isinstance(e.op, k):
                    return f"({self.tr(e.left)} {s} {self.tr(e.right)})"
            raise Untranslatable(f"operator in {key}")
        if isinstance(e, ast.Call):
            f = _src(e.func)
            if f in ("max", "min") and len(e.args) == 2 and not e.keywords:
                return f"({f} {self.tr(e.args[0])} {self.tr(e.args[1])})"
            # ndarray.clip(min=…, max=…)
            if isinstance(e.func, ast.Attribute) and e.func.attr == "clip" and not e.args and e.keywords:
                if self.ty != "Int":
                    raise Untranslatable(f"clip in a Nat context {key}")
                out = self.tr(e.func.value)
                for kw in e.keywords:
                    if kw.arg == "min":
                        out = f"(max {out} {self.tr(kw.value)})"
                    elif kw.arg == "max":
                        out = f"(min {out} {self.tr(kw.value)})"
                    else:
                        raise Untranslatable(f"clip keyword {kw.arg}")
                return out
            raise Untranslatable(f"call {key}")
        raise Untranslatable(f"expression {key}")


def _body(fn):
    """statements without the docstring and comments."""
    b = list(fn.body)
    if b and isinstance(b[0], ast.Expr) and isinstance(b[0].value, ast.Constant) and isinstance(b[0].value.value, str):
        b = b[1:]
    return b


def _method(cls, name):
    for n in cls.body:
        if isinstance(n, ast.FunctionDef) and n.name == name:
            return n
    raise Untranslatable(f"BeckeWeights.{name} not found")


def _defaults(fn):
    a = fn.args
    names = [x.arg for x in a.args]
    d = {}
    for n, v in zip(names[len(names) - len(a.defaults):], a.defaults):
        d[n] = v
    return d


def _switch(cls):
    fn = _method(cls, "_switch_func")
    if [a.arg for a in fn.args.args] != ["x", "order"]:
        raise Untranslatable("_switch_func signature")
    b = _body(fn)
    ok = (
        len(b) == 2
        and isinstance(b[0], ast.For)
        and not b[0].orelse
        and _src(b[0].iter) == "range(order)"
        and isinstance(b[0].target, ast.Name)
        and len(b[0].body) == 1
        and isinstance(b[0].body[0], ast.Assign)
        and _src(b[0].body[0].targets[0]) == "x"
        and len(b[0].body[0].targets) == 1
        and isinstance(b[1], ast.Return)
        and _src(b[1].value) == "x"
    )
    if not ok:
        raise Untranslatable("_switch_func is not `for _ in range(order): x = <expr>; return x`")
    loopvar = b[0].target.id
    expr = b[0].body[0].value
    if any(isinstance(n, ast.Name) and n.id == loopvar for n in ast.walk(expr)):
        raise Untranslatable("_switch_func body uses the loop variable")
    dflt = _defaults(fn).get("order")
    if not (isinstance(dflt, ast.Constant) and isinstance(dflt.value, int) and not isinstance(dflt.value, bool) and dflt.value >= 0):
        raise Untranslatable("_switch_func: default order is not a non-negative integer literal")
    return Num({"x": "x"}).tr(expr), _src(b[0].body[0]), dflt.value


def _alpha(cls):
    fn = _method(cls, "_calculate_alpha")
    if [a.arg for a in fn.args.args] != ["radii", "cutoff"]:
        raise Untranslatable("_calculate_alpha signature")
    dflt = _defaults(fn).get("cutoff")
    if not (isinstance(dflt, ast.Constant) and isinstance(dflt.value, (int, float)) and not isinstance(dflt.value, bool)):
        raise Untranslatable("_calculate_alpha: default cutoff is not a numeric literal")
    cutoff = Num({}).tr(dflt)
    b = _body(fn)
    if len(b) < 3 or not isinstance(b[-1], ast.Return) or _src(b[-1].value) != "alpha":
        raise Untranslatable("_calculate_alpha: shape")
    a0, a1 = b[0], b[1]
    if not (isinstance(a0, ast.Assign) and _src(a0.targets[0]) == "u_ab" and isinstance(a1, ast.Assign) and _src(a1.targets[0]) == "alpha"):
        raise Untranslatable("_calculate_alpha: expected `u_ab = …; alpha = …`")
    u = Num({"radii[:, None]": "ra", "radii": "rb"}).tr(a0.value)
    al = Num({"u_ab": "u_ab"}).tr(a1.value)
    clips = []
    for st in b[2:-1]:
        # alpha[alpha <cmp> bound] = value
        ok = (
            isinstance(st, ast.Assign)
            and len(st.targets) == 1
            and isinstance(st.targets[0], ast.Subscript)
            and _src(st.targets[0].value) == "alpha"
            and isinstance(st.targets[0].slice, ast.Compare)
            and _src(st.targets[0].slice.left) == "alpha"
            and len(st.targets[0].slice.ops) == 1
        )
        if not ok:
            raise Untranslatable(f"_calculate_alpha: statement `{_src(st)}`")
        cmp = st.targets[0].slice
        op = {ast.Gt: ">", ast.Lt: "<", ast.GtE: "≥", ast.LtE: "≤"}.get(type(cmp.ops[0]))
        if op is None or op in ("≥", "≤"):
            raise Untranslatable(f"_calculate_alpha: comparison in `{_src(st)}`")
        n = Num({"cutoff": "cutoff", "alpha": "alpha"})
        clips.append((op, n.tr(cmp.comparators[0]), n.tr(st.value), _src(st)))
    return cutoff, _src(dflt), u, _src(a0), al, _src(a1), clips


def resolve_call(call, params, what):
    """bind the arguments of `call` to the parameter names `params` (positional, then keywords) -> {name: ast node};
    a parameter that is not passed is absent from the result (the callee's default applies)."""
    if any(isinstance(a, ast.Starred) for a in call.args) or any(k.arg is None for k in call.keywords):
        raise Untranslatable(f"{what}: star arguments in `{_src(call)}`")
    if len(call.args) > len(params):
        raise Untranslatable(f"{what}: too many positional arguments in `{_src(call)}`")
    bound = dict(zip(params, call.args))
    for k in call.keywords:
        if k.arg not in params:
            raise Untranslatable(f"{what}: unknown keyword `{k.arg}` in `{_src(call)}`")
        if k.arg in bound:
            raise Untranslatable(f"{what}: `{k.arg}` passed twice in `{_src(call)}`")
        bound[k.arg] = k.value
    return bound


def _weights_formulas(cls, meth):
    """`alpha = BeckeWeights._calculate_alpha(…)`, `v_pp = …`, `s_ab = …` of a weights method.  The arguments of the
    two calls are bound against the callee's signature: what is passed for `cutoff` / `order` is generated text,
    an omitted argument becomes the callee's (generated) default."""
    fn = _method(cls, meth)
    own = [a.arg for a in fn.args.args] + [a.arg for a in fn.args.kwonlyargs]
    found = {}
    for st in ast.walk(fn):
        if isinstance(st, ast.Assign) and len(st.targets) == 1 and isinstance(st.targets[0], ast.Name):
            t = st.targets[0].id
            if t in ("alpha", "v_pp") or (t == "s_ab" and "_switch_func" in _src(st.value)):
                if t in found:
                    raise Untranslatable(f"{meth}: `{t}` assigned twice")
                found[t] = st
    for t in ("alpha", "v_pp", "s_ab"):
        if t not in found:
            raise Untranslatable(f"{meth}: no assignment to `{t}`")
    # -- alpha = BeckeWeights._calculate_alpha(radii[, cutoff])
    ac = found["alpha"].value
    if not (isinstance(ac, ast.Call) and _src(ac.func) in ("BeckeWeights._calculate_alpha", "self._calculate_alpha")):
        raise Untranslatable(f"{meth}: alpha is `{_src(ac)}`")
    sig = [a.arg for a in _method(cls, "_calculate_alpha").args.args]
    bound = resolve_call(ac, sig, meth)
    if "radii" not in bound or _src(bound["radii"]) != "radii":
        raise Untranslatable(f"{meth}: first argument of `{_src(ac)}` is not `radii`")
    if "cutoff" not in bound:
        cut = "defaultCutoff"
    else:
        env = {"cutoff": "cutoff"} if "cutoff" in own else {}
        cut = Num(env).tr(bound["cutoff"])
    alpha = f"alphaClip (alphaRaw (uAB ra rb)) {cut}"

    # -- BeckeWeights._switch_func(v_pp[, order])
    ssig = [a.arg for a in _method(cls, "_switch_func").args.args]

    def sw(num, call):
        b = resolve_call(call, ssig, meth)
        if "x" not in b:
            raise Untranslatable(f"{meth}: switch call `{_src(call)}` without argument")
        if "order" not in b:
            o = "switchDefaultOrder"
        elif _src(b["order"]) == "self._order":
            o = "order"
        elif isinstance(b["order"], ast.Constant) and isinstance(b["order"].value, int) and not isinstance(b["order"].value, bool) and b["order"].value >= 0:
            o = str(b["order"].value)
        else:
            raise Untranslatable(f"{meth}: order argument of `{_src(call)}`")
        return f"(switchFunc {num.tr(b['x'])} {o})"

    nu = Num({"mu_p_n_n": "mu", "alpha": "alpha"}).tr(found["v_pp"].value)
    s = Num({"v_pp": "v"}, calls={"BeckeWeights._switch_func": sw, "self._switch_func": sw}).tr(found["s_ab"].value)
    # the nan -> 1 replacement and the product along the last axis must be there (modelled by hand as "skip B = A")
    text = _src(fn)
    for needle in ("s_ab[np.isnan(s_ab)] = 1", "s_ab = np.prod(s_ab, axis=-1)", "np.sum("):
        if needle not in text:
            raise Untranslatable(f"{meth}: `{needle}` not found")
    return dict(alpha=alpha, alpha_src=_src(found["alpha"]), nu=nu, nu_src=_src(found["v_pp"]), s=s, s_src=_src(found["s_ab"]),
                has_cutoff="cutoff" in own)


def _caw_cutoff_default(cls):
    fn = _method(cls, "compute_atom_weight")
    if [a.arg for a in fn.args.args] != ["self", "points", "atcoords", "atnums", "select", "cutoff"]:
        raise Untranslatable("compute_atom_weight signature")
    dflt = _defaults(fn).get("cutoff")
    if not (isinstance(dflt, ast.Constant) and isinstance(dflt.value, (int, float)) and not isinstance(dflt.value, bool)):
        raise Untranslatable("compute_atom_weight: default cutoff is not a numeric literal")
    return Num({}).tr(dflt), _src(dflt)


def _call(cls):
    fn = _method(cls, "__call__")
    if [a.arg for a in fn.args.args] != ["self", "points", "atcoords", "atnums", "indices"]:
        raise Untranslatable("__call__ signature")
    b = _body(fn)
    if len(b) != 4:
        raise Untranslatable("__call__: expected npoints, chunk_size, aim_weights, return")
    s0, s1, s2, s3 = b
    if not (isinstance(s0, ast.Assign) and _src(s0) == "npoints = points.shape[0]"):
        raise Untranslatable(f"__call__: `{_src(s0)}`")
    if not (isinstance(s1, ast.Assign) and _src(s1.targets[0]) == "chunk_size"):
        raise Untranslatable(f"__call__: `{_src(s1)}`")
    chunk = Idx({"npoints": "npoints", "atcoords.shape[0]": "natom", "len(atcoords)": "natom"}).tr(s1.value)
    if not (isinstance(s3, ast.Return) and _src(s3.value) == "aim_weights"):
        raise Untranslatable("__call__: return")
    v = s2.value if isinstance(s2, ast.Assign) and _src(s2.targets[0]) == "aim_weights" else None
    ok = (
        isinstance(v, ast.Call) and _src(v.func) == "np.concatenate" and len(v.args) == 1 and not v.keywords
        and isinstance(v.args[0], ast.ListComp) and len(v.args[0].generators) == 1
    )
    if not ok:
        raise Untranslatable("__call__: aim_weights is not np.concatenate([… for ibegin in range(…)])")
    comp = v.args[0]
    g = comp.generators[0]
    if g.ifs or g.is_async or _src(g.target) != "ibegin":
        raise Untranslatable("__call__: comprehension shape")
    r = g.iter
    if not (isinstance(r, ast.Call) and _src(r.func) == "range" and len(r.args) == 3 and not r.keywords):
        raise Untranslatable("__call__: chunk loop is not range(start, stop, step)")
    env = {"npoints": "npoints", "chunk_size": "chunk_size"}
    rng = [Idx(env).tr(a) for a in r.args]
    c = comp.elt
    ok = (
        isinstance(c, ast.Call) and _src(c.func) == "self.generate_weights" and len(c.args) == 3
        and [_src(a) for a in c.args[1:]] == ["atcoords", "atnums"]
        and [k.arg for k in c.keywords] == ["pt_ind"]
        and isinstance(c.args[0], ast.Subscript) and _src(c.args[0].value) == "points"
        and isinstance(c.args[0].slice, ast.Slice) and c.args[0].slice.step is None
        and c.args[0].slice.lower is not None and c.args[0].slice.upper is not None
    )
    if not ok:
        raise Untranslatable(f"__call__: chunk call `{_src(c)}`")
    env2 = {"ibegin": "ibegin", "chunk_size": "chunk_size", "npoints": "npoints"}
    lo = Idx(env2).tr(c.args[0].slice.lower)
    hi = Idx(env2).tr(c.args[0].slice.upper)
    ptind = _IntShift().tr(c.keywords[0].value)  # entrywise: `ind` is an Int, the naturals are cast
    return chunk, _src(s1), rng, _src(r), lo, hi, _src(c.args[0]), ptind, _src(c.keywords[0].value)


class _IntShift(Idx):
    def __init__(self):
        super().__init__({}, ty="Int")

    def tr(self, e):
        key = _src(e)
        if key == "indices":
            return "ind"
        if key == "ibegin":
            return "(ibegin : Int)"
        if key == "chunk_size":
            return "(chunk_size : Int)"
        return super().tr(e)


def _radii_table():
    becke = importlib.import_module("grid.becke")
    import numpy as np

    d = becke.BeckeWeights()._radii
    keys = sorted(d)
    if keys != list(range(1, len(keys) + 1)):
        raise Untranslatable(f"radius dictionary keys are not 1..n: {keys[:5]}…")
    out = []
    for k in keys:
        v = float(d[k])
        if np.isnan(v):
            out.append(None)
        else:
            if v < 0:
                raise Untranslatable(f"negative radius for Z={k}")
            fr = _float_literal(v)
            out.append((fr.numerator, fr.denominator))
    return out


def lean_text():
    tree = ast.parse((SRC / "becke.py").read_text())
    cls = next((n for n in tree.body if isinstance(n, ast.ClassDef) and n.name == "BeckeWeights"), None)
    if cls is None:
        raise Untranslatable("class BeckeWeights not found")
    step, step_src, sw_default = _switch(cls)
    cutoff, cutoff_src, u, u_src, al, al_src, clips = _alpha(cls)
    fg = _weights_formulas(cls, "generate_weights")
    fc = _weights_formulas(cls, "compute_atom_weight")
    if fg["has_cutoff"] or not fc["has_cutoff"]:
        raise Untranslatable("generate_weights must not, compute_atom_weight must have a `cutoff` parameter")
    caw_cut, caw_cut_src = _caw_cutoff_default(cls)
    chunk, chunk_src, rng, rng_src, lo, hi, slice_src, ptind, ptind_src = _call(cls)
    radii = _radii_table()

    P = [HEADER.format(name="becke", source="src/grid/becke.py (and the Bragg-Slater radii of src/grid/utils.py as loaded by BeckeWeights.__init__)")]
    P.append("import GridVerif.Model.Elem\n")
    P.append("set_option linter.unusedVariables false\n")
    P.append("namespace GridVerif.Gen.Becke\n")
    P.append("section\nvariable {K : Type} [Add K] [Sub K] [Mul K] [Div K] [Neg K] [NatCast K]\n")
    P.append(f"/-- `_switch_func`, loop body: `{step_src}`. -/")
    P.append(f"def switchStep (x : K) : K :=\n  {step}\n")
    P.append("/-- `_switch_func`: `for _i in range(order): x = …; return x`. -/")
    P.append("def switchFunc (x : K) : Nat → K\n  | 0 => x\n  | order + 1 => switchFunc (switchStep x) order\n")
    P.append(f"/-- `_switch_func`: default `order={sw_default}` (used by a caller that does not pass `order`). -/")
    P.append(f"def switchDefaultOrder : Nat :=\n  {sw_default}\n")
    P.append(f"/-- `_calculate_alpha`: default `cutoff={cutoff_src}`. -/")
    P.append(f"def defaultCutoff : K :=\n  {cutoff}\n")
    P.append(f"/-- `_calculate_alpha`: `{u_src}` (entry `[A, B]`, `ra = radii[A]`, `rb = radii[B]`). -/")
    P.append(f"def uAB (ra rb : K) : K :=\n  {u}\n")
    P.append(f"/-- `_calculate_alpha`: `{al_src}`. -/")
    P.append(f"def alphaRaw (u_ab : K) : K :=\n  {al}\n")
    P.append("/-- `_calculate_alpha`: the masked assignments, in source order:")
    for *_x, src in clips:
        P.append(f"`{src}`;")
    P.append("-/")
    P.append("def alphaClip [LT K] [DecidableLT K] (alpha cutoff : K) : K :=")
    for op, bound, val, _s in clips:
        P.append(f"  let alpha := if alpha {op} {bound} then {val} else alpha")
    P.append("  alpha\n")
    P.append(f"/-- `generate_weights`: `{fg['alpha_src']}` (entry `[A, B]`; an omitted `cutoff` is the default of `_calculate_alpha`). -/")
    P.append(f"def alpha [LT K] [DecidableLT K] (ra rb : K) : K :=\n  {fg['alpha']}\n")
    P.append(f"/-- `compute_atom_weight(…, cutoff={caw_cut_src})`: the default of its own `cutoff` parameter. -/")
    P.append(f"def cawDefaultCutoff : K :=\n  {caw_cut}\n")
    P.append(f"/-- `compute_atom_weight`: `{fc['alpha_src']}`; `cutoff` is the parameter of `compute_atom_weight`. -/")
    P.append(f"def alphaCAW [LT K] [DecidableLT K] (ra rb cutoff : K) : K :=\n  {fc['alpha']}\n")
    for tag, f, meth in (("GW", fg, "generate_weights"), ("CAW", fc, "compute_atom_weight")):
        P.append(f"/-- `{meth}`: `{f['nu_src']}`. -/")
        P.append(f"def nu{tag} (mu alpha : K) : K :=\n  {f['nu']}\n")
        P.append(f"/-- `{meth}`: `{f['s_src']}`; `order` is `self._order`. -/")
        P.append(f"def s{tag} (v : K) (order : Nat) : K :=\n  {f['s']}\n")
    P.append("end\n")
    P.append(f"/-- `__call__`: `{chunk_src}`. -/")
    P.append(f"def chunkSize (npoints natom : Nat) : Nat :=\n  {chunk}\n")
    P.append(f"/-- `__call__`: the chunk loop `for ibegin in {rng_src}`. -/")
    P.append(f"def loopStart (npoints chunk_size : Nat) : Nat :=\n  {rng[0]}\n")
    P.append(f"def loopStop (npoints chunk_size : Nat) : Nat :=\n  {rng[1]}\n")
    P.append(f"def loopStep (npoints chunk_size : Nat) : Nat :=\n  {rng[2]}\n")
    P.append(f"/-- `__call__`: the points of a chunk, `{slice_src}` (lower, upper bound of the slice). -/")
    P.append(f"def sliceLo (npoints chunk_size ibegin : Nat) : Nat :=\n  {lo}\n")
    P.append(f"def sliceHi (npoints chunk_size ibegin : Nat) : Nat :=\n  {hi}\n")
    P.append(f"/-- `__call__`: one entry of the segment table handed to the chunk, `pt_ind={ptind_src}`. -/")
    P.append(f"def shiftInd (chunk_size ibegin : Nat) (ind : Int) : Int :=\n  {ptind}\n")
    P.append("/-- `BeckeWeights()._radii` for Z = 1, 2, …: `none` = nan, `some (p, q)` = the radius p/q"
             " (exact rational of the float's shortest decimal text; `p/q` evaluated at `Float` gives the float back). -/")
    items = ["none" if r is None else f"some ({r[0]}, {r[1]})" for r in radii]
    lines, cur = [], "  "
    for it in items:
        if len(cur) + len(it) > 96:
            lines.append(cur.rstrip())
            cur = "  "
        cur += it + ", "
    lines.append(cur.rstrip().rstrip(","))
    P.append("def braggRadii : List (Option (Nat × Nat)) := [\n" + "\n".join(lines) + "]\n")
    P.append("end GridVerif.Gen.Becke\n")
    return "\n".join(P)


def generate():
    return write_if_changed("Becke.lean", lean_text())

"""Translator: grid/utils.py (`get_cov_radii` and the covalent-radius tables it selects from) -> Gen/CovRadii.lean.

`get_cov_radii` is parsed (ast) and carried statement by statement:

* `if isinstance(atnums, (int, np.integer)): atnums = np.array([atnums])` (the scalar is wrapped);
* `if np.any(np.array(atnums) == <literal>): raise ValueError(…)` (operator and literal are generated text);
* every selection `if cov_type == "<name>": return <table>[atnums]` in source order — the string, the comparison and
  the table each selection indexes are generated text; the tables become parameters of the generated function in the
  order of their first use;
* the final `raise ValueError(…)`; the default of `cov_type`.

The module-level arrays the selections name (`_bragg`, `_cambridge`, `_alvarez`) are dumped *as loaded* (module imported:
`nan` -> `none`, a float -> the exact rational of its shortest decimal text, which Float division rounds back to it).
Anything outside these shapes raises `Untranslatable` (the check treats that as a broken proof obligation).
"""
import ast
import importlib
import json

from ..common import SRC
from .becke import Untranslatable, _body, _defaults, _float_literal, _src
from .util import HEADER, write_if_changed


def _is_raise(st, exc="ValueError"):
    return (isinstance(st, ast.Raise) and isinstance(st.exc, ast.Call) and _src(st.exc.func) == exc and st.cause is None)


def _int_lit(e):
    if isinstance(e, ast.Constant) and isinstance(e.value, int) and not isinstance(e.value, bool):
        return e.value
    if isinstance(e, ast.UnaryOp) and isinstance(e.op, ast.USub) and isinstance(e.operand, ast.Constant) \
            and isinstance(e.operand.value, int) and not isinstance(e.operand.value, bool):
        return -e.operand.value
    raise Untranslatable(f"get_cov_radii: `{_src(e)}` is not an integer literal")


def _lean_int(n):
    return f"({n} : Int)" if n >= 0 else f"(-{-n} : Int)"


def _table_text(name, arr):
    import numpy as np

    if getattr(arr, "ndim", None) != 1 or arr.dtype != np.float64:
        raise Untranslatable(f"grid.utils.{name} is not a one-dimensional float64 array")
    items = []
    for v in arr:
        v = float(v)
        if np.isnan(v):
            items.append("none")
        else:
            if v < 0:
                raise Untranslatable(f"negative entry in grid.utils.{name}")
            fr = _float_literal(v)
            items.append(f"some ({fr.numerator}, {fr.denominator})")
    lines, cur = [], "  "
    for it in items:
        if len(cur) + len(it) > 96:
            lines.append(cur.rstrip())
            cur = "  "
        cur += it + ", "
    lines.append(cur.rstrip().rstrip(","))
    return "[\n" + "\n".join(lines) + "]"


def _lean_name(table):
    if not (table.startswith("_") and table[1:].isidentifier() and table[1:].islower()):
        raise Untranslatable(f"get_cov_radii: table name `{table}`")
    return table[1:]


def lean_text():
    tree = ast.parse((SRC / "utils.py").read_text())
    fn = next((n for n in tree.body if isinstance(n, ast.FunctionDef) and n.name == "get_cov_radii"), None)
    if fn is None:
        raise Untranslatable("grid.utils.get_cov_radii not found")
    a = fn.args
    if [x.arg for x in a.args] != ["atnums", "cov_type"] or a.kwonlyargs or a.vararg or a.kwarg or a.posonlyargs or fn.decorator_list:
        raise Untranslatable("get_cov_radii: signature")
    dflt = _defaults(fn)
    if set(dflt) != {"cov_type"} or not (isinstance(dflt["cov_type"], ast.Constant) and isinstance(dflt["cov_type"].value, str)):
        raise Untranslatable("get_cov_radii: default of cov_type")
    b = _body(fn)
    if len(b) < 4:
        raise Untranslatable("get_cov_radii: expected the scalar wrap, the zero guard, the selections, the final raise")
    L = []

    def c(st, head=False):
        s = _src(st).split("\n")[0] if head else _src(st)
        for ln in s.split("\n"):
            L.append("  -- " + ln)

    # 1. scalar -> array
    s0 = b[0]
    ok = (isinstance(s0, ast.If) and not s0.orelse and len(s0.body) == 1
          and _src(s0.test) in ("isinstance(atnums, (int, np.integer))", "isinstance(atnums, (np.integer, int))")
          and _src(s0.body[0]) == "atnums = np.array([atnums])")
    if not ok:
        raise Untranslatable(f"get_cov_radii: `{_src(s0)[:100]}`")
    c(s0)
    L.append("  let atnums := if atnums.isInteger then atnums.wrap else atnums")
    # 2. zero guard
    s1 = b[1]
    t = s1.test if isinstance(s1, ast.If) else None
    ok = (isinstance(s1, ast.If) and not s1.orelse and len(s1.body) == 1 and _is_raise(s1.body[0])
          and isinstance(t, ast.Call) and _src(t.func) == "np.any" and len(t.args) == 1 and not t.keywords
          and isinstance(t.args[0], ast.Compare) and len(t.args[0].ops) == 1 and isinstance(t.args[0].ops[0], ast.Eq)
          and _src(t.args[0].left) == "np.array(atnums)")
    if not ok:
        raise Untranslatable(f"get_cov_radii: `{_src(s1)[:100]}`")
    bad = _int_lit(t.args[0].comparators[0])
    c(s1, head=True)
    L.append(f"  if atnums.entries.any (fun x => x == {_lean_int(bad)}) then")
    L.append("    throw Err.valueError")
    L.append("  else")
    # 3. selections
    tables, sels = [], []
    for st in b[2:-1]:
        t = st.test if isinstance(st, ast.If) else None
        ok = (isinstance(st, ast.If) and not st.orelse and len(st.body) == 1 and isinstance(st.body[0], ast.Return)
              and isinstance(t, ast.Compare) and len(t.ops) == 1 and isinstance(t.ops[0], ast.Eq) and _src(t.left) == "cov_type"
              and isinstance(t.comparators[0], ast.Constant) and isinstance(t.comparators[0].value, str))
        r = st.body[0].value if ok else None
        ok = ok and isinstance(r, ast.Subscript) and isinstance(r.value, ast.Name) and _src(r.slice) == "atnums"
        if not ok:
            raise Untranslatable(f"get_cov_radii: `{_src(st)[:100]}` is not `if cov_type == \"…\": return <table>[atnums]`")
        name = r.value.id
        if name not in tables:
            tables.append(name)
        key = t.comparators[0].value
        if not key.isascii():
            raise Untranslatable(f"get_cov_radii: selection string {key!r}")
        sels.append((key, name))
        c(st)
        L.append(f"  if cov_type == {json.dumps(key)} then")
        L.append(f"    npFancyIndex t_{_lean_name(name)} atnums")
        L.append("  else")
    if not sels:
        raise Untranslatable("get_cov_radii: no selection")
    if not _is_raise(b[-1]):
        raise Untranslatable(f"get_cov_radii: last statement `{_src(b[-1])[:100]}`")
    c(b[-1], head=True)
    L.append("  throw Err.valueError")
    # the tables as loaded
    mod = importlib.import_module("grid.utils")
    P = [HEADER.format(name="covradii", source="src/grid/utils.py (get_cov_radii and the tables _bragg, _cambridge, _alvarez as loaded)")]
    P.append("import GridVerif.Model.CovRadiiPy\n")
    P.append("set_option linter.unusedVariables false\n")
    P.append("namespace GridVerif.Gen.CovRadii")
    P.append("open GridVerif.Becke GridVerif.CovRadiiPy\n")
    for name in tables:
        if not hasattr(mod, name):
            raise Untranslatable(f"grid.utils has no table `{name}`")
        P.append(f"/-- `grid.utils.{name}` as loaded (index = atomic number): `none` = nan, `some (p, q)` = p/q. -/")
        P.append(f"def {_lean_name(name)} : List (Option (Nat × Nat)) := " + _table_text(name, getattr(mod, name)) + "\n")
    P.append(f"/-- the default of `cov_type`. -/\ndef covTypeDefault : String :=\n  {json.dumps(dflt['cov_type'].value)}\n")
    P.append("/-- the selection strings in source order, each with the table it returns from. -/")
    P.append("def selections : List (String × String) :=\n  [" + ", ".join(f"({json.dumps(k)}, {json.dumps(n)})" for k, n in sels) + "]\n")
    params = " ".join(f"t_{_lean_name(n)}" for n in tables)
    P.append(f"/-- `grid.utils.get_cov_radii(atnums, cov_type={dflt['cov_type'].value!r})`; `{params}` = the module-level tables "
             + ", ".join(f"`{n}`" for n in tables) + "\n(generic in the type `V` of an entry so that table facts are decidable). -/")
    P.append(f"def get_cov_radii {{V : Type}} ({params} : List V) (atnums : CovArg) (cov_type : String) : Except Err (List V) :=")
    P += L
    P.append("\nend GridVerif.Gen.CovRadii\n")
    return "\n".join(P)


def generate():
    return write_if_changed("CovRadii.lean", lean_text())

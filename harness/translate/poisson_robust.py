"""Translator: grid/robust_poisson.py, statement by statement -> Gen/PoissonRobust.lean

Every statement of `_build_core_density`, `_fit_residual_gaussians`, `solve_poisson_robust` and its
closure `total_potential` (and the module constant `_DEFAULT_ALPHAS_BASIS`) is visited in source
order by a *strict* walker: each one must have the shape listed below, anything else (an added,
removed, reordered or rewritten statement) raises `Unsupported`, which the check reports as a broken
proof obligation.  Nothing is executed.

What a statement becomes:

  numeric text   -> a scalar Lean definition generic in `K` (the array code is elementwise in the
                    grid point `n` / basis function `k`; the axis an operand varies along --
                    `[None, :]`, `[:, None]`, `axis=1` -- is recorded next to it)
  a guard        -> a decidable `Prop` over the quantities it inspects (`ndim`, `shape[i]`, `size`,
                    `len`), the index constants being part of the matched shape
  plumbing       -> a record of names / shapes / flags (`…Args`, `…Targets`, `…Shape`, `…Strict`):
                    which array is copied, which arguments a call receives (resolved against the
                    callee's *signature*, so a swapped positional argument shows), which tuple
                    position is unpacked into which name, the order of returned tuples

    _DEFAULT_ALPHAS_BASIS = np.geomspace(a, b, n)              -> defaultBasisStart/Stop/Num
    _build_core_density
        r_sq = np.sum((points - center) ** 2, axis=1)            -> coreSqTerm, coreSumAxis
        rho = np.zeros(len(points))                              -> coreInit
        for c, alpha in zip(coeffs_s, alphas_s, strict=True):    -> coreZipArgs, coreZipStrict
            prefactor = …; rho += prefactor * np.exp(…)          -> coreStep
        return rho
    _fit_residual_gaussians
        residual = residual.copy()                               -> fitCopiesResidual
        all_coeffs = []; all_alphas = []; all_centers = []       -> fitAccumulators
        for center in atcoords:                                  -> fitLoop
            r_sq = np.sum((grid_pts - center) ** 2, axis=1)      -> fitSqTerm, fitSumAxis
            prefactors = (alphas_basis / np.pi) ** 1.5           -> fitPrefactor
            A = prefactors[None, :] * np.exp(-r_sq[:, None] * alphas_basis[None, :])
                                                                 -> fitDesign, fitDesignAxes
            coeffs, _ = nnls(A, residual)                        -> fitNnlsArgs, fitNnlsTargets
            mask = coeffs > 0                                    -> fitKeep
            if np.any(mask):                                     -> fitGuard
                c_pos = coeffs[mask]; a_pos = alphas_basis[mask] -> fitSelect
                all_coeffs.extend(c_pos); …                      -> fitExtend
                residual -= A[:, mask] @ c_pos                   -> fitResidualStep, fitFitted
        if not all_coeffs: return np.array([]), …, np.empty((0, 3)), residual
                                                                 -> fitEmptyTest, fitEmptyReturn, fitEmptyCentersShape
        return np.array(all_coeffs), …, residual                 -> fitReturn
    solve_poisson_robust
        residual = np.array(density_vals, dtype=float)           -> robustCopiesDensity
        if residual.ndim != 1 or residual.shape[0] != molgrid.points.shape[0]: raise ValueError
                                                                 -> robustShapeRejects
        atom_params = [(load_atomic_gaussian_params(int(atnum)), center) for … in zip(…, strict=True)]
                                                                 -> robustParamsZip, robustZipStrict
        for (coeffs_s, alphas_s), center in atom_params: residual -= _build_core_density(…)
                                                                 -> robustCoreArgs, robustCoreStep
        fit_coeffs, fit_alphas, fit_centers = np.array([]), np.array([]), np.empty((0, 3))
                                                                 -> robustFitInit, robustFitInitShape
        if split2: default basis, asarray, two guards, the fit   -> robustBasisDefault, robustBasisRejects,
                                                                    robustAlphaRejects, robustFitArgs, robustFitTargets
        phi_residual_interp = solve_poisson_bvp(molgrid, residual, transform, **bvp_kwargs)
                                                                 -> robustSolveArgs
        def total_potential(points): …                           -> total*
        return total_potential
"""
from __future__ import annotations

import ast
import json

from ..common import SRC
from .poisson import Ex, Unsupported, _is_name, _lit, _np_call, _strip_doc
from .util import HEADER, write_if_changed


def _u(n) -> str:
    """one-line normal form of a node (for records and docstrings)."""
    s = " ".join(ast.unparse(n).split())
    return s.replace("-/", "- /")


def _s(x: str) -> str:
    return json.dumps(x)


def _strs(xs) -> str:
    return "[" + ", ".join(_s(x) for x in xs) + "]"


def _pairs(xs) -> str:
    return "[" + ", ".join(f"({_s(a)}, {_s(b)})" for a, b in xs) + "]"


def _bool(b) -> str:
    return "true" if b else "false"


def _fail(st, why):
    raise Unsupported(f"robust_poisson.py line {getattr(st, 'lineno', '?')}: {why}: {_u(st)[:160]}")


class Body:
    """Strict cursor over a statement list."""

    def __init__(self, stmts, where):
        self.stmts = _strip_doc(stmts)
        self.k = 0
        self.where = where

    def next(self, kind=None):
        if self.k >= len(self.stmts):
            raise Unsupported(f"{self.where}: a statement is missing after statement {self.k}")
        st = self.stmts[self.k]
        self.k += 1
        if kind is not None and not isinstance(st, kind):
            _fail(st, f"{self.where}: expected {getattr(kind, '__name__', kind)}")
        return st

    def done(self):
        if self.k != len(self.stmts):
            _fail(self.stmts[self.k], f"{self.where}: unexpected extra statement")


def _top_fn(tree, name):
    for st in tree.body:
        if isinstance(st, ast.FunctionDef) and st.name == name:
            return st
    raise Unsupported(f"function {name} not found")


def _params(fn):
    a = fn.args
    if a.posonlyargs or a.kwonlyargs or a.vararg:
        raise Unsupported(f"{fn.name}: parameter kinds")
    return [x.arg for x in a.args]


def _bind(call: ast.Call, callee: ast.FunctionDef, allow_starstar=False):
    """Resolve the arguments of `call` against the signature of `callee`: -> [(parameter, argument text)]"""
    ps = _params(callee)
    out = {}
    if len(call.args) > len(ps):
        _fail(call, "too many positional arguments")
    for p, a in zip(ps, call.args):
        if isinstance(a, ast.Starred):
            _fail(call, "starred argument")
        out[p] = _u(a)
    extra = []
    for k in call.keywords:
        if k.arg is None:
            if not allow_starstar:
                _fail(call, "** argument")
            extra.append(("**", _u(k.value)))
            continue
        if k.arg in out or k.arg not in ps:
            _fail(call, f"keyword {k.arg}")
        out[k.arg] = _u(k.value)
    return [(p, out[p]) for p in ps if p in out] + extra


def _assign1(st, name=None):
    if not (isinstance(st, ast.Assign) and len(st.targets) == 1):
        _fail(st, "expected a single-target assignment")
    if name is not None and not _is_name(st.targets[0], name):
        _fail(st, f"expected an assignment to {name}")
    return st.value


def _sum_sq(st, target, arr, sub, where):
    """`target = np.sum((arr - sub) ** 2, axis=k)` -> (Lean scalar text over (arr, sub), k)"""
    v = _assign1(st, target)
    if not (isinstance(v, ast.Call) and _np_call(v.func) == "sum" and len(v.args) == 1 and len(v.keywords) == 1 and v.keywords[0].arg == "axis"
            and isinstance(v.keywords[0].value, ast.Constant) and isinstance(v.keywords[0].value.value, int) and not isinstance(v.keywords[0].value.value, bool)):
        _fail(st, f"{where}: expected {target} = np.sum(<expr>, axis=<int>)")
    src = ast.unparse(v.args[0])
    ex = Ex(src, {arr: arr, sub: sub})
    body = ex.e(ast.parse(src, mode="eval").body)
    return body, v.keywords[0].value.value


def _ex(node, names, atom=None):
    src = ast.unparse(node)
    return Ex(src, names, atom).e(ast.parse(src, mode="eval").body)


def _cond(node, names, atom=None):
    src = ast.unparse(node)
    return Ex(src, names, atom).cond(ast.parse(src, mode="eval").body)


def _raise_value_error(st, where):
    if not (isinstance(st, ast.Raise) and isinstance(st.exc, ast.Call) and _is_name(st.exc.func, "ValueError") and st.cause is None):
        _fail(st, f"{where}: expected raise ValueError(...)")


def _guard(st, where):
    """`if <test>: raise ValueError(...)` -> test node"""
    if not (isinstance(st, ast.If) and len(st.body) == 1 and not st.orelse):
        _fail(st, f"{where}: expected `if <test>: raise ValueError`")
    _raise_value_error(st.body[0], where)
    return st.test


def _nat_guard(test, atoms: dict[str, str], where) -> str:
    """A guard over natural-number quantities: `a != 1 or b != c`, `a == 0`, … with the inspected
    quantities given by their exact source text in `atoms` (text -> Lean variable)."""

    def term(n):
        t = _u(n)
        if t in atoms:
            return atoms[t]
        if isinstance(n, ast.Constant) and isinstance(n.value, int) and not isinstance(n.value, bool) and n.value >= 0:
            return str(n.value)
        raise Unsupported(f"{where}: quantity {t!r} in a shape guard")

    def go(n):
        if isinstance(n, ast.BoolOp):
            op = " ∨ " if isinstance(n.op, ast.Or) else " ∧ "
            return "(" + op.join(go(v) for v in n.values) + ")"
        if isinstance(n, ast.Compare) and len(n.ops) == 1:
            op = {ast.Eq: "=", ast.NotEq: "≠", ast.Lt: "<", ast.LtE: "≤", ast.Gt: ">", ast.GtE: "≥"}.get(type(n.ops[0]))
            if op is None:
                raise Unsupported(f"{where}: comparison {_u(n)}")
            return f"{term(n.left)} {op} {term(n.comparators[0])}"
        raise Unsupported(f"{where}: guard {_u(n)}")

    return go(test)


# ----------------------------------------------------------------------------------------------
def _module_const(tree) -> list[str]:
    cands = [st for st in tree.body if isinstance(st, ast.Assign) and len(st.targets) == 1 and _is_name(st.targets[0], "_DEFAULT_ALPHAS_BASIS")]
    if len(cands) != 1:
        raise Unsupported("_DEFAULT_ALPHAS_BASIS")
    v = cands[0].value
    if not (isinstance(v, ast.Call) and _np_call(v.func) == "geomspace" and len(v.args) == 3 and not v.keywords
            and isinstance(v.args[2], ast.Constant) and isinstance(v.args[2].value, int) and not isinstance(v.args[2].value, bool)):
        _fail(cands[0], "expected np.geomspace(start, stop, num)")
    # every other module-level statement must be an import, the docstring, __all__ or a def
    for st in tree.body:
        ok = isinstance(st, (ast.Import, ast.ImportFrom, ast.FunctionDef)) or st is cands[0] \
            or (isinstance(st, ast.Expr) and isinstance(st.value, ast.Constant) and isinstance(st.value.value, str)) \
            or (isinstance(st, ast.Assign) and _is_name(st.targets[0], "__all__"))
        if not ok:
            _fail(st, "module level")
    P = [f"/-- `{_u(cands[0])}`: the default exponent basis of the second split. -/",
         f"def defaultBasisStart : K := {_ex(v.args[0], {})}",
         f"def defaultBasisStop : K := {_ex(v.args[1], {})}",
         f"def defaultBasisNum : Nat := {v.args[2].value}\n"]
    return P


def _core(tree) -> list[str]:
    fn = _top_fn(tree, "_build_core_density")
    if _params(fn) != ["points", "center", "coeffs_s", "alphas_s"] or fn.args.defaults:
        raise Unsupported("_build_core_density parameters")
    B = Body(fn.body, "_build_core_density")
    P: list[str] = []
    st = B.next()
    body, axis = _sum_sq(st, "r_sq", "points", "center", "_build_core_density")
    P += [f"/-- `{_u(st)}`: the summand for one Cartesian coordinate, summed over axis `coreSumAxis`. -/",
          f"def coreSqTerm (points center : K) : K := {body}", f"def coreSumAxis : Nat := {axis}\n"]
    st = B.next()
    v = _assign1(st, "rho")
    if _u(v) != "np.zeros(len(points))":
        _fail(st, "expected rho = np.zeros(len(points))")
    P += [f"/-- `{_u(st)}`: initial value at every point. -/", "def coreInit : K := ((0 : Nat) : K)\n"]
    loop = B.next(ast.For)
    if loop.orelse or not (isinstance(loop.target, ast.Tuple) and [getattr(e, "id", None) for e in loop.target.elts] == ["c", "alpha"]):
        _fail(loop, "expected for c, alpha in zip(...)")
    z = loop.iter
    if not (isinstance(z, ast.Call) and _is_name(z.func, "zip") and all(isinstance(a, ast.Name) for a in z.args) and len(z.args) == 2
            and len(z.keywords) <= 1 and all(k.arg == "strict" and isinstance(k.value, ast.Constant) and isinstance(k.value.value, bool) for k in z.keywords)):
        _fail(loop, "expected zip(a, b[, strict=<bool>])")
    strict = bool(z.keywords and z.keywords[0].value.value)
    P += [f"/-- `for c, alpha in {_u(z)}:` -- the zipped sequences and whether unequal lengths raise `ValueError`. -/",
          f"def coreZipArgs : List String := {_strs(a.id for a in z.args)}", f"def coreZipStrict : Bool := {_bool(strict)}\n"]
    LB = Body(loop.body, "_build_core_density loop")
    pre = LB.next()
    pv = _assign1(pre, "prefactor")
    acc = LB.next(ast.AugAssign)
    if not (isinstance(acc.op, ast.Add) and _is_name(acc.target, "rho")):
        _fail(acc, "expected rho += ...")
    LB.done()
    names = {"c": "c", "alpha": "alpha", "r_sq": "r_sq"}
    P += [f"/-- one pass of the loop at one point: `{_u(pre)}`; `{_u(acc)}`. -/", "def coreStep (rho c alpha r_sq : K) : K :=",
          f"  let prefactor : K := {_ex(pv, names)}", f"  (rho + {_ex(acc.value, {**names, 'prefactor': 'prefactor'})})\n"]
    r = B.next(ast.Return)
    if not _is_name(r.value, "rho"):
        _fail(r, "expected return rho")
    B.done()
    return P


def _fit(tree) -> list[str]:
    fn = _top_fn(tree, "_fit_residual_gaussians")
    if _params(fn) != ["grid_pts", "residual", "atcoords", "alphas_basis"] or fn.args.defaults:
        raise Unsupported("_fit_residual_gaussians parameters")
    B = Body(fn.body, "_fit_residual_gaussians")
    P: list[str] = []
    st = B.next()
    if _u(st) != "residual = residual.copy()":
        _fail(st, "expected residual = residual.copy() (the caller's array must not be updated in place)")
    P += [f"/-- `{_u(st)}`: the in-place updates below act on a private copy. -/", "def fitCopiesResidual : Bool := true\n"]
    accs = []
    for _ in range(3):
        st = B.next()
        v = _assign1(st)
        if not (isinstance(st.targets[0], ast.Name) and isinstance(v, ast.List) and not v.elts):
            _fail(st, "expected <name> = []")
        accs.append(st.targets[0].id)
    P += ["/-- the three accumulators, initialised `[]`, in source order. -/", f"def fitAccumulators : List String := {_strs(accs)}\n"]
    loop = B.next(ast.For)
    if loop.orelse or not _is_name(loop.target, "center") or not _is_name(loop.iter, "atcoords"):
        _fail(loop, "expected for center in atcoords")
    P += [f"/-- `for {_u(loop.target)} in {_u(loop.iter)}:` -- one non-negative least-squares fit per atom, in the order of `atcoords`. -/",
          f"def fitLoop : String × String := ({_s(_u(loop.target))}, {_s(_u(loop.iter))})\n"]
    L = Body(loop.body, "_fit_residual_gaussians loop")
    st = L.next()
    body, axis = _sum_sq(st, "r_sq", "grid_pts", "center", "_fit_residual_gaussians")
    P += [f"/-- `{_u(st)}`: the summand for one Cartesian coordinate, summed over axis `fitSumAxis`. -/",
          f"def fitSqTerm (grid_pts center : K) : K := {body}", f"def fitSumAxis : Nat := {axis}\n"]
    st = L.next()
    v = _assign1(st, "prefactors")
    P += [f"/-- `{_u(st)}`, per basis exponent. -/", f"def fitPrefactor (alphas_basis : K) : K := {_ex(v, {'alphas_basis': 'alphas_basis'})}\n"]
    st = L.next()
    v = _assign1(st, "A")
    axes = []

    def bc_atom(n):
        # X[None, :]  -> varies with the column (basis function k);  X[:, None] -> with the row (grid point n)
        if isinstance(n, ast.Subscript) and isinstance(n.value, ast.Name) and n.value.id in ("prefactors", "r_sq", "alphas_basis") and isinstance(n.slice, ast.Tuple) and len(n.slice.elts) == 2:
            a, b = n.slice.elts
            none = lambda x: isinstance(x, ast.Constant) and x.value is None
            full = lambda x: isinstance(x, ast.Slice) and x.lower is None and x.upper is None and x.step is None
            if none(a) and full(b):
                axes.append((n.value.id, "k"))
                return n.value.id
            if full(a) and none(b):
                axes.append((n.value.id, "n"))
                return n.value.id
            raise Unsupported("broadcast subscript " + _u(n))
        return None

    design = _ex(v, {}, bc_atom)
    P += [f"/-- `{_u(st)}`: the entry `A[n, k]`; `fitDesignAxes` says for every operand whether it is indexed by the grid point `n`",
          "(`[:, None]`) or by the basis function `k` (`[None, :]`), in source order. -/",
          f"def fitDesign (prefactors r_sq alphas_basis : K) : K := {design}", f"def fitDesignAxes : List (String × String) := {_pairs(axes)}\n"]
    st = L.next()
    v = _assign1(st)
    tg = st.targets[0]
    if not (isinstance(tg, ast.Tuple) and all(isinstance(e, ast.Name) for e in tg.elts) and isinstance(v, ast.Call) and _is_name(v.func, "nnls")
            and not v.keywords and all(isinstance(a, ast.Name) for a in v.args)):
        _fail(st, "expected <names> = nnls(A, residual)")
    P += [f"/-- `{_u(st)}` (`scipy.optimize.nnls`: argmin ‖A x − b‖₂ subject to x ≥ 0; a named primitive, exercised, not modelled). -/",
          f"def fitNnlsArgs : List String := {_strs(a.id for a in v.args)}", f"def fitNnlsTargets : List String := {_strs(e.id for e in tg.elts)}\n"]
    st = L.next()
    v = _assign1(st, "mask")
    P += [f"/-- `{_u(st)}`, per coefficient. -/", f"def fitKeep (coeffs : K) : Prop := {_cond(v, {'coeffs': 'coeffs'})}",
          "instance (coeffs : K) : Decidable (fitKeep coeffs) := by unfold fitKeep; infer_instance\n"]
    iff = L.next(ast.If)
    if iff.orelse or _u(iff.test) != "np.any(mask)":
        _fail(iff, "expected if np.any(mask):")
    L.done()
    P += [f"/-- `if {_u(iff.test)}:` guards the update (nothing is appended / subtracted for an all-zero fit). -/", f"def fitGuard : String := {_s(_u(iff.test))}\n"]
    I = Body(iff.body, "_fit_residual_gaussians update")
    sel = []
    for _ in range(2):
        st = I.next()
        v = _assign1(st)
        if not (isinstance(st.targets[0], ast.Name) and isinstance(v, ast.Subscript) and isinstance(v.value, ast.Name) and isinstance(v.slice, ast.Name)):
            _fail(st, "expected <name> = <array>[mask]")
        sel.append((st.targets[0].id, f"{v.value.id}[{v.slice.id}]"))
    ext = []
    for _ in range(3):
        st = I.next(ast.Expr)
        c = st.value
        if not (isinstance(c, ast.Call) and isinstance(c.func, ast.Attribute) and c.func.attr == "extend" and isinstance(c.func.value, ast.Name) and len(c.args) == 1 and not c.keywords):
            _fail(st, "expected <list>.extend(<expr>)")
        ext.append((c.func.value.id, _u(c.args[0])))
    st = I.next(ast.AugAssign)
    if not (_is_name(st.target, "residual") and isinstance(st.op, (ast.Sub, ast.Add))):
        _fail(st, "expected residual -= ...")
    fitted = st.value
    if not (isinstance(fitted, ast.BinOp) and isinstance(fitted.op, ast.MatMult)):
        _fail(st, "expected residual -= <matrix> @ <vector>")
    I.done()
    op = "-" if isinstance(st.op, ast.Sub) else "+"
    P += ["/-- the selections by the mask and what is appended to the accumulators, in source order. -/",
          f"def fitSelect : List (String × String) := {_pairs(sel)}", f"def fitExtend : List (String × String) := {_pairs(ext)}",
          f"/-- `{_u(st)}`: per grid point, `fitted` = the entry of the matrix-vector product `fitFitted`. -/",
          f"def fitResidualStep (residual fitted : K) : K := (residual {op} fitted)",
          f"def fitFitted : String × String := ({_s(_u(fitted.left))}, {_s(_u(fitted.right))})\n"]
    # tail
    e = B.next(ast.If)
    if e.orelse or len(e.body) != 1 or not isinstance(e.body[0], ast.Return) or not isinstance(e.body[0].value, ast.Tuple):
        _fail(e, "expected `if not all_coeffs: return (...)`")
    ret0 = e.body[0].value.elts
    shape = None
    for x in ret0:
        if isinstance(x, ast.Call) and _np_call(x.func) == "empty":
            if not (len(x.args) == 1 and not x.keywords and isinstance(x.args[0], ast.Tuple) and len(x.args[0].elts) == 2
                    and all(isinstance(y, ast.Constant) and isinstance(y.value, int) and not isinstance(y.value, bool) and y.value >= 0 for y in x.args[0].elts)):
                _fail(e, "np.empty shape")
            shape = tuple(y.value for y in x.args[0].elts)
    if shape is None:
        _fail(e, "expected an np.empty((0, 3)) entry")
    r = B.next(ast.Return)
    if not isinstance(r.value, ast.Tuple):
        _fail(r, "expected a returned tuple")
    B.done()
    P += [f"/-- `if {_u(e.test)}: return …` -- nothing was fitted: empty arrays (the centres with shape `fitEmptyCentersShape`). -/",
          f"def fitEmptyTest : String := {_s(_u(e.test))}", f"def fitEmptyReturn : List String := {_strs(_u(x) for x in ret0)}",
          f"def fitEmptyCentersShape : Nat × Nat := ({shape[0]}, {shape[1]})",
          f"/-- `{_u(r)}`. -/", f"def fitReturn : List String := {_strs(_u(x) for x in r.value.elts)}\n"]
    return P


def _solve(tree) -> list[str]:
    fn = _top_fn(tree, "solve_poisson_robust")
    ps = _params(fn)
    if ps != ["molgrid", "density_vals", "transform", "atnums", "atcoords", "split2", "alphas_basis"] or fn.args.kwarg is None or fn.args.kwarg.arg != "bvp_kwargs":
        raise Unsupported(f"solve_poisson_robust parameters {ps}")
    dfl = dict(zip(ps[-len(fn.args.defaults):], fn.args.defaults))
    if set(dfl) != {"split2", "alphas_basis"} or not (isinstance(dfl["alphas_basis"], ast.Constant) and dfl["alphas_basis"].value is None) \
            or not (isinstance(dfl["split2"], ast.Constant) and isinstance(dfl["split2"].value, bool)):
        raise Unsupported("solve_poisson_robust defaults")
    core_fn, fit_fn = _top_fn(tree, "_build_core_density"), _top_fn(tree, "_fit_residual_gaussians")
    B = Body(fn.body, "solve_poisson_robust")
    P: list[str] = [f"/-- defaults `split2={_u(dfl['split2'])}`, `alphas_basis=None`. -/", f"def robustSplit2Dflt : Bool := {_bool(dfl['split2'].value)}\n"]
    st = B.next()
    if _u(st) != "residual = np.array(density_vals, dtype=float)":
        _fail(st, "expected residual = np.array(density_vals, dtype=float) (a float64 *copy* of the caller's density)")
    P += [f"/-- `{_u(st)}`: `np.array` copies, the in-place subtractions below never touch the caller's array. -/", "def robustCopiesDensity : Bool := true\n"]
    g = B.next()
    test = _guard(g, "solve_poisson_robust")
    txt = _nat_guard(test, {"residual.ndim": "ndim", "residual.shape[0]": "len", "molgrid.points.shape[0]": "npts"}, "solve_poisson_robust")
    P += [f"/-- `if {_u(test)}: raise ValueError(...)` (`ndim` = `residual.ndim`, `len` = `residual.shape[0]`, `npts` = `molgrid.points.shape[0]`;",
          f"message: `{_u(g.body[0].exc)[:200]}`). -/",
          f"def robustShapeRejects (ndim len npts : Nat) : Prop := {txt}",
          "instance (ndim len npts : Nat) : Decidable (robustShapeRejects ndim len npts) := by unfold robustShapeRejects; infer_instance\n"]
    st = B.next()
    v = _assign1(st, "atom_params")
    ok = isinstance(v, ast.ListComp) and len(v.generators) == 1 and not v.generators[0].ifs and _u(v.elt) == "(load_atomic_gaussian_params(int(atnum)), center)" \
        and _u(v.generators[0].target) == "(atnum, center)"
    z = v.generators[0].iter if ok else None
    if not (ok and isinstance(z, ast.Call) and _is_name(z.func, "zip") and [_u(a) for a in z.args] == ["atnums", "atcoords"] and len(z.keywords) <= 1
            and all(k.arg == "strict" and isinstance(k.value, ast.Constant) and isinstance(k.value.value, bool) for k in z.keywords)):
        _fail(st, "atom_params comprehension")
    P += [f"/-- `{_u(st)}`: one `(parameters, centre)` pair per atom; `center` is the row of the caller's `atcoords`. -/",
          f"def robustParamsZip : List String := {_strs(_u(a) for a in z.args)}", f"def robustZipStrict : Bool := {_bool(bool(z.keywords and z.keywords[0].value.value))}\n"]
    loop = B.next(ast.For)
    if loop.orelse or _u(loop.target) != "((coeffs_s, alphas_s), center)" or not _is_name(loop.iter, "atom_params") or len(loop.body) != 1:
        _fail(loop, "split-1 loop")
    sub = loop.body[0]
    if not (isinstance(sub, ast.AugAssign) and _is_name(sub.target, "residual") and isinstance(sub.op, (ast.Sub, ast.Add)) and isinstance(sub.value, ast.Call)
            and _is_name(sub.value.func, "_build_core_density")):
        _fail(sub, "expected residual -= _build_core_density(...)")
    op = "-" if isinstance(sub.op, ast.Sub) else "+"
    P += [f"/-- Split 1: `for {_u(loop.target)} in atom_params: {_u(sub)}` -- the arguments as bound to the parameters of `_build_core_density`. -/",
          f"def robustCoreArgs : List (String × String) := {_pairs(_bind(sub.value, core_fn))}",
          f"def robustCoreStep (residual core : K) : K := (residual {op} core)\n"]
    st = B.next()
    v = _assign1(st)
    tg = st.targets[0]
    if not (isinstance(tg, ast.Tuple) and isinstance(v, ast.Tuple) and len(tg.elts) == len(v.elts) == 3 and all(isinstance(e, ast.Name) for e in tg.elts)):
        _fail(st, "initial (empty) fit")
    shp = None
    for x in v.elts:
        if _u(x) == "np.array([])":
            continue
        if isinstance(x, ast.Call) and _np_call(x.func) == "empty" and len(x.args) == 1 and isinstance(x.args[0], ast.Tuple) and len(x.args[0].elts) == 2 \
                and all(isinstance(y, ast.Constant) and isinstance(y.value, int) and not isinstance(y.value, bool) for y in x.args[0].elts):
            shp = tuple(y.value for y in x.args[0].elts)
            continue
        _fail(st, "initial (empty) fit entry")
    if shp is None:
        _fail(st, "np.empty((0, 3)) missing")
    fit_names = [e.id for e in tg.elts]
    P += [f"/-- `{_u(st)}`: no bonding fit unless `split2`. -/", f"def robustFitInit : List (String × String) := {_pairs(zip(fit_names, (_u(x) for x in v.elts)))}",
          f"def robustFitInitShape : Nat × Nat := ({shp[0]}, {shp[1]})\n"]
    s2 = B.next(ast.If)
    if s2.orelse or not _is_name(s2.test, "split2"):
        _fail(s2, "expected if split2:")
    S = Body(s2.body, "solve_poisson_robust split2")
    d = S.next(ast.If)
    if d.orelse or _u(d.test) != "alphas_basis is None" or len(d.body) != 1 or _u(d.body[0]) != "alphas_basis = _DEFAULT_ALPHAS_BASIS":
        _fail(d, "default basis")
    st = S.next()
    if _u(st) != "alphas_basis = np.asarray(alphas_basis, dtype=float)":
        _fail(st, "expected alphas_basis = np.asarray(alphas_basis, dtype=float)")
    g1 = S.next()
    t1 = _guard(g1, "split2")
    g2 = S.next()
    t2 = _guard(g2, "split2")
    if not (isinstance(t2, ast.Call) and _np_call(t2.func) == "any" and len(t2.args) == 1):
        _fail(g2, "expected if np.any(<elementwise test>): raise ValueError")
    fit = S.next()
    fv = _assign1(fit)
    S.done()
    if not (isinstance(fit.targets[0], ast.Tuple) and all(isinstance(e, ast.Name) for e in fit.targets[0].elts) and isinstance(fv, ast.Call) and _is_name(fv.func, "_fit_residual_gaussians")):
        _fail(fit, "expected <names> = _fit_residual_gaussians(...)")
    P += [f"/-- `if split2:` `{_u(d)}`; `{_u(st)}`. -/", f"def robustBasisDefault : String := {_s(_u(d.body[0].value))}",
          f"/-- `if {_u(t1)}: raise ValueError(...)` (`ndim` = `alphas_basis.ndim`, `size` = `alphas_basis.size`). -/",
          f"def robustBasisRejects (ndim size : Nat) : Prop := {_nat_guard(t1, {'alphas_basis.ndim': 'ndim', 'alphas_basis.size': 'size'}, 'split2')}",
          "instance (ndim size : Nat) : Decidable (robustBasisRejects ndim size) := by unfold robustBasisRejects; infer_instance",
          f"/-- `if {_u(t2)}: raise ValueError(...)`, per exponent. -/",
          f"def robustAlphaRejects (alphas_basis : K) : Prop := {_cond(t2.args[0], {'alphas_basis': 'alphas_basis'})}",
          "instance (alphas_basis : K) : Decidable (robustAlphaRejects alphas_basis) := by unfold robustAlphaRejects; infer_instance",
          f"/-- `{_u(fit)}`: arguments bound to the parameters of `_fit_residual_gaussians`, and the names the returned tuple is unpacked into. -/",
          f"def robustFitArgs : List (String × String) := {_pairs(_bind(fv, fit_fn))}",
          f"def robustFitTargets : List String := {_strs(e.id for e in fit.targets[0].elts)}\n"]
    st = B.next()
    v = _assign1(st, "phi_residual_interp")
    if not (isinstance(v, ast.Call) and _is_name(v.func, "solve_poisson_bvp")):
        _fail(st, "expected phi_residual_interp = solve_poisson_bvp(...)")
    sa = [_u(a) for a in v.args] + [("**" + _u(k.value)) if k.arg is None else f"{k.arg}={_u(k.value)}" for k in v.keywords]
    P += [f"/-- `{_u(st)}`: the numerical solve of what is left. -/", f"def robustSolveArgs : List String := {_strs(sa)}\n"]
    tp = B.next(ast.FunctionDef)
    r = B.next(ast.Return)
    B.done()
    if tp.name != "total_potential" or not _is_name(r.value, "total_potential") or _params(tp) != ["points"] or tp.args.defaults:
        _fail(tp, "closure / return")
    # ---- total_potential --------------------------------------------------------------------
    T = Body(tp.body, "total_potential")
    st = T.next()
    if _u(st) != "points = np.asarray(points, dtype=float)":
        _fail(st, "expected points = np.asarray(points, dtype=float)")
    g = T.next()
    test = _guard(g, "total_potential")
    P += [f"/-- `total_potential`: `{_u(st)}`; `if {_u(test)}: raise ValueError(...)` (`ndim` = `points.ndim`, `cols` = `points.shape[1]`). -/",
          f"def totalPointsRejects (ndim cols : Nat) : Prop := {_nat_guard(test, {'points.ndim': 'ndim', 'points.shape[1]': 'cols'}, 'total_potential')}",
          "instance (ndim cols : Nat) : Decidable (totalPointsRejects ndim cols) := by unfold totalPointsRejects; infer_instance\n"]
    st = T.next()
    if _u(st) != "v_core = np.zeros(points.shape[0])":
        _fail(st, "expected v_core = np.zeros(points.shape[0])")
    P += [f"/-- `{_u(st)}`. -/", "def totalCoreInit : K := ((0 : Nat) : K)\n"]
    loop = T.next(ast.For)
    if loop.orelse or _u(loop.target) != "((coeffs_s, alphas_s), center)" or not _is_name(loop.iter, "atom_params"):
        _fail(loop, "core loop")
    LB = Body(loop.body, "total_potential core loop")
    st = LB.next()
    v = _assign1(st, "centers_rep")
    if not (isinstance(v, ast.Call) and _np_call(v.func) == "tile" and len(v.args) == 2 and not v.keywords and _is_name(v.args[0], "center")
            and isinstance(v.args[1], ast.Tuple) and len(v.args[1].elts) == 2 and _u(v.args[1].elts[0]) == "len(coeffs_s)"
            and isinstance(v.args[1].elts[1], ast.Constant) and isinstance(v.args[1].elts[1].value, int)):
        _fail(st, "expected centers_rep = np.tile(center, (len(coeffs_s), <int>))")
    acc = LB.next(ast.AugAssign)
    LB.done()
    if not (_is_name(acc.target, "v_core") and isinstance(acc.op, ast.Add) and isinstance(acc.value, ast.Call) and _is_name(acc.value.func, "coulomb_potential")):
        _fail(acc, "expected v_core += coulomb_potential(...)")

    def kw(c):
        if len(c.args) != 1 or not _is_name(c.args[0], "points") or any(k.arg is None for k in c.keywords):
            _fail(c, "coulomb_potential(points, <keywords>)")
        return sorted((k.arg, _u(k.value)) for k in c.keywords)

    P += [f"/-- `{_u(st)}`: the centre repeated once per primitive (rows) and `totalTileCols` times along the coordinate axis;",
          f"`{_u(acc)[:160]}`. -/", f"def totalTileCols : Nat := {v.args[1].elts[1].value}",
          f"def totalCoreKw : List (String × String) := {_pairs(kw(acc.value))}", "def totalCoreStep (v_core pot : K) : K := (v_core + pot)\n"]
    st = T.next()
    if _u(st) != "v_bonding = np.zeros(points.shape[0])":
        _fail(st, "expected v_bonding = np.zeros(points.shape[0])")
    iff = T.next(ast.If)
    if iff.orelse or len(iff.body) != 1:
        _fail(iff, "bonding branch")
    bv = _assign1(iff.body[0], "v_bonding")
    if not (isinstance(bv, ast.Call) and _is_name(bv.func, "coulomb_potential")):
        _fail(iff, "expected v_bonding = coulomb_potential(...)")
    P += [f"/-- `{_u(st)}`; `if {_u(iff.test)}: {_u(iff.body[0])[:160]}` (`nfit` = `len(fit_coeffs)`). -/", "def totalBondingInit : K := ((0 : Nat) : K)",
          f"def totalBondingUsed (nfit : Nat) : Prop := {_nat_guard(iff.test, {'len(fit_coeffs)': 'nfit'}, 'total_potential')}",
          "instance (nfit : Nat) : Decidable (totalBondingUsed nfit) := by unfold totalBondingUsed; infer_instance",
          f"def totalBondKw : List (String × String) := {_pairs(kw(bv))}\n"]
    st = T.next()
    if _u(st) != "v_residual = phi_residual_interp(points)":
        _fail(st, "expected v_residual = phi_residual_interp(points)")
    r = T.next(ast.Return)
    T.done()
    names = {"v_core": "v_core", "v_bonding": "v_bonding", "v_residual": "v_residual"}
    P += [f"/-- `{_u(st)}`; `{_u(r)}`. -/", f"def totalReturn (v_core v_bonding v_residual : K) : K := {_ex(r.value, names)}\n"]
    return P


def translate(src: str) -> str:
    tree = ast.parse(src)
    parts = ["/-! ### module level -/\n"] + _module_const(tree)
    parts += ["/-! ### `_build_core_density` -/\n"] + _core(tree)
    parts += ["/-! ### `_fit_residual_gaussians` -/\n"] + _fit(tree)
    parts += ["/-! ### `solve_poisson_robust` and its closure `total_potential` -/\n"] + _solve(tree)
    return "\n".join(parts)


def text() -> str:
    body = translate((SRC / "robust_poisson.py").read_text())
    return (
        HEADER.format(name="poisson_robust", source="src/grid/robust_poisson.py (every statement of the robust solver: core density, NNLS split, guards, recombination)")
        + "import GridVerif.Model.Elem\n\nset_option linter.unusedVariables false\n\nnamespace GridVerif.Gen.PoissonRobust\n\n"
        + "variable {K : Type} [Add K] [Sub K] [Mul K] [Div K] [Neg K] [NatCast K] [Elem K]\n"
        + "  [LT K] [LE K] [DecidableLT K] [DecidableLE K]\n\n"
        + body
        + "\nend GridVerif.Gen.PoissonRobust\n"
    )


def generate():
    return write_if_changed("PoissonRobust.lean", text())


if __name__ == "__main__":
    changed, diff = generate()
    print("changed" if changed else "unchanged")
    print(diff)

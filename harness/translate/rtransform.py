"""Translator: grid/rtransform.py (Python AST) -> Gen/RTransform.lean   (property C03).

What is carried (DESIGN 2.3): for every class deriving from ``BaseTransform``
  * a parameter structure (one field per ``self._x = <constructor argument>``),
  * ``Admissible`` = conjunction of the negated constructor ``raise`` guards,
  * generic (in ``K``) definitions of ``transform/inverse/deriv/deriv2/deriv3`` and of every
    sibling method they call, translated from the *array branch* of the method body
    (``isinstance(x, Number)`` selects the scalar branch, which is emitted as ``<m>_scalar``),
  * ``<m>_raises`` : the condition under which the method body raises,
  * the finite ends of ``_domain`` / ``_codomain`` and both intervals with their infinite ends
    (``domainExt`` / ``codomainExt`` over ``ExtVal K``; for ``InverseRTransform`` the swap of the
    wrapped transform's two intervals),
  * static helpers (``BeckeRTransform.find_parameter``): straight-line code over one array argument
    (``array.size``, ``array[<integer expression>]``, ``//`` and ``%`` on Python integers, an
    ``if <integer>: v = e else: v = e'`` selection) -> a definition in ``Option`` (``none`` = IndexError);
for ``BaseTransform`` itself a record of the abstract methods, ``deriv_inverse``,
``deriv2_inverse``, ``deriv3_inverse`` and ``_convert_inf``.
Round 3: ``set_maximum_parameter_b`` of the b-scaled classes statement by statement (``if self.b is None:``, a local or the
attribute taking ``np.max(x)``, ``if <condition>: raise ValueError`` before or after the assignment of the attribute)
-> ``set_maximum_parameter_b`` (the attribute after the call, also after a rejected one, over ``Option K``) and
``set_maximum_parameter_b_raises``; ``if <condition>: warnings.warn(msg, Category,
stacklevel=n)`` inside a method -> ``<m>_warns`` (the condition, under the assignments before it) and
``<m>_warn_stacklevel``; the category travels through ``warnKindOf``.

The vocabulary is deliberately small: straight-line code (``Assign``, ``AugAssign``,
``Return``, ``With`` around it, ``if <guard>: raise``, ``if self.<flag>: v = ...``),
arithmetic ``+ - * / **`` (literal natural exponent -> ``npow``, anything else -> ``Elem.rpow``),
``np.log/exp/sqrt/power/ones/zeros/array/float64(<literal>)/size/sign/isinf/any``, calls of sibling methods.
Anything else raises ``Untranslatable`` (reported by the runner as a broken obligation).

Every number, sign, operator and operand order of the generated text comes from the AST;
nothing about the formulas is written in this file.
"""
from __future__ import annotations

import ast
import math
from pathlib import Path

from ..common import SRC
from .util import HEADER, write_if_changed


class Untranslatable(Exception):
    pass


PRIMARY = ["transform", "inverse", "deriv", "deriv2", "deriv3"]
NP_ELEM = {"log": "log", "exp": "exp", "sqrt": "sqrt", "sin": "sin", "cos": "cos", "tan": "tan",
           "tanh": "tanh", "sinh": "sinh", "cosh": "cosh", "arcsinh": "arcsinh", "arcsin": "arcsin",
           "arccos": "arccos", "abs": "abs"}
EXC_TAG = {"ValueError": "value-error", "ZeroDivisionError": "zero-division-error", "TypeError": "type-error"}
LEAN_RESERVED = {
    "at", "from", "fun", "end", "do", "then", "else", "if", "let", "have", "show", "by", "in", "with", "match",
    "def", "theorem", "where", "open", "namespace", "section", "variable", "universe", "structure", "class",
    "instance", "import", "Type", "Prop", "Sort", "forall", "exists", "mut", "for", "return", "deriving",
    "extends", "macro", "syntax", "notation", "local", "private", "protected", "partial", "unsafe", "using",
    "calc", "obtain", "example", "abbrev", "inductive", "mutual", "attribute", "set_option", "nomatch", "nofun",
    "K", "t", "f",
}

# Lean binding strengths
P_ATOM, P_MUL, P_ADD, P_NONE = 100, 70, 65, 0


def _ident(name: str) -> str:
    n = name.lstrip("_") or name
    if not n.isidentifier():
        raise Untranslatable(f"identifier {name!r}")
    return n + "'" if n in LEAN_RESERVED else n


def _where(node) -> str:
    return f"line {getattr(node, 'lineno', '?')}"


def lit(c, node=None) -> str:
    """Numeric literal -> exact Lean text over K."""
    if isinstance(c, bool) or not isinstance(c, (int, float)):
        raise Untranslatable(f"literal {c!r} at {_where(node)}")
    if isinstance(c, int):
        if c < 0:
            raise Untranslatable(f"negative literal {c!r}")
        return f"(({c} : Nat) : K)"
    if math.isinf(c) or math.isnan(c) or c < 0:
        raise Untranslatable(f"float literal {c!r} at {_where(node)}")
    p, q = c.as_integer_ratio()
    if q == 1:
        return f"(({p} : Nat) : K)"
    return f"((({p} : Nat) : K) / (({q} : Nat) : K))"


def _strip_doc(body):
    if body and isinstance(body[0], ast.Expr) and isinstance(body[0].value, ast.Constant) and isinstance(body[0].value.value, str):
        return body[1:]
    return body


def _is_np(node, name=None) -> bool:
    return (isinstance(node, ast.Attribute) and isinstance(node.value, ast.Name) and node.value.id == "np"
            and (name is None or node.attr == name))


def _is_self_attr(node, selfname="self"):
    return isinstance(node, ast.Attribute) and isinstance(node.value, ast.Name) and node.value.id == selfname


def _is_np_inf(node):
    """-> +1 / -1 / None"""
    if _is_np(node, "inf"):
        return 1
    if isinstance(node, ast.UnaryOp) and isinstance(node.op, ast.USub) and _is_np(node.operand, "inf"):
        return -1
    return None


class ClassInfo:
    def __init__(self, node: ast.ClassDef):
        self.node = node
        self.name = node.name
        self.is_base = node.name == "BaseTransform"
        self.methods = {}          # name -> FunctionDef (non-property)
        self.properties = {}       # name -> attr it returns
        self.abstract = []
        for item in node.body:
            if isinstance(item, ast.FunctionDef):
                decos = [ast.unparse(d) for d in item.decorator_list]
                if "property" in decos:
                    body = _strip_doc(item.body)
                    if len(body) == 1 and isinstance(body[0], ast.Return) and _is_self_attr(body[0].value):
                        self.properties[item.name] = body[0].value.attr
                    continue
                if "abstractmethod" in decos:
                    self.abstract.append(item.name)
                    continue
                self.methods[item.name] = item
        # filled by parse_init
        self.params = []           # constructor arguments in order (without self)
        self.fields = []           # [(lean field, python attr, kind)] kind in {"K","Bool","Ops"}
        self.attr2field = {}       # python attribute -> lean field
        self.arg2field = {}        # ctor argument -> lean field
        self.defaults = {}         # ctor argument -> python default (repr)
        self.guards = []           # [(lean Prop text, exception name, python text)]
        self.ends = {}             # 'domain_lo' -> lean text | None (infinite)
        self.b_optional = False
        self.out = {}              # method -> dict(value, raises, scalar, uses_size, exc)
        self.order = []
        self.static = {}           # static helper -> dict(params, kinds, value, raises, exc, src)


class MethodTranslator:
    """One method body in one mode ('array' | 'scalar')."""

    def __init__(self, mod: "Module", cls: ClassInfo, fn: ast.FunctionDef, mode: str):
        self.mod, self.cls, self.fn, self.mode = mod, cls, fn, mode
        args = fn.args
        if args.vararg or args.kwarg or args.kwonlyargs or args.posonlyargs:
            raise Untranslatable(f"{cls.name}.{fn.name}: unsupported signature")
        names = [a.arg for a in args.args]
        self.static = any(ast.unparse(d) == "staticmethod" for d in fn.decorator_list)
        self.selfname = None if self.static else names[0]
        self.params = names if self.static else names[1:]
        self.defaults = {}
        for a, d in zip(reversed(args.args), reversed(args.defaults)):
            self.defaults[a.arg] = d
        self.locals = set(self.params)
        self.funlocals = set()
        self.uses_self = False
        self.uses_size = False
        self.has_scalar_branch = False
        self.exc = None
        self.pending_raises = []   # raises conditions of sibling calls seen in the current statement
        self.deps = set()

    # ---- expressions ---------------------------------------------------------
    def par(self, tp, need):
        text, p = tp
        return text if p >= need else f"({text})"

    def atom(self, node):
        return self.par(self.tr(node), P_ATOM)

    def selfvar(self):
        self.uses_self = True
        return "f" if self.cls.is_base else "t"

    def field(self, attr, node):
        c = self.cls
        if attr in c.attr2field:
            return f"{self.selfvar()}.{c.attr2field[attr]}", P_ATOM
        if attr in c.properties and c.properties[attr] in c.attr2field:
            return f"{self.selfvar()}.{c.attr2field[c.properties[attr]]}", P_ATOM
        raise Untranslatable(f"{c.name}.{self.fn.name}: self.{attr} is not a constructor-set attribute ({_where(node)})")

    def tr(self, node):
        """-> (lean text, binding strength)"""
        if isinstance(node, ast.Constant):
            return lit(node.value, node), P_ATOM
        if isinstance(node, ast.Name):
            if node.id in self.locals and node.id not in self.funlocals:
                return _ident(node.id), P_ATOM
            raise Untranslatable(f"{self.cls.name}.{self.fn.name}: free name {node.id!r} ({_where(node)})")
        if isinstance(node, ast.Attribute):
            if self.selfname and _is_self_attr(node, self.selfname):
                return self.field(node.attr, node)
            if isinstance(node.value, ast.Name) and node.value.id in self.params and node.attr == "size":
                self.uses_size = True
                return f"{_ident(node.value.id)}_size", P_ATOM
            raise Untranslatable(f"{self.cls.name}.{self.fn.name}: attribute {ast.unparse(node)} ({_where(node)})")
        if isinstance(node, ast.UnaryOp):
            if isinstance(node.op, ast.USub):
                return f"(-{self.atom(node.operand)})", P_ATOM
            if isinstance(node.op, ast.UAdd):
                return self.tr(node.operand)
            raise Untranslatable(f"unary operator {ast.unparse(node)} ({_where(node)})")
        if isinstance(node, ast.BinOp):
            return self.binop(node)
        if isinstance(node, ast.Call):
            return self.call(node)
        if isinstance(node, ast.IfExp):
            return self.ifexp(node)
        raise Untranslatable(f"{self.cls.name}.{self.fn.name}: expression {ast.unparse(node)!r} ({_where(node)})")

    def binop(self, node):
        op = node.op
        if isinstance(op, ast.Pow):
            e = node.right
            if isinstance(e, ast.Constant) and isinstance(e.value, int) and not isinstance(e.value, bool) and e.value >= 0:
                return f"npow {self.atom(node.left)} {e.value}", 90
            return f"Elem.rpow {self.atom(node.left)} {self.atom(e)}", 90
        table = {ast.Add: ("+", P_ADD), ast.Sub: ("-", P_ADD), ast.Mult: ("*", P_MUL), ast.Div: ("/", P_MUL)}
        for k, (sym, p) in table.items():
            if isinstance(op, k):
                # Python and Lean are both left-associative here
                left = self.par(self.tr(node.left), p)
                right = self.par(self.tr(node.right), p + 1)
                return f"{left} {sym} {right}", p
        raise Untranslatable(f"operator in {ast.unparse(node)!r} ({_where(node)})")

    def size_arg(self, node):
        return (isinstance(node, ast.Attribute) and node.attr == "size" and isinstance(node.value, ast.Name)
                and node.value.id in self.params)

    def call(self, node):
        if node.keywords:
            raise Untranslatable(f"keyword arguments in {ast.unparse(node)!r} ({_where(node)})")
        fn, args = node.func, node.args
        if _is_np(fn):
            name = fn.attr
            if name in NP_ELEM and len(args) == 1:
                return f"Elem.{NP_ELEM[name]} {self.atom(args[0])}", 90
            if name == "power" and len(args) == 2:
                return f"Elem.rpow {self.atom(args[0])} {self.atom(args[1])}", 90
            if name == "ones" and len(args) == 1 and self.size_arg(args[0]):
                return lit(1), P_ATOM
            if name == "zeros" and len(args) == 1 and self.size_arg(args[0]):
                return lit(0), P_ATOM
            if name == "array" and len(args) == 1 and isinstance(args[0], ast.Constant):
                return lit(args[0].value, node), P_ATOM
            if name in ("float64", "double") and len(args) == 1 and isinstance(args[0], ast.Constant):
                # np.float64(1): the literal as a NumPy double (so that a Python-float operand follows IEEE rules) = the literal in K
                return lit(args[0].value, node), P_ATOM
            if name == "size" and len(args) == 1 and isinstance(args[0], ast.Name) and args[0].id in self.params:
                # np.size(x): number of elements of the argument (1 for a scalar), same quantity as x.size
                self.uses_size = True
                return f"{_ident(args[0].id)}_size", P_ATOM
            if name == "sign" and len(args) == 1:
                return f"HasInf.sign {self.atom(args[0])}", 90
            if (name == "interp" and len(args) == 3 and all(isinstance(a, (ast.Tuple, ast.List)) and len(a.elts) == 2 for a in args[1:])):
                # np.interp(x, (x0, x1), (y0, y1)): the clamped two-point interpolation as a named primitive (Model/Interp.lean)
                self.mod.uses_interp = True
                return ("HasInterp.interp2 " + " ".join([self.atom(args[0])] + [self.atom(e) for a in args[1:] for e in a.elts])), 90
            raise Untranslatable(f"numpy call {ast.unparse(node)!r} ({_where(node)})")
        # call of a function-valued local (alias of a method of the wrapped transform)
        if isinstance(fn, ast.Name) and fn.id in self.funlocals:
            return f"{_ident(fn.id)} " + " ".join(self.atom(a) for a in args), 90
        # array.copy()
        if (isinstance(fn, ast.Attribute) and fn.attr == "copy" and not args and isinstance(fn.value, ast.Name)
                and fn.value.id in self.locals):
            return self.tr(fn.value)
        # method of the wrapped transform: self._tfm.m(args)
        if isinstance(fn, ast.Attribute) and self.selfname and _is_self_attr(fn.value, self.selfname):
            ftxt, _ = self.field(fn.value.attr, node)
            if self.cls.field_kind(fn.value.attr) != "Ops" or fn.attr not in self.mod.base.abstract:
                raise Untranslatable(f"call {ast.unparse(node)!r} ({_where(node)})")
            return f"{ftxt}.{fn.attr} " + " ".join(self.atom(a) for a in args), 90
        # sibling method
        if isinstance(fn, ast.Attribute) and self.selfname and _is_self_attr(fn, self.selfname):
            return self.sibling(fn.attr, args, node)
        raise Untranslatable(f"{self.cls.name}.{self.fn.name}: call {ast.unparse(node)!r} ({_where(node)})")

    def sibling(self, name, args, node):
        c, base = self.cls, self.mod.base
        argt = [self.atom(a) for a in args]
        if c.is_base and name in base.abstract:
            return f"{self.selfvar()}.{name} " + " ".join(argt), 90
        owner = c if name in c.methods else (base if name in base.methods else None)
        if owner is None or name not in owner.out:
            if owner is not None and name not in owner.out:
                raise Untranslatable(f"{c.name}.{self.fn.name}: call of {name} before it is translated (cycle?)")
            raise Untranslatable(f"{c.name}.{self.fn.name}: unknown method {name} ({_where(node)})")
        self.deps.add(name)
        info = owner.out[name]
        if info.get("warns") is not None:
            raise Untranslatable(f"{c.name}.{self.fn.name}: calls {name}, which issues a warning ({_where(node)})")
        lname = _ident(name)
        head = f"{owner.name}.{lname}"
        recv = []
        if info["uses_self"]:
            if owner is c:
                recv = [self.selfvar()]
            else:   # base-class concrete method called from a subclass: through the record
                recv = [f"({c.name}.ops {self.selfvar()})"]
        if info["raises"] is not None:
            size = []
            if info["uses_size"]:
                self.uses_size = True
                size = [f"{_ident(self.params[0])}_size"]
            self.pending_raises.append(f"{head}_raises " + " ".join(recv + size + argt))
            if self.exc is None:
                self.exc = info["exc"]
            elif self.exc != info["exc"]:
                raise Untranslatable(f"{c.name}.{self.fn.name}: two kinds of exception")
        return f"{head} " + " ".join(recv + argt) if (recv or argt) else head, 90

    def ifexp(self, node):
        t = node.test
        if self.is_isinstance_number(t):
            self.has_scalar_branch = True
            return self.tr(node.body if self.mode == "scalar" else node.orelse)
        if isinstance(t, ast.Call) and _is_np(t.func, "isinf") and len(t.args) == 1:
            return (f"if HasInf.isInf {self.atom(t.args[0])} then {self.par(self.tr(node.body), P_ADD)} "
                    f"else {self.par(self.tr(node.orelse), P_ADD)}"), P_NONE
        raise Untranslatable(f"conditional expression {ast.unparse(node)!r} ({_where(node)})")

    def is_isinstance_number(self, t):
        return (isinstance(t, ast.Call) and isinstance(t.func, ast.Name) and t.func.id == "isinstance"
                and len(t.args) == 2 and isinstance(t.args[0], ast.Name) and t.args[0].id in self.params
                and isinstance(t.args[1], ast.Name) and t.args[1].id == "Number")

    # ---- conditions (Prop) ---------------------------------------------------
    def cond(self, node) -> str:
        if isinstance(node, ast.BoolOp):
            sym = " ∨ " if isinstance(node.op, ast.Or) else " ∧ "
            return "(" + sym.join(self.cond(v) for v in node.values) + ")"
        if isinstance(node, ast.UnaryOp) and isinstance(node.op, ast.Not):
            return f"¬ {self.cond(node.operand)}"
        if isinstance(node, ast.Call) and _is_np(node.func, "any") and len(node.args) == 1:
            return self.cond(node.args[0])     # element-wise; the quantifier over elements is outside
        if isinstance(node, ast.Compare) and len(node.ops) == 1:
            a = self.par(self.tr(node.left), P_ADD)
            b = self.par(self.tr(node.comparators[0]), P_ADD)
            op = node.ops[0]
            sym = {ast.Lt: "<", ast.LtE: "≤", ast.Gt: ">", ast.GtE: "≥"}.get(type(op))
            if sym:
                return f"({a} {sym} {b})"
            if isinstance(op, ast.Eq):
                return f"(({a} == {b}) = true)"
            if isinstance(op, ast.NotEq):
                return f"(({a} != {b}) = true)"
        raise Untranslatable(f"{self.cls.name}.{self.fn.name}: condition {ast.unparse(node)!r} ({_where(node)})")

    # ---- statements ----------------------------------------------------------
    def flush(self, items):
        for r in self.pending_raises:
            items.append(("guard", r))
        self.pending_raises = []

    def let(self, items, name, text):
        # guards raised by sibling calls inside `text` come first
        self.flush(items)
        items.append(("let", _ident(name), text))
        self.locals.add(name)

    def stmts(self, body, items):
        """Translate a statement list; returns True when a `return` was emitted."""
        body = _strip_doc(body)
        for st in body:
            if self.stmt(st, items):
                return True
        return False

    def stmt(self, st, items) -> bool:
        c, who = self.cls, f"{self.cls.name}.{self.fn.name}"
        if isinstance(st, ast.Return):
            if st.value is None:
                raise Untranslatable(f"{who}: bare return")
            text = self.par(self.tr(st.value), P_NONE)
            self.flush(items)
            items.append(("ret", text))
            return True
        if isinstance(st, ast.Assign):
            if len(st.targets) != 1:
                raise Untranslatable(f"{who}: multiple assignment targets ({_where(st)})")
            tg = st.targets[0]
            if isinstance(tg, ast.Name):
                # alias of a method of the wrapped transform:  d2 = self._tfm.deriv2
                v = st.value
                if (isinstance(v, ast.Attribute) and self.selfname and _is_self_attr(v.value, self.selfname)
                        and c.field_kind(v.value.attr) == "Ops" and v.attr in self.mod.base.abstract):
                    ftxt, _ = self.field(v.value.attr, st)
                    self.flush(items)
                    items.append(("let", _ident(tg.id), f"{ftxt}.{v.attr}"))
                    self.locals.add(tg.id)
                    self.funlocals.add(tg.id)
                    return False
                text = self.par(self.tr(v), P_NONE)
                self.funlocals.discard(tg.id)
                self.let(items, tg.id, text)
                return False
            # masked assignment  v[v == ±np.inf] = e
            if (isinstance(tg, ast.Subscript) and isinstance(tg.value, ast.Name) and tg.value.id in self.locals
                    and isinstance(tg.slice, ast.Compare) and len(tg.slice.ops) == 1
                    and isinstance(tg.slice.ops[0], ast.Eq) and isinstance(tg.slice.left, ast.Name)
                    and tg.slice.left.id == tg.value.id):
                sgn = _is_np_inf(tg.slice.comparators[0])
                if sgn is not None:
                    v = _ident(tg.value.id)
                    test = "HasInf.eqPosInf" if sgn > 0 else "HasInf.eqNegInf"
                    self.let(items, tg.value.id, f"if {test} {v} then {self.par(self.tr(st.value), P_ADD)} else {v}")
                    return False
            raise Untranslatable(f"{who}: assignment target {ast.unparse(tg)!r} ({_where(st)})")
        if isinstance(st, ast.AugAssign):
            if not isinstance(st.target, ast.Name) or st.target.id not in self.locals:
                raise Untranslatable(f"{who}: augmented assignment to {ast.unparse(st.target)!r}")
            fake = ast.BinOp(left=ast.Name(id=st.target.id, ctx=ast.Load()), op=st.op, right=st.value)
            ast.copy_location(fake, st)
            self.let(items, st.target.id, self.par(self.tr(fake), P_NONE))
            return False
        if isinstance(st, ast.With):
            for it in st.items:
                ctx = ast.unparse(it.context_expr)
                if it.optional_vars is not None or not (ctx.startswith("warnings.catch_warnings(") or ctx.startswith("np.errstate(")):
                    raise Untranslatable(f"{who}: with {ctx}")
            return self.stmts(st.body, items)
        if isinstance(st, ast.Expr):
            v = st.value
            if isinstance(v, ast.Constant) and isinstance(v.value, str):
                return False
            txt = ast.unparse(v)
            if txt.startswith("warnings.filterwarnings(") or txt.startswith("warnings.warn("):
                return False
            if (isinstance(v, ast.Call) and self.selfname and _is_self_attr(v.func, self.selfname)
                    and v.func.attr == "set_maximum_parameter_b" and c.b_noop_when_set):
                return False        # no effect once b is set (structure verified in parse_class)
            raise Untranslatable(f"{who}: statement {txt!r} ({_where(st)})")
        if isinstance(st, ast.If):
            return self.if_stmt(st, items)
        if isinstance(st, ast.Pass):
            return False
        raise Untranslatable(f"{who}: statement {type(st).__name__} ({_where(st)})")

    def if_stmt(self, st, items) -> bool:
        who = f"{self.cls.name}.{self.fn.name}"
        t = st.test
        if self.is_isinstance_number(t):
            self.has_scalar_branch = True
            return self.stmts(st.body if self.mode == "scalar" else st.orelse, items)
        body = _strip_doc(st.body)
        # guard:  if cond: raise X(...)
        if len(body) == 1 and isinstance(body[0], ast.Raise) and not st.orelse:
            exc = body[0].exc
            name = exc.func.id if isinstance(exc, ast.Call) and isinstance(exc.func, ast.Name) else None
            if name not in EXC_TAG:
                raise Untranslatable(f"{who}: raise {ast.unparse(exc) if exc else ''}")
            if self.exc not in (None, name):
                raise Untranslatable(f"{who}: two kinds of exception")
            self.exc = name
            text = self.cond(t)
            self.flush(items)
            items.append(("guard", text))
            return False
        # warning only:  if cond: warnings.warn(msg, Category, stacklevel=n)
        if not st.orelse and all(isinstance(b, ast.Expr) and ast.unparse(b.value).startswith("warnings.warn(") for b in body):
            if len(body) != 1:
                raise Untranslatable(f"{who}: several warnings under one condition ({_where(st)})")
            cat, level = self.warn_call(body[0].value)
            text = self.cond(t)
            self.flush(items)
            items.append(("warn", text, cat, level))
            return False
        # flag:  if self.trim_inf: v = e
        if (not st.orelse and self.selfname and _is_self_attr(t, self.selfname)
                and self.cls.field_kind(t.attr) == "Bool"
                and all(isinstance(b, ast.Assign) and len(b.targets) == 1 and isinstance(b.targets[0], ast.Name)
                        and b.targets[0].id in self.locals for b in body)):
            flag, _ = self.field(t.attr, st)
            for b in body:
                v = b.targets[0].id
                self.let(items, v, f"if {flag} then {self.par(self.tr(b.value), P_ADD)} else {_ident(v)}")
            return False
        raise Untranslatable(f"{who}: if {ast.unparse(t)!r} ({_where(st)})")

    def warn_call(self, call):
        """`warnings.warn(msg, Category, stacklevel=n)` -> (category name, stacklevel); the message is not carried."""
        who = f"{self.cls.name}.{self.fn.name}"
        if not (isinstance(call, ast.Call) and 1 <= len(call.args) <= 2):
            raise Untranslatable(f"{who}: warnings.warn call {ast.unparse(call)[:60]!r}")
        cat = "UserWarning"
        if len(call.args) == 2:
            if not isinstance(call.args[1], ast.Name):
                raise Untranslatable(f"{who}: warning category {ast.unparse(call.args[1])!r}")
            cat = call.args[1].id
        level = 1
        for kw in call.keywords:
            if kw.arg == "stacklevel" and isinstance(kw.value, ast.Constant) and isinstance(kw.value.value, int) \
                    and not isinstance(kw.value.value, bool) and kw.value.value >= 0:
                level = kw.value.value
            elif kw.arg == "category" and isinstance(kw.value, ast.Name):
                cat = kw.value.id
            else:
                raise Untranslatable(f"{who}: warnings.warn keyword {kw.arg!r} ({_where(call)})")
        return cat, level

    # ---- whole method ----------------------------------------------------------
    def run(self):
        items = []
        if not self.stmts(self.fn.body, items):
            raise Untranslatable(f"{self.cls.name}.{self.fn.name}: no return on the {self.mode} path")
        return items


class StaticTranslator(MethodTranslator):
    """A static helper over one array argument and scalar arguments -> a definition in `Option K`.

    Statements carried: `if <scalar comparison>: raise ValueError`, `name = array.size` (a Python integer),
    `name = <scalar expression>`, `if <integer expression>: v = e  else: v = e'` (truthiness of a Python integer;
    both branches assign the same single name), `return <scalar expression>`.  Scalar expressions may index the
    array with an integer expression (`array[size // 2 - 1]`): `pyIndex`, Python semantics (negative indices count
    from the end, out of range = IndexError = `none`).  Integer expressions: literals, integer locals, `array.size`,
    `len(array)`, `+ - * // %` (`Int.fdiv` / `Int.fmod`: Python's floor division and modulus)."""

    def __init__(self, mod, cls, fn):
        super().__init__(mod, cls, fn, "array")
        if not self.static:
            raise Untranslatable(f"{cls.name}.{fn.name}: not a static method")
        self.kinds = {}
        for a in fn.args.args:
            ann = ast.unparse(a.annotation) if a.annotation else None
            if ann in ("np.ndarray", "numpy.ndarray"):
                self.kinds[a.arg] = "array"
            elif ann in ("float", "int", None):
                self.kinds[a.arg] = "K"
            else:
                raise Untranslatable(f"{cls.name}.{fn.name}: argument {a.arg}: {ann}")
        if list(self.kinds.values()).count("array") != 1 or self.defaults:
            raise Untranslatable(f"{cls.name}.{fn.name}: expected exactly one array argument and no defaults")
        self.intlocals = set()
        self.locals = {p for p, k in self.kinds.items() if k == "K"}

    def is_array(self, node):
        return isinstance(node, ast.Name) and self.kinds.get(node.id) == "array"

    # integer expressions
    def itr(self, node):
        if isinstance(node, ast.Constant) and isinstance(node.value, int) and not isinstance(node.value, bool) and node.value >= 0:
            return f"({node.value} : Int)", P_ATOM
        if isinstance(node, ast.Name) and node.id in self.intlocals:
            return _ident(node.id), P_ATOM
        if isinstance(node, ast.Attribute) and node.attr == "size" and self.is_array(node.value):
            return f"({_ident(node.value.id)}.length : Int)", P_ATOM
        if (isinstance(node, ast.Call) and isinstance(node.func, ast.Name) and node.func.id == "len" and len(node.args) == 1
                and not node.keywords and self.is_array(node.args[0])):
            return f"({_ident(node.args[0].id)}.length : Int)", P_ATOM
        if isinstance(node, ast.BinOp):
            if isinstance(node.op, (ast.FloorDiv, ast.Mod)):
                f = "Int.fdiv" if isinstance(node.op, ast.FloorDiv) else "Int.fmod"
                return f"{f} {self.par(self.itr(node.left), P_ATOM)} {self.par(self.itr(node.right), P_ATOM)}", 90
            table = {ast.Add: ("+", P_ADD), ast.Sub: ("-", P_ADD), ast.Mult: ("*", P_MUL)}
            for k, (sym, p) in table.items():
                if isinstance(node.op, k):
                    return f"{self.par(self.itr(node.left), p)} {sym} {self.par(self.itr(node.right), p + 1)}", p
        raise Untranslatable(f"{self.cls.name}.{self.fn.name}: integer expression {ast.unparse(node)!r} ({_where(node)})")

    def is_int_expr(self, node):
        try:
            self.itr(node)
            return True
        except Untranslatable:
            return False

    def tr(self, node):
        if isinstance(node, ast.Subscript) and self.is_array(node.value):
            idx = self.par(self.itr(node.slice), P_ATOM)
            return f"(← pyIndex {_ident(node.value.id)} {idx})", P_ATOM
        if isinstance(node, ast.Name) and (node.id in self.intlocals or self.kinds.get(node.id) == "array"):
            raise Untranslatable(f"{self.cls.name}.{self.fn.name}: {node.id!r} used as a number ({_where(node)})")
        return super().tr(node)

    def run_static(self):
        who = f"{self.cls.name}.{self.fn.name}"
        lines, guards, returned = [], [], False
        body = _strip_doc(self.fn.body)
        for st in body:
            if returned:
                raise Untranslatable(f"{who}: code after return")
            if isinstance(st, ast.If) and not st.orelse and len(_strip_doc(st.body)) == 1 and isinstance(st.body[0], ast.Raise):
                if lines:
                    raise Untranslatable(f"{who}: raise guard after the first assignment ({_where(st)})")
                exc = st.body[0].exc
                name = exc.func.id if isinstance(exc, ast.Call) and isinstance(exc.func, ast.Name) else None
                if name not in EXC_TAG or self.exc not in (None, name):
                    raise Untranslatable(f"{who}: raise {ast.unparse(exc) if exc else ''}")
                self.exc = name
                guards.append(self.cond(st.test))
            elif isinstance(st, ast.Assign) and len(st.targets) == 1 and isinstance(st.targets[0], ast.Name):
                nm = st.targets[0].id
                if self.is_int_expr(st.value):
                    lines.append(f"  let {_ident(nm)} : Int := {self.par(self.itr(st.value), P_NONE)}")
                    self.intlocals.add(nm)
                    self.locals.discard(nm)
                else:
                    lines.append(f"  let {_ident(nm)} : K := {self.par(self.tr(st.value), P_NONE)}")
                    self.locals.add(nm)
                    self.intlocals.discard(nm)
            elif isinstance(st, ast.If) and st.orelse:
                def branch(b):
                    b = _strip_doc(b)
                    if not (len(b) == 1 and isinstance(b[0], ast.Assign) and len(b[0].targets) == 1
                            and isinstance(b[0].targets[0], ast.Name)):
                        raise Untranslatable(f"{who}: branch is not a single assignment ({_where(st)})")
                    return b[0].targets[0].id, self.par(self.tr(b[0].value), P_NONE)
                n1, e1 = branch(st.body)
                n2, e2 = branch(st.orelse)
                if n1 != n2:
                    raise Untranslatable(f"{who}: branches assign different names ({_where(st)})")
                test = f"{self.par(self.itr(st.test), P_ADD)} ≠ 0"      # truthiness of a Python integer
                lines.append(f"  let {_ident(n1)} : K ← (if {test} then (do\n      pure ({e1}))\n    else (do\n      pure ({e2})) : Option K)")
                self.locals.add(n1)
                self.intlocals.discard(n1)
            elif isinstance(st, ast.Return) and st.value is not None:
                lines.append(f"  pure ({self.par(self.tr(st.value), P_NONE)})")
                returned = True
            else:
                raise Untranslatable(f"{who}: statement {ast.unparse(st)[:80]!r} ({_where(st)})")
        if not returned:
            raise Untranslatable(f"{who}: no return")
        return lines, guards


def render_value(items, indent="  "):
    lines = []
    for it in items:
        if it[0] == "let":
            lines.append(f"{indent}let {it[1]} := {it[2]}")
        elif it[0] == "ret":
            lines.append(f"{indent}{it[1]}")
    return "\n".join(lines)


def render_raises(items, indent="  ", kind="guard"):
    """Condition under which the body raises (kind="guard") / warns (kind="warn"): the conditions in order, each under
    the lets before it."""
    items = [it for it in items if it[0] in ("let", kind)]
    if not any(it[0] == kind for it in items):
        return None
    last = max(i for i, it in enumerate(items) if it[0] == kind)
    items = items[:last + 1]

    def go(i, ind):
        it = items[i]
        if it[0] == "let":
            return f"{ind}let {it[1]} := {it[2]}\n" + go(i + 1, ind)
        if i == len(items) - 1:
            return f"{ind}{it[1]}"
        return f"{ind}{it[1]} ∨ (\n" + go(i + 1, ind + "  ") + ")"
    return go(0, indent)


class Module:
    def __init__(self, text: str):
        self.tree = ast.parse(text)
        self.classes = {}
        for node in self.tree.body:
            if isinstance(node, ast.ClassDef):
                self.classes[node.name] = ClassInfo(node)
        if "BaseTransform" not in self.classes:
            raise Untranslatable("class BaseTransform not found")
        self.base = self.classes["BaseTransform"]
        self.transforms = []
        for c in self.classes.values():
            bases = [ast.unparse(b) for b in c.node.bases]
            if c.is_base:
                continue
            if bases == ["BaseTransform"]:
                self.transforms.append(c)
            elif any("Transform" in b for b in bases):
                raise Untranslatable(f"class {c.name} derives from {bases}")
        if self.base.abstract != PRIMARY:
            raise Untranslatable(f"abstract methods of BaseTransform are {self.base.abstract}, expected {PRIMARY}")
        for c in [self.base] + self.transforms:
            self.parse_class(c)

    # ---------------------------------------------------------------------------
    def parse_class(self, c: ClassInfo):
        def field_kind(attr, c=c):
            a = c.properties.get(attr, attr) if attr not in c.attr2field else attr
            for fld, at, kind in c.fields:
                if at == a:
                    return kind
            return None
        c.field_kind = field_kind
        c.b_noop_when_set = False
        if not c.is_base:
            for m in self.base.methods:
                if m in c.methods and m != "__init__":
                    raise Untranslatable(f"{c.name} overrides BaseTransform.{m}")
            missing = [m for m in PRIMARY if m not in c.methods]
            if missing:
                raise Untranslatable(f"{c.name} lacks {missing}")
            self.parse_init(c)
            smb = c.methods.get("set_maximum_parameter_b")
            if smb is not None:
                body = _strip_doc(smb.body)
                ok = (len(body) == 1 and isinstance(body[0], ast.If) and not body[0].orelse
                      and ast.unparse(body[0].test) == "self.b is None" and "b" in c.properties
                      and c.properties["b"] in c.attr2field)
                if not ok:
                    raise Untranslatable(f"{c.name}.set_maximum_parameter_b is not of the form `if self.b is None: ...`")
                c.b_noop_when_set = True
                c.setb = self.translate_setb(c, smb)
        # methods reachable from the primary ones (base: every concrete method except transform_1d_grid)
        if c.is_base:
            wanted = [m for m in c.methods if m in ("deriv_inverse", "deriv2_inverse", "deriv3_inverse", "_convert_inf")]
            for m in ("deriv_inverse", "deriv2_inverse", "deriv3_inverse", "_convert_inf"):
                if m not in c.methods:
                    raise Untranslatable(f"BaseTransform.{m} not found")
        else:
            wanted = list(PRIMARY)
        done, visiting = [], set()

        def visit(m):
            if m in c.out:
                return
            if m in visiting:
                raise Untranslatable(f"{c.name}: recursive method {m}")
            visiting.add(m)
            fn = c.methods[m]
            # dependencies first: sibling calls self.<m>(...)
            for sub in ast.walk(fn):
                if (isinstance(sub, ast.Call) and _is_self_attr(sub.func) and sub.func.attr in c.methods
                        and sub.func.attr not in ("set_maximum_parameter_b",) and sub.func.attr != m):
                    visit(sub.func.attr)
            c.out[m] = self.translate(c, fn)
            done.append(m)
            visiting.discard(m)

        for m in wanted:
            visit(m)
        c.order = done
        # static helpers (find_parameter): every one must be carried
        for m, fn in c.methods.items():
            if any(ast.unparse(d) == "staticmethod" for d in fn.decorator_list):
                if m in c.out:
                    raise Untranslatable(f"{c.name}.{m}: static method among the primary methods")
                stt = StaticTranslator(self, c, fn)
                lines, guards = stt.run_static()
                c.static[m] = dict(params=[(_ident(p), k) for p, k in stt.kinds.items()], lines=lines, guards=guards,
                                   exc=stt.exc, doc=(ast.get_docstring(fn) or "").strip().splitlines()[0:1])
            elif any(ast.unparse(d) == "classmethod" for d in fn.decorator_list):
                raise Untranslatable(f"{c.name}.{m}: classmethod")

    def translate_setb(self, c: ClassInfo, smb: ast.FunctionDef):
        """`set_maximum_parameter_b(self, x)`, statement by statement:

            if self.b is None:
                <name> = np.max(x)                       (a local holding the maximum)            | any order, the attribute
                self._b = np.max(x)  |  self._b = <name> (the attribute takes the maximum)        | assigned exactly once
                if <condition>: raise ValueError(...)    (any number of guards)                   |

        In a condition `<name>`, and `self.b` / `self._b` *after* the assignment, denote the maximum `x_max`; `self.b` before
        the assignment is `None` and is not carried.  Guards standing before the assignment leave the attribute `None` when
        they raise; guards after it leave the rejected maximum in the attribute.
        -> dict(before=[guards before the assignment], after=[guards after it], ...)."""
        who = f"{c.name}.set_maximum_parameter_b"
        a = smb.args
        if a.vararg or a.kwarg or a.kwonlyargs or a.posonlyargs or a.defaults or len(a.args) != 2:
            raise Untranslatable(f"{who}: unsupported signature")
        xname = a.args[1].arg
        battr = c.properties["b"]
        inner = _strip_doc(_strip_doc(smb.body)[0].body)
        if not inner:
            raise Untranslatable(f"{who}: empty body")

        def is_max(v):
            return (isinstance(v, ast.Call) and _is_np(v.func, "max") and len(v.args) == 1 and not v.keywords
                    and isinstance(v.args[0], ast.Name) and v.args[0].id == xname)
        mt = MethodTranslator(self, c, smb, "array")
        mt.locals = set()          # the array argument itself may not be used as a number
        state = {"assigned": False, "maxnames": set()}

        def field(attr, node, c=c):
            if (attr == battr or c.properties.get(attr) == battr) and state["assigned"]:
                return "x_max", P_ATOM
            raise Untranslatable(f"{who}: self.{attr} ({_where(node)})")
        mt.field = field
        orig_tr = mt.tr

        def tr(node):
            if isinstance(node, ast.Name) and node.id in state["maxnames"]:
                return "x_max", P_ATOM
            return orig_tr(node)
        mt.tr = tr
        before, after, exc, src = [], [], None, []
        for st in inner:
            if isinstance(st, ast.Assign) and len(st.targets) == 1:
                tg, v = st.targets[0], st.value
                if isinstance(tg, ast.Name) and tg.id != xname and is_max(v):
                    state["maxnames"].add(tg.id)
                    src.append(ast.unparse(st))
                    continue
                if (_is_self_attr(tg) and tg.attr == battr and not state["assigned"]
                        and (is_max(v) or (isinstance(v, ast.Name) and v.id in state["maxnames"]))):
                    state["assigned"] = True
                    src.append(ast.unparse(st))
                    continue
                raise Untranslatable(f"{who}: assignment {ast.unparse(st)!r} ({_where(st)})")
            body = _strip_doc(st.body) if isinstance(st, ast.If) else []
            if not (isinstance(st, ast.If) and not st.orelse and len(body) == 1 and isinstance(body[0], ast.Raise)):
                raise Untranslatable(f"{who}: statement {ast.unparse(st)[:80]!r} ({_where(st)})")
            e = body[0].exc
            name = e.func.id if isinstance(e, ast.Call) and isinstance(e.func, ast.Name) else None
            if name not in EXC_TAG or exc not in (None, name):
                raise Untranslatable(f"{who}: raise {ast.unparse(e) if e else ''}")
            exc = name
            (after if state["assigned"] else before).append((mt.cond(st.test), ast.unparse(st.test)))
            src.append(f"if {ast.unparse(st.test)}: raise {name}")
        if not state["assigned"]:
            raise Untranslatable(f"{who}: self.{battr} is never assigned the maximum of {xname}")
        return dict(before=before, after=after, guards=before + after, exc=exc, x=xname, src="; ".join(src))

    def emit_setb(self, c: ClassInfo, P: list):
        o = c.setb
        P.append(f"/-- `{c.name}.set_maximum_parameter_b({o['x']})`: the attribute `self._b` after the call (also when the call raises).\n"
                 f"`b` is the attribute before the call (`none` = `None`), `x_max` is `np.max({o['x']})`:\n"
                 f"  `if self.b is None: {o['src']}`. -/")
        if o["before"]:
            # a guard that raises before the assignment leaves the attribute `None`
            P.append("def set_maximum_parameter_b [DecidableLT K] [DecidableLE K] (b : Option K) (x_max : K) : Option K :=\n  match b with\n"
                     "  | none => if " + " ∨ ".join(g[0] for g in o["before"]) + " then none else some x_max\n  | some v => some v\n")
        else:
            P.append("def set_maximum_parameter_b [DecidableLT K] [DecidableLE K] (b : Option K) (x_max : K) : Option K :=\n"
                     "  match b with\n  | none => some x_max\n  | some v => some v\n")
        if o["guards"]:
            P.append(f"/-- `{c.name}.set_maximum_parameter_b` raises `{o['exc']}`:\n"
                     + "\n".join(f"  `if self.b is None: …; if {g[1]}: raise {o['exc']}`" for g in o["guards"]) + " -/")
            P.append("def set_maximum_parameter_b_raises (b : Option K) (x_max : K) : Prop :=\n  b.isNone = true ∧ ("
                     + " ∨ ".join(g[0] for g in o["guards"]) + ")\n")
        else:
            P.append(f"/-- `{c.name}.set_maximum_parameter_b` never raises. -/")
            P.append("def set_maximum_parameter_b_raises (b : Option K) (x_max : K) : Prop := False\n")
        P.append("instance [DecidableLT K] [DecidableLE K] (b : Option K) (x_max : K) :\n"
                 "    Decidable (set_maximum_parameter_b_raises b x_max) := by\n  unfold set_maximum_parameter_b_raises; exact inferInstance\n")

    def parse_init(self, c: ClassInfo):
        init = c.methods.get("__init__")
        if init is None:
            raise Untranslatable(f"{c.name} has no __init__")
        a = init.args
        if a.vararg or a.kwarg or a.kwonlyargs or a.posonlyargs:
            raise Untranslatable(f"{c.name}.__init__: unsupported signature")
        c.params = [x.arg for x in a.args][1:]
        for arg, d in zip(reversed(a.args), reversed(a.defaults)):
            c.defaults[arg.arg] = ast.unparse(d)
        ann = {x.arg: (ast.unparse(x.annotation) if x.annotation else None) for x in a.args}
        guards_ast = []
        for st in _strip_doc(init.body):
            if isinstance(st, ast.If):
                body = _strip_doc(st.body)
                if not (len(body) == 1 and isinstance(body[0], ast.Raise) and not st.orelse):
                    raise Untranslatable(f"{c.name}.__init__: if-statement that is not a guard ({_where(st)})")
                exc = body[0].exc
                name = exc.func.id if isinstance(exc, ast.Call) and isinstance(exc.func, ast.Name) else None
                if name not in EXC_TAG:
                    raise Untranslatable(f"{c.name}.__init__: raise {ast.unparse(exc) if exc else ''}")
                guards_ast.append((st.test, name))
            elif isinstance(st, ast.Assign) and len(st.targets) == 1 and _is_self_attr(st.targets[0]):
                attr, v = st.targets[0].attr, st.value
                if attr in ("_domain", "_codomain"):
                    key = attr[1:]
                    if isinstance(v, ast.Tuple) and len(v.elts) == 2:
                        c.ends[key + "_lo"], c.ends[key + "_hi"] = v.elts
                    else:
                        c.ends[key] = ast.unparse(v)      # taken over from the wrapped transform
                    continue
                if not (isinstance(v, ast.Name) and v.id in c.params):
                    raise Untranslatable(f"{c.name}.__init__: self.{attr} = {ast.unparse(v)!r} is not a plain constructor argument")
                kind = "K"
                if c.defaults.get(v.id) in ("True", "False") or ann[v.id] == "bool":
                    kind = "Bool"
                elif ann[v.id] == "BaseTransform":
                    kind = "Ops"
                fld = _ident(attr)
                c.fields.append((fld, attr, kind))
                c.attr2field[attr] = fld
                c.arg2field[v.id] = (fld, kind)
                if c.defaults.get(v.id) == "None":
                    if attr != "_b":
                        raise Untranslatable(f"{c.name}: optional argument {v.id}")
                    c.b_optional = True
            else:
                raise Untranslatable(f"{c.name}.__init__: statement {ast.unparse(st)!r} ({_where(st)})")
        for p in c.params:
            if p not in c.arg2field:
                raise Untranslatable(f"{c.name}.__init__: argument {p} is not stored")
        # guards over the constructor arguments -> over the fields
        mt = MethodTranslator(self, c, init, "array")
        orig_tr = mt.tr

        def tr(node):
            if isinstance(node, ast.Name) and node.id in c.arg2field:
                fld, kind = c.arg2field[node.id]
                if kind != "K":
                    raise Untranslatable(f"{c.name}.__init__: guard on non-numeric argument {node.id}")
                return f"t.{fld}", P_ATOM
            return orig_tr(node)
        mt.tr = tr
        for test, exc in guards_ast:
            txt = ast.unparse(test)
            if exc == "TypeError" and txt.startswith("not isinstance("):
                kinds = [k for (_, k) in c.arg2field.values()]
                if "Ops" not in kinds:
                    raise Untranslatable(f"{c.name}.__init__: type guard {txt!r}")
                continue     # typed by construction
            c.guards.append((mt.cond(test), exc, txt))

    def translate(self, c: ClassInfo, fn: ast.FunctionDef):
        mt = MethodTranslator(self, c, fn, "array")
        items = mt.run()
        out = dict(params=[_ident(p) for p in mt.params], value=render_value(items), raises=render_raises(items),
                   uses_self=mt.uses_self or (not c.is_base and not mt.static), uses_size=mt.uses_size, exc=mt.exc, scalar=None, defaults={}, deps=mt.deps)
        if out["raises"] is None:
            out["exc"] = None
        out["warns"] = render_raises(items, kind="warn")
        kinds = sorted({(it[2], it[3]) for it in items if it[0] == "warn"})
        if len(kinds) > 1:
            raise Untranslatable(f"{c.name}.{fn.name}: warnings of different category / stacklevel")
        out["warn_kind"] = kinds[0] if kinds else None
        if out["warns"] is not None and mt.uses_size:
            raise Untranslatable(f"{c.name}.{fn.name}: warning in a method that looks at the size of its argument")
        for p, d in mt.defaults.items():
            out["defaults"][_ident(p)] = lit(d.value, d) if isinstance(d, ast.Constant) else None
            if out["defaults"][_ident(p)] is None:
                raise Untranslatable(f"{c.name}.{fn.name}: default of {p}")
        if mt.has_scalar_branch:
            ms = MethodTranslator(self, c, fn, "scalar")
            sitems = ms.run()
            if render_raises(sitems) != None and render_raises(sitems) != out["raises"]:
                raise Untranslatable(f"{c.name}.{fn.name}: scalar and array branch raise differently")
            out["scalar"] = render_value(sitems)
            out["scalar_uses_self"] = ms.uses_self or (not c.is_base and not ms.static)
        return out

    # ---------------------------------------------------------------------------
    def describe(self):
        """Metadata for the harness (argument order, flags)."""
        d = {}
        for c in self.transforms:
            d[c.name] = dict(
                params=[p for p in c.params if c.arg2field[p][1] == "K"],
                flags=[p for p in c.params if c.arg2field[p][1] == "Bool"],
                wraps=[p for p in c.params if c.arg2field[p][1] == "Ops"],
                defaults=dict(c.defaults),
                b_optional=c.b_optional,
                guards=[g[2] for g in c.guards],
                methods=list(c.order),
                scalar=[m for m in c.order if c.out[m]["scalar"] is not None],
                raises={m: EXC_TAG[c.out[m]["exc"]] for m in c.order if c.out[m]["raises"] is not None},
                ends={k: (ast.unparse(v) if isinstance(v, ast.AST) else v) for k, v in c.ends.items()},
                static={m: dict(params=o["params"], exc=(EXC_TAG[o["exc"]] if o["exc"] else None)) for m, o in c.static.items()},
                warns={m: list(c.out[m]["warn_kind"]) for m in c.order if c.out[m].get("warns") is not None},
                setb=(dict(guards=[g[1] for g in c.setb["guards"]], exc=(EXC_TAG[c.setb["exc"]] if c.setb["exc"] else None))
                      if getattr(c, "setb", None) is not None else None),
            )
        return d

    # ---------------------------------------------------------------------------
    def emit_method(self, c: ClassInfo, m: str, parts: list):
        o = c.out[m]
        lname = _ident(m)
        selfb = []
        if o["uses_self"]:
            selfb = [f"(f : BaseTransform K)"] if c.is_base else [f"(t : {c.name} K)"]
        argb = []
        for p in o["params"]:
            if p in o["defaults"]:
                argb.append(f"({p} : K := {o['defaults'][p]})")
            else:
                argb.append(f"({p} : K)")
        src = f"`{c.name}.{m}`"
        parts.append(f"/-- {src}, array branch. -/")
        parts.append(f"def {lname} " + " ".join(selfb + argb) + " : K :=\n" + o["value"] + "\n")
        if o["scalar"] is not None:
            sb = selfb if o.get("scalar_uses_self") else []
            parts.append(f"/-- {src}, `isinstance(x, Number)` branch. -/")
            parts.append(f"def {lname}_scalar " + " ".join(sb + argb) + " : K :=\n" + o["scalar"] + "\n")
        if o["raises"] is not None:
            size = [f"({o['params'][0]}_size : K)"] if o["uses_size"] else []
            parts.append(f"/-- {src} raises `{o['exc']}` (element-wise condition; `_size` = number of elements of the argument). -/")
            parts.append(f"def {lname}_raises " + " ".join(selfb + size + argb) + " : Prop :=\n" + o["raises"] + "\n")
            parts.append(f"instance [DecidableLT K] [DecidableLE K] " + " ".join(selfb + size + argb)
                         + f" :\n    Decidable ({lname}_raises " + " ".join((["f" if c.is_base else "t"] if selfb else [])
                                                                           + ([f"{o['params'][0]}_size"] if size else []) + o["params"])
                         + f") := by\n  unfold {lname}_raises; exact inferInstance\n")
        if o.get("warns") is not None:
            cat, level = o["warn_kind"]
            parts.append(f"/-- {src} issues `{cat}` (`warnings.warn(…, stacklevel={level})`) under this condition (element-wise where it "
                         f"looks at the argument); the returned value does not depend on it. -/")
            parts.append(f"def {lname}_warns " + " ".join(selfb + argb) + " : Prop :=\n" + o["warns"] + "\n")
            parts.append(f"instance [DecidableLT K] [DecidableLE K] " + " ".join(selfb + argb)
                         + f" :\n    Decidable ({lname}_warns " + " ".join((["f" if c.is_base else "t"] if selfb else []) + o["params"])
                         + f") := by\n  unfold {lname}_warns; exact inferInstance\n")
            parts.append(f"/-- `stacklevel` of the warning of {src}: the frame the warning is attributed to (1 = the method itself, "
                         f"2 = its caller). -/")
            parts.append(f"def {lname}_warn_stacklevel : Nat := {level}\n")


    def end_text(self, c: ClassInfo, node):
        """One end of `_domain` / `_codomain` as an `ExtVal K`."""
        sg = _is_np_inf(node)
        if sg is not None:
            return "ExtVal.posInf" if sg > 0 else "ExtVal.negInf"
        mt = MethodTranslator(self, c, c.methods["__init__"], "array")
        orig = mt.tr

        def tr(n, c=c, orig=orig):
            if isinstance(n, ast.Name) and n.id in c.arg2field and c.arg2field[n.id][1] == "K":
                return f"t.{c.arg2field[n.id][0]}", P_ATOM
            return orig(n)
        mt.tr = tr
        return f"ExtVal.fin {mt.atom(node)}"

    def emit_intervals(self, c: ClassInfo, P: list):
        """`domainExt` / `codomainExt`: the two intervals with their infinite ends (`ExtVal K`)."""
        wraps = [p for p in c.params if c.arg2field[p][1] == "Ops"]
        for key in ("domain", "codomain"):
            if key + "_lo" in c.ends:
                lo, hi = c.ends[key + "_lo"], c.ends[key + "_hi"]
                text = f"({self.end_text(c, lo)}, {self.end_text(c, hi)})"
                bind = f"(t : {c.name} K)" if "t." in text else f"(_t : {c.name} K)"
                P.append(f"/-- `self._{key} = ({ast.unparse(lo)}, {ast.unparse(hi)})`, infinite ends included. -/")
                P.append(f"def {key}Ext {bind} : ExtVal K × ExtVal K := {text}\n")
            elif key in c.ends:
                # taken over from the wrapped transform: `transform.codomain` / `transform.domain`
                src = c.ends[key]
                ok = len(wraps) == 1 and src in (f"{wraps[0]}.domain", f"{wraps[0]}.codomain")
                if not ok:
                    raise Untranslatable(f"{c.name}.__init__: self._{key} = {src!r}")
                which = "tfm_domain" if src.endswith(".domain") else "tfm_codomain"
                P.append(f"/-- `self._{key} = {src}`: one of the two intervals of the wrapped transform. -/")
                P.append(f"def {key}Ext {{D : Type}} (tfm_domain tfm_codomain : D) : D := {which}\n")
            else:
                raise Untranslatable(f"{c.name}.__init__ does not set self._{key}")

    def emit_static(self, c: ClassInfo, m: str, P: list):
        o = c.static[m]
        lname = _ident(m)
        binds = " ".join(f"({p} : {'List K' if k == 'array' else 'K'})" for p, k in o["params"])
        names = " ".join(p for p, _ in o["params"])
        doc = f" — {o['doc'][0]}".replace("-/", "- /") if o["doc"] else ""
        P.append(f"/-- `{c.name}.{m}` (static){doc}  `none` = `IndexError`. -/")
        P.append(f"def {lname} {binds} : Option K := do\n" + "\n".join(o["lines"]) + "\n")
        if o["guards"]:
            P.append(f"/-- `{c.name}.{m}` raises `{o['exc']}` (checked before anything else). -/")
            P.append(f"def {lname}_raises {binds} : Prop :=\n  " + " ∨ ".join(o["guards"]) + "\n")
            P.append(f"instance [DecidableLT K] [DecidableLE K] {binds} :\n    Decidable ({lname}_raises {names}) := by\n"
                     f"  unfold {lname}_raises; exact inferInstance\n")

    def render(self, source="src/grid/rtransform.py") -> str:
        P = [HEADER.format(name="rtransform", source=source)]
        interp = getattr(self, "uses_interp", False)      # np.interp in the source: its vocabulary is imported only then (C04 round 6)
        P.append("import GridVerif.Model.Elem\nimport GridVerif.Model.RTransform\n" + ("import GridVerif.Model.Interp\n" if interp else ""))
        P.append("set_option linter.unusedVariables false\n")
        P.append("namespace GridVerif.Gen.RTransform\n")
        P.append("variable {K : Type} [Add K] [Sub K] [Mul K] [Div K] [Neg K] [NatCast K] [Elem K] [HasInf K]\n"
                 "  [LT K] [LE K] [BEq K]" + (" [HasInterp K]" if interp else "") + "\n")
        b = self.base
        P.append("/-- The abstract methods of `BaseTransform`: what a transform object offers. -/")
        P.append("structure BaseTransform (K : Type) where\n" + "\n".join(f"  {m} : K → K" for m in b.abstract) + "\n")
        P.append("namespace BaseTransform\n")
        for m in b.order:
            self.emit_method(b, m, P)
        P.append("end BaseTransform\n")
        for c in self.transforms:
            sig = ", ".join(p + (f"={c.defaults[p]}" if p in c.defaults else "") for p in c.params)
            P.append(f"/-- Parameters of `{c.name}({sig})`. -/")
            kinds = {"K": "K", "Bool": "Bool", "Ops": "BaseTransform K"}
            if c.fields:
                P.append(f"structure {c.name} (K : Type) where\n" + "\n".join(f"  {f} : {kinds[k]}" for f, _, k in c.fields) + "\n")
            else:
                P.append(f"structure {c.name} (K : Type)\n")
            P.append(f"namespace {c.name}\n")
            if c.guards:
                P.append("/-- The constructor accepts the parameters (negated `raise` guards):\n"
                         + "\n".join(f"  `if {g[2]}: raise {g[1]}`" for g in c.guards) + " -/")
                P.append(f"def Admissible (t : {c.name} K) : Prop :=\n  " + " ∧\n  ".join(f"¬ {g[0]}" for g in c.guards) + "\n")
            else:
                P.append("/-- The constructor has no guard. -/")
                P.append(f"def Admissible (t : {c.name} K) : Prop := True\n")
            P.append(f"instance [DecidableLT K] [DecidableLE K] (t : {c.name} K) : Decidable t.Admissible := by\n"
                     "  unfold Admissible; exact inferInstance\n")
            for key in ("domain_lo", "domain_hi", "codomain_lo", "codomain_hi"):
                if key not in c.ends:
                    continue
                node = c.ends[key]
                if _is_np_inf(node) is not None:
                    P.append(f"-- `{key}` of `{c.name}` is {'+' if _is_np_inf(node) > 0 else '-'}∞\n")
                    continue
                mt = MethodTranslator(self, c, c.methods["__init__"], "array")
                orig = mt.tr

                def tr(n, c=c, orig=orig):
                    if isinstance(n, ast.Name) and n.id in c.arg2field and c.arg2field[n.id][1] == "K":
                        return f"t.{c.arg2field[n.id][0]}", P_ATOM
                    return orig(n)
                mt.tr = tr
                text = mt.par(mt.tr(node), P_NONE)
                bind = f"(t : {c.name} K)" if "t." in text else f"(_t : {c.name} K)"
                P.append(f"/-- `{key}`: `{ast.unparse(node)}`. -/\ndef {key} {bind} : K := {text}\n")
            self.emit_intervals(c, P)
            if getattr(c, "setb", None) is not None:
                self.emit_setb(c, P)
            for m in c.order:
                self.emit_method(c, m, P)
            for m in c.static:
                self.emit_static(c, m, P)
            P.append("/-- The transform object as a record of its five methods. -/")
            P.append(f"def ops (t : {c.name} K) : BaseTransform K :=\n  {{ "
                     + ", ".join(f"{m} := {'t.' + m if c.out[m]['uses_self'] else m}" for m in PRIMARY) + " }\n")
            P.append(f"end {c.name}\n")
        P.append(self.render_dispatch())
        P.append("end GridVerif.Gen.RTransform\n")
        return "\n".join(P)

    def render_dispatch(self) -> str:
        """Name-indexed access for the driver (no formula content)."""
        L = ["/-! ### Name-indexed access (used by the driver) -/\n"]

        def build(c):
            ks = [f for f, _, k in c.fields if k == "K"]
            bs = [f for f, _, k in c.fields if k == "Bool"]
            os_ = [f for f, _, k in c.fields if k == "Ops"]
            return ks, bs, os_

        def struct(c, ks, bs):
            if not c.fields:
                return f"(⟨⟩ : {c.name} K)"
            inits = [f"{f} := {f}" for f in ks] + [f"{f} := trim" for f in bs]
            return f"({{ " + ", ".join(inits) + f" }} : {c.name} K)"
        plain = [c for c in self.transforms if not build(c)[2]]
        L.append("/-- The transform object of class `cls` with numeric parameters `ps` (constructor order)\n"
                 "and the Boolean flag `trim`. -/")
        L.append("def opsOf (cls : String) (ps : List K) (trim : Bool) : Option (BaseTransform K) :=\n  match cls, ps with")
        for c in plain:
            ks, bs, _ = build(c)
            L.append(f"  | \"{c.name}\", [{', '.join(ks)}] => some ({c.name}.ops {struct(c, ks, bs)})")
        L.append("  | _, _ => none\n")
        L.append("def admissibleOf [DecidableLT K] [DecidableLE K] (cls : String) (ps : List K) (trim : Bool) : Option Bool :=\n  match cls, ps with")
        for c in plain:
            ks, bs, _ = build(c)
            L.append(f"  | \"{c.name}\", [{', '.join(ks)}] => some (decide ({c.name}.Admissible {struct(c, ks, bs)}))")
        L.append("  | _, _ => none\n")
        L.append("/-- Scalar-branch (`isinstance(x, Number)`) definitions, where the source has one. -/")
        L.append("def scalarOf (cls meth : String) (ps : List K) (trim : Bool) (x : K) : Option K :=\n  match cls, meth, ps with")
        for c in plain:
            ks, bs, _ = build(c)
            for m in c.order:
                o = c.out[m]
                if o["scalar"] is not None and len(o["params"]) == 1:
                    recv = struct(c, ks, bs) + " " if o.get("scalar_uses_self") else ""
                    L.append(f"  | \"{c.name}\", \"{m}\", [{', '.join(ks)}] => some ({c.name}.{_ident(m)}_scalar {recv}x)")
        L.append("  | _, _, _ => none\n")
        L.append("/-- Does the method body raise on an argument with `size` elements, at the element `x`?\n"
                 "`none`: the method has no `raise`. -/")
        L.append("def raisesOf [DecidableLT K] [DecidableLE K] (cls meth : String) (ps : List K) (trim : Bool) (size x : K) :\n"
                 "    Option Bool :=\n  match cls, meth, ps with")
        for c in plain:
            ks, bs, _ = build(c)
            for m in c.order:
                o = c.out[m]
                if o["raises"] is not None and len(o["params"]) == 1:
                    args = ([struct(c, ks, bs)] if o["uses_self"] else []) + (["size"] if o["uses_size"] else []) + ["x"]
                    L.append(f"  | \"{c.name}\", \"{m}\", [{', '.join(ks)}] => some (decide ({c.name}.{_ident(m)}_raises {' '.join(args)}))")
        L.append("  | _, _, _ => none\n")
        L.append("/-- Error tag of the `raise` in a method body. -/")
        L.append("def raisesKindOf (cls meth : String) : Option String :=\n  match cls, meth with")
        for c in [self.base] + self.transforms:
            for m in c.order:
                if c.out[m]["raises"] is not None:
                    L.append(f"  | \"{c.name}\", \"{m}\" => some \"{EXC_TAG[c.out[m]['exc']]}\"")
        L.append("  | _, _ => none\n")
        for key in ("domain", "codomain"):
            L.append(f"/-- `{key}` of the class `cls` with parameters `ps` (ends as `ExtVal`). -/")
            L.append(f"def {key}Of (cls : String) (ps : List K) (trim : Bool) : Option (ExtVal K × ExtVal K) :=\n  match cls, ps with")
            for c in plain:
                ks, bs, _ = build(c)
                L.append(f"  | \"{c.name}\", [{', '.join(ks)}] => some ({c.name}.{key}Ext {struct(c, ks, bs)})")
            L.append("  | _, _ => none\n")
        L.append("/-- Static helpers by name: `array` is the array argument, `ps` the scalar arguments in order. -/")
        L.append("def staticOf (cls meth : String) (array : List K) (ps : List K) : Option (Option K) :=\n  match cls, meth, ps with")
        for c in self.transforms:
            for m, o in c.static.items():
                sc = [p for p, k in o["params"] if k == "K"]
                args = " ".join("array" if k == "array" else p for p, k in o["params"])
                L.append(f"  | \"{c.name}\", \"{m}\", [{', '.join(sc)}] => some ({c.name}.{_ident(m)} {args})")
        L.append("  | _, _, _ => none\n")
        L.append("def staticRaisesOf [DecidableLT K] [DecidableLE K] (cls meth : String) (array : List K) (ps : List K) :\n"
                 "    Option Bool :=\n  match cls, meth, ps with")
        for c in self.transforms:
            for m, o in c.static.items():
                if not o["guards"]:
                    continue
                sc = [p for p, k in o["params"] if k == "K"]
                args = " ".join("array" if k == "array" else p for p, k in o["params"])
                L.append(f"  | \"{c.name}\", \"{m}\", [{', '.join(sc)}] => some (decide ({c.name}.{_ident(m)}_raises {args}))")
        L.append("  | _, _, _ => none\n")
        L.append("def staticRaisesKindOf (cls meth : String) : Option String :=\n  match cls, meth with")
        for c in self.transforms:
            for m, o in c.static.items():
                if o["guards"]:
                    L.append(f"  | \"{c.name}\", \"{m}\" => some \"{EXC_TAG[o['exc']]}\"")
        L.append("  | _, _ => none\n")
        L.append("/-- Does the method body issue its warning at the element `x`?  `none`: the method has no `warnings.warn`. -/")
        L.append("def warnsOf [DecidableLT K] [DecidableLE K] (cls meth : String) (ps : List K) (trim : Bool) (x : K) :\n"
                 "    Option Bool :=\n  match cls, meth, ps with")
        for c in plain:
            ks, bs, _ = build(c)
            for m in c.order:
                o = c.out[m]
                if o.get("warns") is not None and len(o["params"]) == 1:
                    args = ([struct(c, ks, bs)] if o["uses_self"] else []) + ["x"]
                    L.append(f"  | \"{c.name}\", \"{m}\", [{', '.join(ks)}] => some (decide ({c.name}.{_ident(m)}_warns {' '.join(args)}))")
        L.append("  | _, _, _ => none\n")
        L.append("/-- Category and `stacklevel` of the warning in a method body. -/")
        L.append("def warnKindOf (cls meth : String) : Option (String × Nat) :=\n  match cls, meth with")
        for c in [self.base] + self.transforms:
            for m in c.order:
                if c.out[m].get("warns") is not None:
                    L.append(f"  | \"{c.name}\", \"{m}\" => some (\"{c.out[m]['warn_kind'][0]}\", {c.name}.{_ident(m)}_warn_stacklevel)")
        L.append("  | _, _ => none\n")
        L.append("/-- `set_maximum_parameter_b` of the class `cls`: the attribute `b` after the call. -/")
        L.append("def setbOf [DecidableLT K] [DecidableLE K] (cls : String) (b : Option K) (x_max : K) : Option (Option K) :=\n  match cls with")
        for c in self.transforms:
            if getattr(c, "setb", None) is not None:
                L.append(f"  | \"{c.name}\" => some ({c.name}.set_maximum_parameter_b b x_max)")
        L.append("  | _ => none\n")
        L.append("def setbRaisesOf [DecidableLT K] [DecidableLE K] (cls : String) (b : Option K) (x_max : K) : Option Bool :=\n  match cls with")
        for c in self.transforms:
            if getattr(c, "setb", None) is not None:
                L.append(f"  | \"{c.name}\" => some (decide ({c.name}.set_maximum_parameter_b_raises (K := K) b x_max))")
        L.append("  | _ => none\n")
        L.append("def setbRaisesKindOf (cls : String) : Option String :=\n  match cls with")
        for c in self.transforms:
            if getattr(c, "setb", None) is not None and c.setb["exc"]:
                L.append(f"  | \"{c.name}\" => some \"{EXC_TAG[c.setb['exc']]}\"")
        L.append("  | _ => none\n")
        # methods on a transform object
        b = self.base
        L.append("/-- A method of a transform object, by name (the five of the class, then the inherited ones). -/")
        L.append("def evalOps (f : BaseTransform K) (meth : String) (x : K) : Option K :=\n  match meth with")
        for m in b.abstract:
            L.append(f"  | \"{m}\" => some (f.{m} x)")
        for m in b.order:
            o = b.out[m]
            if o["uses_self"] and len(o["params"]) == 1:
                L.append(f"  | \"{m}\" => some (BaseTransform.{_ident(m)} f x)")
        L.append("  | _ => none\n")
        L.append("def raisesOps [DecidableLT K] [DecidableLE K] (f : BaseTransform K) (meth : String) (x : K) : Option Bool :=\n  match meth with")
        for m in b.order:
            o = b.out[m]
            if o["uses_self"] and len(o["params"]) == 1 and o["raises"] is not None and not o["uses_size"]:
                L.append(f"  | \"{m}\" => some (decide (BaseTransform.{_ident(m)}_raises f x))")
        L.append("  | _ => none\n")
        for c in self.transforms:
            ks, bs, os_ = build(c)
            if os_ and not ks and not bs and len(os_) == 1:
                L.append(f"/-- `{c.name}(f)` as a transform object. -/")
                L.append(f"def wrap{c.name} (f : BaseTransform K) : BaseTransform K := {c.name}.ops {{ {os_[0]} := f }}\n")
                rs = [m for m in c.order if c.out[m]["raises"] is not None and len(c.out[m]["params"]) == 1 and not c.out[m]["uses_size"]]
                L.append(f"def raises{c.name} [DecidableLT K] [DecidableLE K] (f : BaseTransform K) (meth : String) (x : K) : Option Bool :=\n  match meth with")
                for m in rs:
                    L.append(f"  | \"{m}\" => some (decide ({c.name}.{_ident(m)}_raises {{ {os_[0]} := f }} x))")
                L.append("  | _ => none\n")
            elif os_:
                raise Untranslatable(f"{c.name}: wrapper with extra parameters")
        return "\n".join(L)


def load(path: Path | None = None) -> Module:
    path = Path(path) if path else SRC / "rtransform.py"
    return Module(path.read_text())


def render(path: Path | None = None) -> str:
    return load(path).render()


def describe(path: Path | None = None):
    return load(path).describe()


def generate():
    return write_if_changed("RTransform.lean", render())


if __name__ == "__main__":      # scratch generation: python -m harness.translate.rtransform <src.py> <out.lean>
    import sys

    text = render(Path(sys.argv[1]) if len(sys.argv) > 1 else None)
    if len(sys.argv) > 2:
        Path(sys.argv[2]).write_text(text)
    else:
        sys.stdout.write(text)

"""Translator: decision logic of grid/angular.py -> Gen/AngularLogic.lean.

AST based.  Translated statement by statement into Lean terms in the `Except PyErr` monad over
the named Python/NumPy primitives of `Model/AngularPy.lean`:

* `AngularGrid._get_degree_and_size` — the method dispatch (`…_dispatch`), the type/range guards,
  `max`, membership test, `bisect_left`, list and dict subscripts, the returned pair (`…_body`);
* `AngularGrid.convert_angular_sizes_to_degrees` — the `np.unique` loop as a left fold;
* `AngularGrid._load_precomputed_angular_grid` — dispatch (tables and package of the data
  files), guards, consistency checks, the f-string file name; the modelled result is the
  resource handed to `np.load`: `(package, file name)`;
* the degree/size selection part of `AngularGrid.__init__` — `method.lower()`, cache dispatch,
  `if size is not None: degree = None`, the call, the cache test and the loader call; result
  `(self._degree, size, cache dict, cache key, (package, file name))`.

Round 3 (full text, generic in the number type `K`, primitives of `Model/AngularNp.lean`):

* `loadPrecomputedAngularGrid_data` — the statements of the loader after `np.load` (broadcast of a
  single weight), `loadPrecomputedAngularGridFull` — the loader against an abstract `np.load`;
* `getDegreeAndSize_warnings` — the same body as `_get_degree_and_size` with the executed
  `warnings.warn` calls (category, message, stacklevel) as the result;
* `initFull` — every statement of `__init__`: cache lookup / fill (`cache=`), `self._degree`,
  the `super().__init__` branches (`.copy()`, `weights * 4 * np.pi`), the negative-weights test,
  `self._method`, and the warning log; `initCacheDefault` — the default of `cache=`.

Accepted syntax is what these four bodies use today (see `Tr.expr` / `Tr.block`); anything else
raises `Untranslatable`, which the check treats like a proof obligation that no longer holds.
A change of an operator, a constant, an operand, the order of a returned pair, a branch
condition, a table name or an extra statement changes the Lean text, and the theorems of
`Props/C12.lean` are re-checked against it.
"""
import ast
import re

from ..common import SRC
from .util import HEADER, write_if_changed


class Untranslatable(Exception):
    pass


def _fail(node, why):
    raise Untranslatable(f"angular.py line {getattr(node, 'lineno', '?')}: {why}: {ast.unparse(node)[:140]}")


# module-level names the logic may mention -> (Lean term, type)
TABLES = {
    "LEBEDEV_DEGREES": "lebedevDegrees", "LEBEDEV_NPOINTS": "lebedevNPoints",
    "SPHERICAL_DEGREES": "sphericalDegrees", "SPHERICAL_NPOINTS": "sphericalNPoints",
    "MAX_DET_DEGREES": "maxdetDegrees", "MAX_DET_NPOINTS": "maxdetNPoints",
    "AHRENS_BEYLKIN_DEGREES": "ahrensDegrees", "AHRENS_BEYLKIN_NPOINTS": "ahrensNPoints",
}
CACHES = ["LEBEDEV_CACHE", "SPHERICAL_CACHE", "MAX_DET_CACHE", "AHRENS_BEYLKIN_CACHE"]
BUILTINS = ["bisect_left", "max", "list", "len", "isinstance", "int", "dict", "files", "np", "warnings", "super"]
WARN_CATEGORIES = ["Warning", "UserWarning", "RuntimeWarning", "DeprecationWarning", "FutureWarning", "SyntaxWarning"]
ERRORS = {"ValueError": "valueError", "TypeError": "typeError", "IndexError": "indexError", "KeyError": "keyError"}
LEAN_TYPE = {"val": "Val", "str": "String", "tbl": "Tbl", "keys": "List Nat", "ints": "List Int",
             "bool": "Bool", "cache": "String", "pair": "Val × Val", "vals": "List Val",
             "bools": "List Bool", "nat": "Nat", "file": "String × String",
             "num": "K", "arr1": "List K", "arr2": "List (List K)", "npz": "Npz K",
             "arrs": "List (List K) × List K", "caches": "Caches K", "log": "List Warning"}
NPCMP = {ast.Lt: "npLtS", ast.LtE: "npLeS", ast.Gt: "npGtS", ast.GtE: "npGeS"}
NATCMP = {ast.Eq: "{a} == {b}", ast.NotEq: "{a} != {b}", ast.Lt: "decide ({a} < {b})", ast.LtE: "decide ({a} ≤ {b})",
          ast.Gt: "decide ({a} > {b})", ast.GtE: "decide ({a} ≥ {b})"}
CMP = {ast.Lt: "pyLt", ast.Gt: "pyGt", ast.LtE: "pyLe", ast.GtE: "pyGe", ast.NotEq: "pyNe", ast.Eq: "pyEq"}
# Lean name, parameter types, result type of the translated callables
SIGS = {
    "_get_degree_and_size": ("getDegreeAndSize", {"degree": "val", "size": "val", "method": "str"}, "pair"),
    "_load_precomputed_angular_grid": ("loadPrecomputedAngularGrid", {"degree": "val", "size": "val", "method": "str"}, "file"),
    "convert_angular_sizes_to_degrees": ("convertAngularSizesToDegrees", {"sizes": "ints", "method": "str"}, "ints"),
}


def _lean_str(s: str) -> str:
    if not all(32 <= ord(c) < 127 and c not in '"\\' for c in s):
        raise Untranslatable(f"string literal {s!r} is not plain ASCII")
    return f'"{s}"'


class E:
    """A translated expression: Lean code, whether it is of type `Py T` (monadic) or `T`, and T."""

    def __init__(self, code, typ, monadic=False):
        self.code, self.typ, self.monadic = code, typ, monadic

    def m(self):
        return self.code if self.monadic else f"pure ({self.code})"


class Tr:
    def __init__(self, params, log=False, full=False):
        self.n = 0
        self.params = params  # callee name -> ordered parameter names
        self.log = log        # warnings.warn calls are carried (variable `log`) instead of skipped
        self.full = full      # the loader call means the loader against `npLoad` (arrays), not the file name
        self.silent = set()   # translated callables whose text contains no warnings.warn call

    # -- numbers (generic carrier K) ----------------------------------------------------
    def num(self, e, env) -> E:
        if isinstance(e, ast.Constant) and not isinstance(e.value, bool) and isinstance(e.value, (int, float)):
            from fractions import Fraction
            q = Fraction(e.value)
            if q < 0:
                _fail(e, "negative numeric constant")
            if q.denominator == 1:
                return E(f"(({q.numerator} : Nat) : K)", "num")
            return E(f"((({q.numerator} : Nat) : K) / (({q.denominator} : Nat) : K))", "num")
        if isinstance(e, ast.Attribute) and ast.unparse(e) == "np.pi":
            return E("(Elem.pi : K)", "num")
        a = self.expr(e, env)
        if a.typ != "num":
            _fail(e, "not a number")
        return a

    def fresh(self):
        self.n += 1
        return f"t{self.n}"

    # sequencing: evaluate the sub-expressions left to right, then build the result
    def seq(self, subs, build):
        names, binds = [], []
        for s in subs:
            if s.monadic:
                t = self.fresh()
                binds.append((s.code, t))
                names.append(t)
            else:
                names.append(s.code if all(p.isidentifier() for p in s.code.split(".")) else f"({s.code})")
        res = build(*names)
        if not binds:
            return res
        code = res.m()
        for c, t in reversed(binds):
            code = f"({c} >>= fun {t} => {code})"
        return E(code, res.typ, True)

    # -- expressions ------------------------------------------------------------------
    def expr(self, e, env) -> E:
        if isinstance(e, ast.Constant):
            if e.value is None:
                return E("Val.none", "val")
            if isinstance(e.value, bool):
                _fail(e, "boolean constant")
            if isinstance(e.value, int):
                return E(f"Val.int {e.value}" if e.value >= 0 else f"Val.int ({e.value})", "val")
            if isinstance(e.value, str):
                return E(_lean_str(e.value), "str")
            if isinstance(e.value, float):
                return self.num(e, env)
            _fail(e, "unsupported constant")
        if isinstance(e, ast.Name):
            if e.id in env:
                return E(e.id, env[e.id])
            if e.id in TABLES:
                return E(TABLES[e.id], "tbl")
            if e.id in CACHES:
                return E(_lean_str(e.id), "cache")
            _fail(e, "unknown name")
        if isinstance(e, ast.Attribute) and ast.unparse(e) == "np.pi":
            return self.num(e, env)
        if isinstance(e, ast.BinOp):
            if not isinstance(e.op, (ast.Mult, ast.Div)):
                _fail(e, "arithmetic other than * and /")
            mul = isinstance(e.op, ast.Mult)
            a = self.expr(e.left, env) if not isinstance(e.left, ast.Constant) else self.num(e.left, env)
            if a.typ == "arr1":
                b = self.num(e.right, env) if isinstance(e.right, (ast.Constant, ast.Attribute)) else self.expr(e.right, env)
                if b.typ == "num":
                    return self.seq([a, b], lambda x, y: E(f"{'npMulS' if mul else 'npDivS'} {x} {y}", "arr1"))
                if b.typ == "arr1":
                    return self.seq([a, b], lambda x, y: E(f"{'npMul' if mul else 'npDiv'} {x} {y}", "arr1", True))
            if a.typ == "num":
                b = self.num(e.right, env)
                return self.seq([a, b], lambda x, y: E(f"({x} {'*' if mul else '/'} {y})", "num"))
            _fail(e, "unsupported arithmetic")
        if isinstance(e, ast.Tuple) and len(e.elts) == 2:
            a, b = (self.expr(x, env) for x in e.elts)
            if (a.typ, b.typ) == ("arr2", "arr1"):
                return self.seq([a, b], lambda x, y: E(f"({x}, {y})", "arrs"))
            if (a.typ, b.typ) == ("val", "val"):
                return self.seq([a, b], lambda x, y: E(f"({x}, {y})", "pair"))
            if (a.typ, b.typ) == ("tbl", "tbl"):
                return E(f"({a.code}, {b.code})", "tblpair")
            if (a.typ, b.typ) == ("str", "str"):
                return self.seq([a, b], lambda x, y: E(f"({x}, {y})", "file"))
            _fail(e, "unsupported tuple")
        if isinstance(e, ast.UnaryOp) and isinstance(e.op, ast.Not):
            a = self.cond(e.operand, env)
            return E(f"pyNot ({a.m()})", "bool", True) if a.monadic else E(f"!({a.code})", "bool")
        if isinstance(e, ast.BoolOp):
            parts = [self.cond(v, env) for v in e.values]
            fn = "pyAnd" if isinstance(e.op, ast.And) else "pyOr"
            code = parts[-1].m()
            for p in reversed(parts[:-1]):
                code = f"{fn} ({p.m()}) ({code})"
            return E(code, "bool", True)
        if isinstance(e, ast.Compare):
            if len(e.ops) != 1:
                _fail(e, "chained comparison")
            op, l, r = e.ops[0], e.left, e.comparators[0]
            if isinstance(op, (ast.Is, ast.IsNot)):
                if not (isinstance(r, ast.Constant) and r.value is None):
                    _fail(e, "`is` with something other than None")
                a = self.expr(l, env)
                if a.typ != "val" or a.monadic:
                    _fail(e, "`is None` of a non-scalar")
                return E(f"pyIsNone {a.code}" if isinstance(op, ast.Is) else f"!(pyIsNone {a.code})", "bool")
            a = self.expr(l, env)
            if a.typ == "arr1" and type(op) in NPCMP:
                b = self.num(r, env)
                return self.seq([a, b], lambda x, y: E(f"{NPCMP[type(op)]} {x} {y}", "bools"))
            if a.typ == "nat" and type(op) in NATCMP:
                if not (isinstance(r, ast.Constant) and isinstance(r.value, int) and not isinstance(r.value, bool) and r.value >= 0):
                    _fail(e, "a length is only compared with a natural constant")
                return self.seq([a], lambda x: E("(" + NATCMP[type(op)].format(a=x, b=r.value) + ")", "bool"))
            if a.typ == "str" and isinstance(op, (ast.In, ast.NotIn)) and isinstance(r, (ast.List, ast.Tuple)):
                if not all(isinstance(x, ast.Constant) and isinstance(x.value, str) for x in r.elts):
                    _fail(e, "`in` a list of something other than string literals")
                lst = "[" + ", ".join(_lean_str(x.value) for x in r.elts) + "]"
                return self.seq([a], lambda x: E(f"{'' if isinstance(op, ast.In) else '!'}({lst}.contains {x})", "bool"))
            b = self.expr(r, env)
            if isinstance(op, (ast.In, ast.NotIn)) and (a.typ, b.typ) == ("val", "cache"):
                if env.get("caches") != "caches":
                    _fail(e, "cache dictionary consulted outside the full text of __init__")
                res = self.seq([a, b], lambda x, y: E(f"cacheIn caches {y} {x}", "bool", True))
                return res if isinstance(op, ast.In) else E(f"pyNot ({res.code})", "bool", True)
            if isinstance(op, (ast.In, ast.NotIn)):
                if (a.typ, b.typ) != ("val", "tbl"):
                    _fail(e, "`in` is only carried for scalar in table")
                res = self.seq([a, b], lambda x, y: E(f"pyInDict {x} {y}", "bool", True))
                return res if isinstance(op, ast.In) else E(f"pyNot ({res.code})", "bool", True)
            if (a.typ, b.typ) == ("str", "str") and isinstance(op, ast.Eq):
                return E(f"{a.code} == {b.code}", "bool")
            if (a.typ, b.typ) == ("val", "val") and type(op) in CMP:
                return self.seq([a, b], lambda x, y: E(f"{CMP[type(op)]} {x} {y}", "bool", True))
            if (a.typ, b.typ) == ("ints", "val") and isinstance(op, ast.Eq):
                return self.seq([a, b], lambda x, y: E(f"npEqScalar {x} {y}", "bools", True))
            _fail(e, "unsupported comparison")
        if isinstance(e, ast.IfExp):
            c, a, b = self.cond(e.test, env), self.expr(e.body, env), self.expr(e.orelse, env)
            if a.typ != b.typ:
                _fail(e, "branches of different kinds")
            if c.monadic:
                t = self.fresh()
                return E(f"({c.code} >>= fun {t} => if {t} then {a.m()} else {b.m()})", a.typ, True)
            return E(f"(if {c.code} then {a.m()} else {b.m()})", a.typ, True)
        if isinstance(e, ast.Subscript):
            v = self.expr(e.value, env)
            if v.typ == "pair":
                if not (isinstance(e.slice, ast.Constant) and e.slice.value in (0, 1) and not isinstance(e.slice.value, bool)):
                    _fail(e, "pair index must be the constant 0 or 1")
                return self.seq([v], lambda x: E(f"{x}.{e.slice.value + 1}", "val"))
            if v.typ == "npz":
                if not (isinstance(e.slice, ast.Constant) and e.slice.value in ("points", "weights")):
                    _fail(e, "a loaded data file is only read at 'points' and 'weights'")
                return self.seq([v], lambda x: E(f"{x}.{e.slice.value}", "arr2" if e.slice.value == "points" else "arr1"))
            i = self.expr(e.slice, env)
            if i.typ != "val":
                _fail(e, "unsupported subscript")
            if v.typ == "cache":
                if env.get("caches") != "caches":
                    _fail(e, "cache dictionary consulted outside the full text of __init__")
                return self.seq([v, i], lambda x, y: E(f"cacheGet caches {x} {y}", "arrs", True))
            if v.typ == "keys":
                return self.seq([v, i], lambda x, y: E(f"pyListGet {x} {y}", "val", True))
            if v.typ == "tbl":
                return self.seq([v, i], lambda x, y: E(f"pyDictGet {x} {y}", "val", True))
            _fail(e, "unsupported subscript")
        if isinstance(e, ast.JoinedStr):
            subs, slots = [], []
            for part in e.values:
                if isinstance(part, ast.Constant) and isinstance(part.value, str):
                    slots.append(_lean_str(part.value))
                elif isinstance(part, ast.FormattedValue) and part.conversion == -1 and part.format_spec is None:
                    a = self.expr(part.value, env)
                    if a.typ == "str" and not a.monadic:
                        slots.append(a.code)
                    elif a.typ == "val":
                        subs.append(self.seq([a], lambda x: E(f"pyFmt {x}", "str", True)))
                        slots.append(None)
                    else:
                        _fail(e, "unsupported f-string field")
                else:
                    _fail(e, "unsupported f-string part")

            def build(*names):
                it = iter(names)
                return E(" ++ ".join(s if s is not None else next(it) for s in slots), "str")
            return self.seq(subs, build)
        if isinstance(e, ast.Call):
            return self.call(e, env)
        _fail(e, "unsupported expression")

    def cond(self, e, env) -> E:
        c = self.expr(e, env)
        if c.typ == "val" and self.log and not c.monadic:
            return E(f"pyTruthy {c.code}", "bool", True)
        if c.typ != "bool":
            _fail(e, "truth value of a non-boolean expression is not carried")
        return c

    def call(self, e, env, warnings_of=False) -> E:
        f = ast.unparse(e.func)
        if f == "isinstance":
            if len(e.args) != 2 or e.keywords or ast.unparse(e.args[1]) != "int | np.integer":
                _fail(e, "isinstance with a class other than `int | np.integer`")
            a = self.expr(e.args[0], env)
            if a.typ != "val" or a.monadic:
                _fail(e, "isinstance of a non-scalar")
            return E(f"pyIsInteger {a.code}", "bool")
        if f == "list":
            a = e.args[0] if len(e.args) == 1 and not e.keywords else None
            if not (isinstance(a, ast.Call) and isinstance(a.func, ast.Attribute) and a.func.attr == "keys" and not a.args and not a.keywords):
                _fail(e, "list(...) of something other than d.keys()")
            d = self.expr(a.func.value, env)
            if d.typ != "tbl":
                _fail(e, "keys() of a non-table")
            return self.seq([d], lambda x: E(f"pyKeys {x}", "keys"))
        if f in ("max", "len") and len(e.args) == 1 and not e.keywords:
            a = self.expr(e.args[0], env)
            if f == "max" and a.typ == "keys":
                return self.seq([a], lambda x: E(f"pyMax {x}", "val", True))
            if f == "len" and a.typ in ("ints", "arr1", "arr2"):
                return self.seq([a], lambda x: E(f"{x}.length", "nat"))
            _fail(e, f"{f} of an unsupported argument")
        if f == "bisect_left" and len(e.args) == 2 and not e.keywords:
            a, b = self.expr(e.args[0], env), self.expr(e.args[1], env)
            if (a.typ, b.typ) != ("keys", "val"):
                _fail(e, "bisect_left arguments")
            return self.seq([a, b], lambda x, y: E(f"pyBisectLeft {x} {y}", "val", True))
        if f == "np.zeros":
            if len(e.args) != 1 or [(k.arg, ast.unparse(k.value)) for k in e.keywords] != [("dtype", "int")]:
                _fail(e, "np.zeros must be np.zeros(n, dtype=int)")
            a = self.expr(e.args[0], env)
            if a.typ != "nat":
                _fail(e, "np.zeros length")
            return self.seq([a], lambda x: E(f"npZerosInt {x}", "ints"))
        if f == "np.ones" and len(e.args) == 1 and not e.keywords:
            a = self.expr(e.args[0], env)
            if a.typ != "nat":
                _fail(e, "np.ones length")
            return self.seq([a], lambda x: E(f"npOnes (K := K) {x}", "arr1"))
        if f == "np.any" and len(e.args) == 1 and not e.keywords:
            a = self.expr(e.args[0], env)
            if a.typ != "bools":
                _fail(e, "np.any of something other than a mask")
            return self.seq([a], lambda x: E(f"npAny {x}", "bool"))
        if isinstance(e.func, ast.Attribute) and e.func.attr == "copy" and not e.args and not e.keywords:
            a = self.expr(e.func.value, env)
            if a.typ not in ("arr1", "arr2"):
                _fail(e, "copy() of a non-array")
            return self.seq([a], lambda x: E(f"npCopy {x}", a.typ))
        if f == "np.unique" and len(e.args) == 1 and not e.keywords:
            a = self.expr(e.args[0], env)
            if a.typ != "ints":
                _fail(e, "np.unique argument")
            return self.seq([a], lambda x: E(f"npUnique {x}", "vals"))
        if isinstance(e.func, ast.Attribute) and e.func.attr == "lower" and not e.args and not e.keywords:
            a = self.expr(e.func.value, env)
            if a.typ != "str":
                _fail(e, "lower() of a non-string")
            return self.seq([a], lambda x: E(f"pyLower {x}", "str"))
        if isinstance(e.func, ast.Attribute) and e.func.attr in SIGS and ast.unparse(e.func.value) in ("self", "AngularGrid"):
            lname, ptypes, rtyp = SIGS[e.func.attr]
            if self.full and e.func.attr == "_load_precomputed_angular_grid":
                lname, rtyp = "loadPrecomputedAngularGridFull npLoad", "arrs"
            if warnings_of:
                lname, rtyp = lname + "_warnings", "log"
            order = self.params[e.func.attr]
            given = dict(zip(order, e.args))
            for k in e.keywords:
                if k.arg is None or k.arg not in order or k.arg in given:
                    _fail(e, "bad keyword argument")
                given[k.arg] = k.value
            if set(given) != set(order):
                _fail(e, "call does not give every parameter")
            # Python evaluates positional then keyword arguments in source order
            src_order = list(e.args) + [k.value for k in e.keywords]
            subs = {id(a): self.expr(a, env) for a in src_order}
            for p in order:
                if subs[id(given[p])].typ != ptypes[p]:
                    _fail(e, f"argument {p} of the wrong kind")
            pos = {id(a): i for i, a in enumerate(src_order)}
            return self.seq([subs[id(a)] for a in src_order],
                            lambda *xs: E(f"{lname} " + " ".join(xs[pos[id(given[p])]] for p in order), rtyp, True))
        _fail(e, "unsupported call")

    # -- statements -------------------------------------------------------------------
    @staticmethod
    def is_warn(s):
        return isinstance(s, ast.Expr) and isinstance(s.value, ast.Call) and ast.unparse(s.value.func) == "warnings.warn"

    @staticmethod
    def is_super_init(s):
        return (isinstance(s, ast.Expr) and isinstance(s.value, ast.Call) and ast.unparse(s.value.func) == "super().__init__")

    @staticmethod
    def self_attr(t):
        """`self.x` as an assignment target -> the local name `self_x` it is carried as."""
        if isinstance(t, ast.Attribute) and isinstance(t.value, ast.Name) and t.value.id == "self" and t.attr.isidentifier():
            return "self_" + t.attr
        return None

    @staticmethod
    def warn_record(s):
        """`warnings.warn(<string literal>[, <category>][, stacklevel=<n>])` -> Lean `Warning` literal."""
        c = s.value
        kw = {k.arg: k.value for k in c.keywords}
        if None in kw or set(kw) - {"category", "stacklevel"} or not 1 <= len(c.args) <= 2 or (len(c.args) == 2 and "category" in kw):
            _fail(s, "warnings.warn call of an unexpected shape")
        msg = c.args[0]
        if not (isinstance(msg, ast.Constant) and isinstance(msg.value, str)):
            _fail(s, "warning message is not a string literal")
        cat = c.args[1] if len(c.args) == 2 else kw.get("category")
        if cat is None:
            cat = "UserWarning"
        elif isinstance(cat, ast.Name) and cat.id in WARN_CATEGORIES:
            cat = cat.id
        else:
            _fail(s, "warning category")
        lvl = kw.get("stacklevel", ast.Constant(value=1))
        if not (isinstance(lvl, ast.Constant) and isinstance(lvl.value, int) and not isinstance(lvl.value, bool) and lvl.value >= 0):
            _fail(s, "stacklevel is not a natural constant")
        return f"⟨{_lean_str(cat)}, {_lean_str(msg.value)}, {lvl.value}, 0⟩"

    @staticmethod
    def is_doc(s):
        return isinstance(s, ast.Expr) and isinstance(s.value, ast.Constant) and isinstance(s.value.value, str)

    def assigned(self, stmts, env=None):
        env = env or {}
        out = []
        for s in stmts:
            if isinstance(s, ast.Assign):
                for t in s.targets:
                    for n in (t.elts if isinstance(t, ast.Tuple) else [t]):
                        n = n.value if isinstance(n, ast.Subscript) else n
                        name = self.self_attr(n) or (n.id if isinstance(n, ast.Name) else None)
                        if name is None:
                            _fail(s, "assignment target")
                        if isinstance(t, ast.Subscript) and isinstance(n, ast.Name) and env.get(n.id) == "cache":
                            name = "caches"
                        if name not in out:
                            out.append(name)
                if self.log and isinstance(s.value, ast.Call) and isinstance(s.value.func, ast.Attribute) \
                        and s.value.func.attr == "_get_degree_and_size" and "log" not in out:
                    out.append("log")
            elif self.log and self.is_warn(s):
                if "log" not in out:
                    out.append("log")
            elif self.is_super_init(s):
                for name in ("self_points", "self_weights"):
                    if name not in out:
                        out.append(name)
            elif isinstance(s, ast.If):
                for n in self.assigned(s.body, env) + self.assigned(s.orelse, env):
                    if n not in out:
                        out.append(n)
            elif isinstance(s, ast.For):
                _fail(s, "nested loop")
        return out

    @staticmethod
    def terminates(stmts):
        if not stmts:
            return False
        s = stmts[-1]
        if isinstance(s, (ast.Return, ast.Raise)):
            return True
        if isinstance(s, ast.If):
            return Tr.terminates(s.body) and Tr.terminates(s.orelse)
        return False

    def block(self, stmts, env, final, ind):
        """Lean term of type `Py R` for the statement list; `final(env)` is used when control
        falls off the end."""
        pad = "  " * ind
        if not stmts:
            return pad + final(env)
        s, rest = stmts[0], stmts[1:]
        if self.is_doc(s) or (self.is_warn(s) and not self.log):
            return self.block(rest, env, final, ind)
        if self.is_warn(s):
            if env.get("log") != "log":
                _fail(s, "no warning log in scope")
            return f"{pad}let log := log ++ [{self.warn_record(s)}]\n" + self.block(rest, env, final, ind)
        if self.is_super_init(s):
            c = s.value
            if len(c.args) != 2 or c.keywords:
                _fail(s, "super().__init__ is not called with (points, weights)")
            a, b = self.expr(c.args[0], env), self.expr(c.args[1], env)
            if (a.typ, b.typ) != ("arr2", "arr1"):
                _fail(s, "super().__init__ arguments")
            r = self.seq([a, b], lambda x, y: E(f"gridInit {x} {y}", "arrs", True))
            return (f"{pad}{r.code} >>= fun (self_points, self_weights) =>\n"
                    + self.block(rest, {**env, "self_points": "arr2", "self_weights": "arr1"}, final, ind))
        if isinstance(s, ast.Return):
            if rest:
                _fail(rest[0], "statement after return")
            if s.value is None:
                _fail(s, "bare return")
            if self.log:     # the value is still computed (it may raise); the result is the log
                return pad + f"{self.expr(s.value, env).m()} >>= fun _ =>\n{pad}pure log"
            return pad + self.expr(s.value, env).m()
        if isinstance(s, ast.Raise):
            if rest:
                _fail(rest[0], "statement after raise")
            x = s.exc
            if not (isinstance(x, ast.Call) and isinstance(x.func, ast.Name) and x.func.id in ERRORS) or s.cause is not None:
                _fail(s, "unsupported raise")
            return pad + f"throw PyErr.{ERRORS[x.func.id]}"
        if isinstance(s, ast.Assign):
            if len(s.targets) != 1:
                _fail(s, "multiple targets")
            t = s.targets[0]
            if isinstance(t, ast.Subscript) and isinstance(t.value, ast.Name) and env.get(t.value.id) == "cache":
                # cache_dict[key] = points, weights
                if env.get("caches") != "caches":
                    _fail(s, "cache dictionary written outside the full text of __init__")
                c, k, v = self.expr(t.value, env), self.expr(t.slice, env), self.expr(s.value, env)
                if (k.typ, v.typ) != ("val", "arrs"):
                    _fail(s, "cache entry of unexpected kinds")
                r = self.seq([v, c, k], lambda x, y, z: E(f"cacheSet caches {y} {z} {x}", "caches", True))
                return f"{pad}{r.code} >>= fun caches =>\n" + self.block(rest, env, final, ind)
            pre = ""
            if self.log and isinstance(s.value, ast.Call) and isinstance(s.value.func, ast.Attribute) and s.value.func.attr in SIGS:
                # warnings raised inside the callee: the same call text against the callee's warning log
                if s.value.func.attr == "_get_degree_and_size":
                    if env.get("log") != "log":
                        _fail(s, "no warning log in scope")
                    w = self.call(s.value, env, warnings_of=True)
                    pre = f"{pad}{w.code} >>= fun l_ =>\n{pad}let log := log ++ warnInner l_\n"
                elif s.value.func.attr not in self.silent:
                    _fail(s, "callee may warn and its warnings are not carried")
            if isinstance(t, ast.Subscript):
                # A[np.where(M)] = V   (A an integer array)
                ok = (isinstance(t.value, ast.Name) and env.get(t.value.id) == "ints" and isinstance(t.slice, ast.Call)
                      and ast.unparse(t.slice.func) == "np.where" and len(t.slice.args) == 1 and not t.slice.keywords)
                if not ok:
                    _fail(s, "subscript assignment other than A[np.where(mask)] = v")
                mask, v = self.expr(t.slice.args[0], env), self.expr(s.value, env)
                if mask.typ != "bools" or v.typ != "val":
                    _fail(s, "np.where assignment operands")
                r = self.seq([mask, v], lambda x, y: E(f"npAssignWhere {t.value.id} {x} {y}", "ints", True))
                return f"{pad}{r.code} >>= fun {t.value.id} =>\n" + self.block(rest, env, final, ind)
            v = self.expr(s.value, env)
            if isinstance(t, ast.Tuple):
                names = [n.id if isinstance(n, ast.Name) else _fail(s, "target") for n in t.elts]
                subs = {"pair": ("val", "val"), "tblpair": ("tbl", "tbl"), "arrs": ("arr2", "arr1")}.get(v.typ)
                if len(names) != 2 or subs is None:
                    _fail(s, "tuple assignment of a non-pair")
                env2 = {**env, names[0]: subs[0], names[1]: subs[1]}
                if v.monadic:
                    return pre + f"{pad}{v.code} >>= fun ({names[0]}, {names[1]}) =>\n" + self.block(rest, env2, final, ind)
                return pre + f"{pad}let ({names[0]}, {names[1]}) := {v.code}\n" + self.block(rest, env2, final, ind)
            name = self.self_attr(t) or (t.id if isinstance(t, ast.Name) else None)
            if name is None:
                _fail(s, "assignment target")
            env2 = {**env, name: v.typ}
            if v.monadic:
                return pre + f"{pad}{v.code} >>= fun {name} =>\n" + self.block(rest, env2, final, ind)
            return pre + f"{pad}let {name} := {v.code}\n" + self.block(rest, env2, final, ind)
        if isinstance(s, ast.If):
            body = [x for x in s.body if not self.is_warn(x)]
            if not self.log and not body and not s.orelse:
                # warnings only: no effect on the result; the test must not be able to raise
                for n in ast.walk(s.test):
                    if not isinstance(n, (ast.BoolOp, ast.And, ast.Or, ast.Name, ast.Load)):
                        _fail(s, "test of a warnings-only `if` is not a plain and/or of names")
                return self.block(rest, env, final, ind)
            c = self.cond(s.test, env)
            bt, ot = self.terminates(s.body), self.terminates(s.orelse)
            if bt or ot:
                # at most one branch continues with the rest
                a = self.block(s.body if bt else s.body + rest, env, final, ind + 1)
                b = self.block(s.orelse if ot else s.orelse + rest, env, final, ind + 1)
                if not bt and not ot:
                    raise AssertionError
                head = f"{pad}if {c.code} then\n" if not c.monadic else f"{pad}{c.code} >>= fun c_ => if c_ then\n"
                if bt and ot and rest:
                    _fail(rest[0], "unreachable statement")
                return head + a + f"\n{pad}else\n" + b
            if not rest:
                a = self.block(s.body, env, final, ind + 1)
                b = self.block(s.orelse, env, final, ind + 1)
                head = f"{pad}if {c.code} then\n" if not c.monadic else f"{pad}{c.code} >>= fun c_ => if c_ then\n"
                return head + a + f"\n{pad}else\n" + b
            # both branches fall through: they yield the variables they assign
            vs = self.assigned([s], env)
            typs = self.yield_types(s, env)
            tup = vs[0] if len(vs) == 1 else "(" + ", ".join(vs) + ")"
            fin = lambda env_: f"pure {tup}" if all(env_.get(v) == typs.get(v) for v in vs) else _fail(s, "a branch leaves a variable unassigned")  # noqa: E731
            a = self.block(s.body, env, fin, ind + 1)
            b = self.block(s.orelse, env, fin, ind + 1)
            head = f"{pad}(if {c.code} then\n" if not c.monadic else f"{pad}({c.code} >>= fun c_ => if c_ then\n"
            env2 = {**env, **typs}
            return head + a + f"\n{pad}else\n" + b + f") >>= fun {tup} =>\n" + self.block(rest, env2, final, ind)
        if isinstance(s, ast.For):
            if s.orelse or not isinstance(s.target, ast.Name):
                _fail(s, "unsupported loop")
            it = self.expr(s.iter, env)
            if it.typ != "vals" or it.monadic:
                _fail(s, "loop over something other than np.unique(integer array)")
            vs = self.assigned(s.body, env)
            state = [v for v in vs if v in env]
            if len(state) != 1:
                _fail(s, "loop must update exactly one variable defined before it")
            st = state[0]
            inner = self.block(s.body, {**env, s.target.id: "val"}, lambda env_: f"pure {st}", ind + 2)
            return (f"{pad}List.foldlM (fun {st} {s.target.id} =>\n{inner}) {st} ({it.code}) >>= fun {st} =>\n"
                    + self.block(rest, env, final, ind))
        _fail(s, "unsupported statement")

    def yield_types(self, s, env):
        """Types of the variables assigned by a fall-through `if` (every branch must agree)."""
        out = {}

        def put(x, n, typ):
            if out.setdefault(n, typ) != typ:
                _fail(x, "variable assigned with different kinds")

        def walk(stmts, env_):
            env_ = dict(env_)
            for x in stmts:
                if isinstance(x, ast.Assign) and len(x.targets) == 1:
                    t = x.targets[0]
                    if isinstance(t, ast.Subscript):
                        if isinstance(t.value, ast.Name) and env_.get(t.value.id) == "cache":
                            put(x, "caches", "caches")
                        continue
                    v = self.expr(x.value, env_)
                    if isinstance(t, ast.Tuple):
                        names = [n.id for n in t.elts]
                        subs = {"pair": ("val", "val"), "tblpair": ("tbl", "tbl"), "arrs": ("arr2", "arr1")}.get(v.typ, (v.typ, v.typ))
                    else:
                        nm = self.self_attr(t) or (t.id if isinstance(t, ast.Name) else None)
                        names, subs = ([nm], (v.typ,)) if nm else ([], ())
                    for n, sub in zip(names, subs):
                        env_[n] = sub
                        put(x, n, sub)
                    if self.log and isinstance(x.value, ast.Call) and isinstance(x.value.func, ast.Attribute) \
                            and x.value.func.attr == "_get_degree_and_size":
                        put(x, "log", "log")
                elif self.log and self.is_warn(x):
                    put(x, "log", "log")
                elif self.is_super_init(x):
                    env_["self_points"], env_["self_weights"] = "arr2", "arr1"
                    put(x, "self_points", "arr2")
                    put(x, "self_weights", "arr1")
                elif isinstance(x, ast.If):
                    walk(x.body, env_)
                    walk(x.orelse, env_)
        n0 = self.n
        walk([s], env)
        self.n = n0
        return out


def _method(cls, name):
    fs = [n for n in cls.body if isinstance(n, ast.FunctionDef) and n.name == name]
    if len(fs) != 1:
        raise Untranslatable(f"AngularGrid.{name}: expected exactly one definition")
    return fs[0]


def _check_module(tree):
    """The names the logic relies on mean what `Model/AngularPy.lean` says."""
    imp = [n for n in tree.body if isinstance(n, ast.ImportFrom) and n.module == "bisect"]
    if len(imp) != 1 or [(a.name, a.asname) for a in imp[0].names] != [("bisect_left", None)]:
        raise Untranslatable("angular.py: `from bisect import bisect_left` not found as such")
    for n in tree.body:
        names = []
        if isinstance(n, (ast.FunctionDef, ast.ClassDef)):
            names = [n.name]
        elif isinstance(n, ast.Assign):
            names = [x.id for t in n.targets for x in ast.walk(t) if isinstance(x, ast.Name)]
        elif isinstance(n, (ast.Import, ast.ImportFrom)) and not (isinstance(n, ast.ImportFrom) and n.module == "bisect"):
            names = [(a.asname or a.name).split(".")[0] for a in n.names]
            for a in n.names:
                if (a.asname or a.name) == "np" and a.name != "numpy":
                    raise Untranslatable("angular.py: `np` is not numpy")
                if (a.asname or a.name) == "files" and not (isinstance(n, ast.ImportFrom) and n.module == "importlib.resources"):
                    raise Untranslatable("angular.py: `files` is not importlib.resources.files")
            names = [x for x in names if x not in ("np", "files", "warnings")]
        for x in names:
            if x in BUILTINS:
                raise Untranslatable(f"angular.py line {n.lineno}: module level rebinds `{x}`")
    caches = {}
    for n in tree.body:
        if isinstance(n, ast.Assign) and len(n.targets) == 1 and isinstance(n.targets[0], ast.Name) and n.targets[0].id in CACHES:
            if not (isinstance(n.value, ast.Dict) and not n.value.keys):
                raise Untranslatable(f"angular.py line {n.lineno}: cache {n.targets[0].id} is not created as an empty dict")
            caches[n.targets[0].id] = True
    if sorted(caches) != sorted(CACHES):
        raise Untranslatable("angular.py: the four cache dictionaries are not all defined at module level")


def _static(fn):
    # exactly `@staticmethod`: any other decorator (lru_cache, a memoising wrapper, …) changes what a call means
    return [ast.unparse(d) for d in fn.decorator_list] == ["staticmethod"]


def _no_local_rebinding(fn):
    for n in ast.walk(fn):
        if isinstance(n, ast.Name) and isinstance(n.ctx, (ast.Store, ast.Del)) and (n.id in BUILTINS or n.id in TABLES or n.id in CACHES):
            _fail(n, f"local rebinding of `{n.id}`")
        if isinstance(n, (ast.Global, ast.Nonlocal, ast.Import, ast.ImportFrom, ast.FunctionDef, ast.Lambda, ast.ClassDef)) and n is not fn:
            _fail(n, "unsupported construct inside the method")


def _split_dispatch(tr, fn, env):
    """First statement (after the docstring) = if/elif chain on `method` that only assigns from
    module constants: emitted as `<f>_dispatch`; the remainder as `<f>_body`."""
    stmts = [s for s in fn.body if not tr.is_doc(s)]
    d = stmts[0]
    if not isinstance(d, ast.If) or tr.terminates(d.body):
        _fail(d, "expected the method dispatch first")
    vs = tr.assigned([d], env)
    typs = tr.yield_types(d, env)
    tup = vs[0] if len(vs) == 1 else "(" + ", ".join(vs) + ")"
    def fin(env_):
        if not all(env_.get(v) == typs[v] for v in vs):
            _fail(d, "a branch of the dispatch leaves a variable unassigned")
        return f"pure {tup}"
    dispatch_term = tr.block([d], env, fin, 1)
    dtype = " × ".join(LEAN_TYPE[typs[v]] for v in vs)
    return stmts[1:], vs, typs, tup, dispatch_term, dtype


def _listing(packages, src_dir):
    """`*.npz` names of every package the loader's dispatch mentions (`grid.x.y` -> <src>/x/y)."""
    out = []
    for pkg in packages:
        parts = pkg.split(".")
        if parts[0] != "grid" or not all(p.isidentifier() for p in parts):
            raise Untranslatable(f"data package {pkg!r} is not inside the grid package")
        d = src_dir.joinpath(*parts[1:])
        if not d.is_dir():
            raise Untranslatable(f"data package {pkg!r}: directory {d} does not exist")
        entries = []
        for f in sorted(d.glob("*.npz")):
            mm = re.fullmatch(r"([A-Za-z_]+)_(0|[1-9][0-9]*)_(0|[1-9][0-9]*)\.npz", f.name)
            if not mm:
                raise Untranslatable(f"data package {pkg!r}: unexpected file name {f.name!r}")
            entries.append((f.name, mm.group(1), int(mm.group(2)), int(mm.group(3))))
        out.append((pkg, entries))
    return out


def _wrap(items, ind="    "):
    lines, cur = [], ind
    for it in items:
        if len(cur) + len(it) > 98:
            lines.append(cur.rstrip())
            cur = ind
        cur += it + ", "
    lines.append(cur.rstrip().rstrip(","))
    return "\n".join(lines)


def render(source: str, src_dir=None) -> str:
    tree = ast.parse(source)
    _check_module(tree)
    clss = [n for n in tree.body if isinstance(n, ast.ClassDef) and n.name == "AngularGrid"]
    if len(clss) != 1:
        raise Untranslatable("angular.py: class AngularGrid not found exactly once")
    cls = clss[0]
    params = {}
    for name, (_, ptypes, _) in SIGS.items():
        fn = _method(cls, name)
        if not _static(fn):
            raise Untranslatable(f"AngularGrid.{name}: decorators {[ast.unparse(d) for d in fn.decorator_list]} are not exactly [staticmethod]")
        a = fn.args
        if a.vararg or a.kwarg or a.kwonlyargs or a.posonlyargs or a.defaults:
            raise Untranslatable(f"AngularGrid.{name}: unsupported signature")
        params[name] = [x.arg for x in a.args]
        if set(params[name]) != set(ptypes):
            raise Untranslatable(f"AngularGrid.{name}: parameters {params[name]} are not {sorted(ptypes)}")
        _no_local_rebinding(fn)
    out = []

    def decl(order, ptypes):
        return " ".join(f"({p} : {LEAN_TYPE[ptypes[p]]})" for p in order)

    # ---- _get_degree_and_size and _load_precomputed_angular_grid: dispatch + body ----------
    for name in ("_get_degree_and_size", "_load_precomputed_angular_grid"):
        lname, ptypes, rtyp = SIGS[name]
        fn = _method(cls, name)
        tr = Tr(params)
        env = dict(ptypes)
        rest, vs, typs, tup, dterm, dtype = _split_dispatch(tr, fn, env)
        if name == "_load_precomputed_angular_grid":
            # … ; data = np.load(files(<package>).joinpath(<file name>)); the remaining statements
            # only repackage `data` (weights broadcast) and are outside this model
            k = next((i for i, s in enumerate(rest) if isinstance(s, ast.Assign) and isinstance(s.value, ast.Call)
                      and ast.unparse(s.value.func) == "np.load"), None)
            if k is None:
                raise Untranslatable("_load_precomputed_angular_grid: np.load statement not found")
            ld = rest[k]
            arg = ld.value.args[0] if len(ld.value.args) == 1 and not ld.value.keywords else None
            ok = (isinstance(arg, ast.Call) and isinstance(arg.func, ast.Attribute) and arg.func.attr == "joinpath"
                  and len(arg.args) == 1 and not arg.keywords and isinstance(arg.func.value, ast.Call)
                  and ast.unparse(arg.func.value.func) == "files" and len(arg.func.value.args) == 1
                  and len(ld.targets) == 1 and isinstance(ld.targets[0], ast.Name))
            if not ok:
                _fail(ld, "np.load argument is not files(<package>).joinpath(<name>)")
            dataname = ld.targets[0].id
            # the statements after np.load: translated as a function of the loaded arrays (generic in K)
            trd = Tr(params)
            tail = trd.block(rest[k + 1:], {dataname: "npz"}, lambda env_: _fail(fn, "control falls off the end"), 1)
            loader_tail = (dataname, tail)
            pkg_e, file_e = arg.func.value.args[0], arg.args[0]
            body_stmts = rest[:k] + [ast.Return(value=ast.Tuple(elts=[pkg_e, file_e], ctx=ast.Load()))]

        else:
            body_stmts = rest
        body = tr.block(body_stmts, {**env, **typs}, lambda env_: _fail(fn, "control falls off the end"), 1)
        order = params[name]
        if name == "_get_degree_and_size":
            # the same body, result = the warnings.warn calls that were executed
            trw = Tr(params, log=True)
            wbody = trw.block(rest, {**env, **typs, "log": "log"}, lambda env_: _fail(fn, "control falls off the end"), 1)
            gds_warn = (vs, typs, tup, wbody)
        out.append(f"/-- `AngularGrid.{name}`: the method dispatch (first `if`/`elif` chain). -/")
        out.append(f"def {lname}_dispatch (method : String) : Py ({dtype}) :=\n{dterm}\n")
        out.append(f"/-- `AngularGrid.{name}`: everything after the dispatch. -/")
        vdecl = " ".join(f"({v} : {LEAN_TYPE[typs[v]]})" for v in vs)
        out.append(f"def {lname}_body {vdecl} {decl(order, ptypes)} : Py ({LEAN_TYPE[rtyp]}) :=\n{body}\n")
        out.append(f"/-- `AngularGrid.{name}`. -/")
        out.append(f"def {lname} {decl(order, ptypes)} : Py ({LEAN_TYPE[rtyp]}) :=\n"
                   f"  {lname}_dispatch method >>= fun {tup} =>\n  {lname}_body {' '.join(vs)} {' '.join(order)}\n")

    # ---- convert_angular_sizes_to_degrees -------------------------------------------------------
    name = "convert_angular_sizes_to_degrees"
    lname, ptypes, rtyp = SIGS[name]
    fn = _method(cls, name)
    tr = Tr(params)
    body = tr.block(fn.body, dict(ptypes), lambda env_: _fail(fn, "control falls off the end"), 1)
    out.append(f"/-- `AngularGrid.{name}`. -/")
    out.append(f"def {lname} {decl(params[name], ptypes)} : Py ({LEAN_TYPE[rtyp]}) :=\n{body}\n")

    # ---- __init__: selection of degree, size, cache entry and data file ---------------------------
    fn = _method(cls, "__init__")
    if fn.decorator_list:
        raise Untranslatable("AngularGrid.__init__ is decorated")
    _no_local_rebinding(fn)
    a = fn.args
    names = [x.arg for x in a.args] + [x.arg for x in a.kwonlyargs]
    if names != ["self", "degree", "size", "cache", "method"] or a.vararg or a.kwarg:
        raise Untranslatable(f"AngularGrid.__init__: parameters {names}")
    defaults = dict(zip([x.arg for x in a.args][-len(a.defaults):], a.defaults)) if a.defaults else {}
    defaults.update({k.arg: d for k, d in zip(a.kwonlyargs, a.kw_defaults) if d is not None})
    if set(defaults) != {"degree", "size", "cache", "method"}:
        raise Untranslatable("AngularGrid.__init__: defaults")
    tr = Tr(params)
    stmts = [s for s in fn.body if not tr.is_doc(s)]

    def is_cache_if(s):
        return (isinstance(s, ast.If) and isinstance(s.test, ast.Compare) and len(s.test.ops) == 1
                and isinstance(s.test.ops[0], ast.NotIn) and isinstance(s.test.comparators[0], ast.Name)
                and s.test.comparators[0].id == "cache_dict")
    ks = [i for i, s in enumerate(stmts) if is_cache_if(s)]
    if len(ks) != 1:
        raise Untranslatable("AngularGrid.__init__: the `if <key> not in cache_dict` block was not found exactly once")
    k = ks[0]
    cif = stmts[k]
    key = cif.test.left
    # body: points, weights = self._load_precomputed_angular_grid(...); [if cache: cache_dict[key] = points, weights]
    # else: points, weights = cache_dict[key]
    b0 = cif.body[0] if cif.body else None
    ok = (isinstance(key, ast.Name) and isinstance(b0, ast.Assign) and ast.unparse(b0.targets[0]) == "(points, weights)"
          and isinstance(b0.value, ast.Call) and ast.unparse(b0.value.func) == "self._load_precomputed_angular_grid"
          and len(cif.orelse) == 1 and ast.unparse(cif.orelse[0]) == f"points, weights = cache_dict[{key.id}]")
    if ok and len(cif.body) == 2:
        st = cif.body[1]
        ok = (isinstance(st, ast.If) and ast.unparse(st.test) == "cache" and not st.orelse and len(st.body) == 1
              and ast.unparse(st.body[0]) in (f"cache_dict[{key.id}] = (points, weights)", f"cache_dict[{key.id}] = points, weights"))
    elif ok:
        ok = len(cif.body) == 1
    if not ok:
        _fail(cif, "cache block has an unexpected shape")
    # after the block: self._degree = <expr>; nothing may rebind a local name or call the logic again
    degs = []
    for s in stmts[k + 1:]:
        for n in ast.walk(s):
            if isinstance(n, ast.Name) and isinstance(n.ctx, ast.Store):
                _fail(s, "local variable rebound after the selection part")
            if isinstance(n, ast.Attribute) and n.attr in SIGS:
                _fail(s, "the decision logic is called again after the selection part")
        if isinstance(s, ast.Assign) and ast.unparse(s.targets[0]) == "self._degree":
            degs.append(s.value)
    if len(degs) != 1:
        raise Untranslatable("AngularGrid.__init__: `self._degree = …` not found exactly once")
    props = {p.name: p for p in cls.body if isinstance(p, ast.FunctionDef) and any(ast.unparse(d) == "property" for d in p.decorator_list)}
    dp = props.get("degree")
    if dp is None or [ast.unparse(s) for s in dp.body if not tr.is_doc(s)] != ["return self._degree"]:
        raise Untranslatable("AngularGrid.degree is not `return self._degree`")

    def final(env_):
        load = tr.expr(b0.value, env_)
        kk, dd = tr.expr(key, env_), tr.expr(degs[0], env_)
        sz, cd = tr.expr(ast.Name(id="size", ctx=ast.Load()), env_), tr.expr(ast.Name(id="cache_dict", ctx=ast.Load()), env_)
        if (kk.typ, dd.typ, sz.typ, cd.typ, load.typ) != ("val", "val", "val", "cache", "file"):
            _fail(cif, "selection result of unexpected kinds")
        return tr.seq([load], lambda f: E(f"({dd.code}, {sz.code}, {cd.code}, {kk.code}, {f})", "sel")).m()
    env = {"degree": "val", "size": "val", "method": "str"}
    body = tr.block(stmts[:k], env, final, 1)
    out.append("/-- `AngularGrid.__init__`, selection part: `(self._degree, size, cache dictionary, cache key,\n"
               "(package, file name) handed to np.load on a cache miss)`. The grid's `size` is the number of points\n"
               "in that file. -/")
    out.append("def initSelect (degree : Val) (size : Val) (method : String) : Py (Val × Val × String × Val × String × String) :=\n" + body + "\n")
    dflt = {k_: tr.expr(v, {}) for k_, v in defaults.items() if k_ != "cache"}
    if (dflt["degree"].typ, dflt["size"].typ, dflt["method"].typ) != ("val", "val", "str"):
        raise Untranslatable("AngularGrid.__init__: default values of unexpected kinds")
    out.append("/-- `AngularGrid()` with every argument left at its default. -/")
    out.append(f"def initDefault : Py (Val × Val × String × Val × String × String) :=\n"
               f"  initSelect ({dflt['degree'].code}) ({dflt['size'].code}) {dflt['method'].code}\n")

    # ---- round 3: the full text (warning logs, arrays generic in K, cache state) -------------------
    KVARS = ("variable {K : Type} [Mul K] [Div K] [NatCast K] [Elem K] [LT K] [LE K] [DecidableLT K] [DecidableLE K]")
    vs, typs, tup, wbody = gds_warn
    vdecl = " ".join(f"({v} : {LEAN_TYPE[typs[v]]})" for v in vs)
    gp = SIGS["_get_degree_and_size"][1]
    go = params["_get_degree_and_size"]
    out.append("/-- `AngularGrid._get_degree_and_size`, everything after the dispatch, with the `warnings.warn` calls that\n"
               "were executed as the result (the returned pair is still computed: it may raise). -/")
    out.append(f"def getDegreeAndSize_warnings_body {vdecl} {decl(go, gp)} : Py (List Warning) :=\n"
               f"  let log : List Warning := []\n{wbody}\n")
    out.append("/-- The warnings of one call of `AngularGrid._get_degree_and_size`. -/")
    out.append(f"def getDegreeAndSize_warnings {decl(go, gp)} : Py (List Warning) :=\n"
               f"  getDegreeAndSize_dispatch method >>= fun {tup} =>\n  getDegreeAndSize_warnings_body {' '.join(vs)} {' '.join(go)}\n")
    # which translated callables contain no warnings.warn call at all
    silent = {nm for nm in SIGS if not any(Tr.is_warn(n) for n in ast.walk(_method(cls, nm)) if isinstance(n, ast.Expr))}
    out.append("section full\n" + KVARS + "\n")
    dataname, tail = loader_tail
    out.append("/-- `AngularGrid._load_precomputed_angular_grid`: the statements after `np.load`, as a function of the loaded arrays. -/")
    out.append(f"def loadPrecomputedAngularGrid_data ({dataname} : Npz K) : Py (List (List K) × List K) :=\n{tail}\n")
    lo = params["_load_precomputed_angular_grid"]
    out.append("/-- `AngularGrid._load_precomputed_angular_grid` against an abstract `np.load(files(package).joinpath(name))`. -/")
    out.append(f"def loadPrecomputedAngularGridFull (npLoad : String → String → Py (Npz K)) {decl(lo, SIGS['_load_precomputed_angular_grid'][1])} : Py (List (List K) × List K) :=\n"
               f"  loadPrecomputedAngularGrid {' '.join(lo)} >>= fun (package_, name_) =>\n"
               f"  npLoad package_ name_ >>= fun {dataname} =>\n  loadPrecomputedAngularGrid_data {dataname}\n")
    # __init__, every statement
    trf = Tr(params, log=True, full=True)
    trf.silent = silent
    cdef = defaults["cache"]
    if not (isinstance(cdef, ast.Constant) and isinstance(cdef.value, bool)):
        raise Untranslatable("AngularGrid.__init__: default of `cache` is not a boolean constant")
    for n in ast.walk(fn):
        if isinstance(n, ast.Name) and n.id in ("caches", "log", "npLoad", "l_", "c_") or isinstance(n, ast.Name) and n.id.startswith("self_"):
            _fail(n, "name reserved by the translation")

    def final_full(env_):
        want = {"self__degree": "val", "self__method": "str", "self_points": "arr2", "self_weights": "arr1", "caches": "caches", "log": "log"}
        for k_, t_ in want.items():
            if env_.get(k_) != t_:
                _fail(fn, f"__init__ ends without `{k_}` being set")
        extra = sorted(k_ for k_ in env_ if k_.startswith("self_") and k_ not in want)
        if extra:
            _fail(fn, f"__init__ sets attributes that are not carried: {extra}")
        return "pure (self__degree, self__method, self_points, self_weights, caches, log)"
    envf = {"degree": "val", "size": "val", "cache": "bool", "method": "str", "caches": "caches", "log": "log"}
    fbody = trf.block(stmts, envf, final_full, 1)
    out.append("/-- `AngularGrid.__init__`, every statement: given the loader's file system `npLoad` and the content of the\n"
               "module-level cache dictionaries, `(self._degree, self._method, points and weights handed to Grid.__init__,\n"
               "cache dictionaries afterwards, warnings raised)`. -/")
    out.append("def initFull (npLoad : String → String → Py (Npz K)) (caches : Caches K) (degree : Val) (size : Val) (cache : Bool) (method : String) :\n"
               "    Py (Val × String × List (List K) × List K × Caches K × List Warning) :=\n"
               "  let log : List Warning := []\n" + fbody + "\n")
    out.append("end full\n")
    out.append("/-- Default of `cache=` in `AngularGrid.__init__`. -/")
    out.append(f"def initCacheDefault : Bool := {'true' if cdef.value else 'false'}\n")

    # ---- listing of the data packages named by the loader's dispatch ----------------------------
    if src_dir is not None:
        ld = _method(cls, "_load_precomputed_angular_grid")
        pkgs = []
        for n in ast.walk(ld):
            if isinstance(n, ast.Assign) and any(isinstance(t, ast.Name) and t.id == "file_path" for t in n.targets):
                if not (isinstance(n.value, ast.Constant) and isinstance(n.value.value, str)):
                    _fail(n, "file_path is not a string literal")
                if n.value.value not in pkgs:
                    pkgs.append(n.value.value)
        out.append("/-- Directory listing (`*.npz`, sorted) of every data package the loader's dispatch names:\n"
                   "`(file name, (prefix, degree, size))` with the name split as `prefix_degree_size.npz` (the split is\n"
                   "re-checked in `Props/C12/Logic.lean`: the name is rebuilt from the three parts). -/")
        out.append("def packageFiles : List (String × List (String × String × Nat × Nat)) := [\n" + ",\n".join(
            f"  ({_lean_str(p)}, [\n" + _wrap([f"({_lean_str(a)}, {_lean_str(b)}, {c}, {d_})" for a, b, c, d_ in names]) + "])"
            for p, names in _listing(pkgs, src_dir)) + "]\n")

    head = HEADER.format(name="angular_logic", source="src/grid/angular.py (AngularGrid._get_degree_and_size, "
                         "convert_angular_sizes_to_degrees, _load_precomputed_angular_grid, __init__), listing of src/grid/data/*")
    return (head + "import GridVerif.Model.AngularPy\nimport GridVerif.Model.AngularNp\nimport GridVerif.Gen.AngularTables\n\n"
            "set_option linter.unusedVariables false\n\n"
            "namespace GridVerif.Gen.AngularLogic\nopen GridVerif GridVerif.AngularPy GridVerif.Gen.Angular\n\n"
            + "\n".join(out) + "\nend GridVerif.Gen.AngularLogic\n")


def generate():
    return write_if_changed("AngularLogic.lean", render((SRC / "angular.py").read_text(), SRC))

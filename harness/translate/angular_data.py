"""Translator for C02 (proof tier): the smallest shipped angular tables -> Gen/AngularData/*.lean.

(Round 3: the tables with COST_DIRECT < cost <= COST_MAX are carried too, with the statement split into one
kernel-decided theorem per first exponent -- see `render_sliced`.)

For every data file named by the degree tables of grid/angular.py whose exhaustive monomial check
costs at most COST_MAX node-monomial pairs (size * C(degree+3, 3)), the arrays `points` and
`weights` are read from the .npz file *as the loader of AngularGrid reads them* (a weights array of
length one is broadcast) and written as exact integers over a common power of two (an IEEE double is
a dyadic rational, so nothing is rounded).  Each generated file carries the table and the
kernel-decided statement that the table integrates every monomial x^a y^b z^c, a+b+c <= degree, to
1e-13 (`allOkUnit` for the tables normalised to one -- the constructor multiplies them by 4 pi --,
`allOk4pi` for those that sum to 4 pi) and that every node is on the unit sphere to 1e-13.  A
changed data file regenerates a different table and the `decide +kernel` of that file is re-run by
the build; if it fails, the file no longer compiles (broken obligation).

Gen/AngularData.lean imports them all and lists what was generated.
"""
from fractions import Fraction
import importlib
import re

import numpy as np

from ..common import SRC
from .util import HEADER, write_if_changed, GEN

COST_DIRECT = 26000       # lebedev <= 11 (50 points), spherical <= 11 (70), maxdet <= 9 (100): one direct statement, <= 1.3 GB and 20 s each in the kernel
COST_MAX = {"lebedev": 126000, "spherical": 80000, "maxdet": 80000, "ahrens_beylkin": 80000}
                          # round 3: up to here (lebedev <= 17 / 110 points, spherical <= 13 / 94, maxdet <= 12 / 169, ahrens_beylkin 14 / 72)
                          # the check is stated slice by slice (one kernel-decided theorem per first exponent, per-node moments by
                          # iterated multiplication: Model/SphereQuad.lean `sliceOkUnit` / `sliceOk4pi`): <= 1.6 GB and <= 50 s of CPU per
                          # file.  The Lebedev tables are cheaper per node-monomial pair (octahedral orbits: many zero and repeated
                          # coordinates, which the kernel's cache shares); measured: lebedev_17_110 34 s, maxdet_12_169 47 s,
                          # spherical_15_120 63 s, maxdet_13_196 70 s (the last two are therefore not carried)
TOL_INV = 10 ** 13

METHODS = [("lebedev", "LEBEDEV", "lebedev", "Unit"), ("spherical", "SPHERICAL", "spherical_design", "Unit"),
           ("maxdet", "MAX_DET", "maxdet", "4pi"), ("ahrens_beylkin", "AHRENS_BEYLKIN", "ahrens_beylkin", "4pi")]


def _scaled(arr):
    fr = [Fraction(float(x)) for x in np.asarray(arr, dtype=float).ravel()]
    if any(not np.isfinite(float(x)) for x in np.asarray(arr, dtype=float).ravel()):
        raise ValueError("non-finite table entry")
    k = max(q.denominator.bit_length() - 1 for q in fr)
    return k, [int(q * 2 ** k) for q in fr]


def selected():
    ang = importlib.import_module("grid.angular")
    out = []
    for meth, prefix, d, kind in METHODS:
        degs = getattr(ang, prefix + "_DEGREES")
        for deg, size in degs.items():
            deg, size = int(deg), int(size)
            cost = size * (deg + 1) * (deg + 2) * (deg + 3) // 6
            if cost <= COST_MAX[meth]:
                out.append((meth, d, kind, deg, size))
    return out


def camel(meth, deg, size):
    return "".join(w.capitalize() for w in meth.split("_")) + f"D{deg}N{size}"


def render_one(meth, d, kind, deg, size):
    f = SRC / "data" / d / f"{meth}_{deg}_{size}.npz"
    with np.load(f) as z:
        P, W = np.asarray(z["points"], dtype=float), np.asarray(z["weights"], dtype=float)
    if len(W) == 1:                      # the loader: np.ones(len(points)) * data["weights"]
        W = np.ones(len(P)) * W
    if P.ndim != 2 or P.shape[1] != 3 or len(W) != len(P):
        raise ValueError(f"{f.name}: unexpected array shapes {P.shape}, {W.shape}")
    kp, Pi = _scaled(P)
    kw, Wi = _scaled(W)
    rows = ",\n  ".join(f"({Wi[i]}, {Pi[3 * i]}, {Pi[3 * i + 1]}, {Pi[3 * i + 2]})" for i in range(len(W)))
    name = camel(meth, deg, size)
    ok = "allOkUnit" if kind == "Unit" else "allOk4pi"
    if size * (deg + 1) * (deg + 2) * (deg + 3) // 6 > COST_DIRECT:
        return name, render_sliced(meth, d, kind, deg, size, name, kp, kw, rows)
    return name, "\n".join([
        HEADER.format(name="angular_data", source=f"src/grid/data/{d}/{meth}_{deg}_{size}.npz"),
        "import GridVerif.Model.SphereQuad\n",
        f"namespace GridVerif.Gen.AngularData.{name}",
        "open GridVerif.SphereQuad\n",
        f"/-- `{meth}_{deg}_{size}.npz` as loaded by `AngularGrid._load_precomputed_angular_grid`: {len(W)} nodes, exact. -/",
        f"def table : Table := ⟨{kp}, {kw}, [\n  {rows}]⟩\n",
        f"def degree : Nat := {deg}",
        f"def size : Nat := {size}\n",
        f"theorem size_eq : table.pts.length = size := by decide\n",
        "set_option maxRecDepth 100000 in",
        f"/-- every monomial of degree ≤ {deg} is integrated to 1e-13 by the shipped table (kernel evaluation, exact integers). -/",
        f"theorem exact : {ok} table degree {TOL_INV} = true := by decide +kernel\n",
        "set_option maxRecDepth 100000 in",
        f"theorem on_sphere : onSphere table {TOL_INV} = true := by decide +kernel\n",
        f"end GridVerif.Gen.AngularData.{name}\n"])


def render_sliced(meth, d, kind, deg, size, name, kp, kw, rows):
    """The larger tables: one kernel-decided statement per first exponent a (`slice_a`), collected by `slices`;
    Props/C02/Slice.lean proves that the slices together are `allOkUnit` / `allOk4pi`."""
    ok = "sliceOkUnit" if kind == "Unit" else "sliceOk4pi"
    out = [
        HEADER.format(name="angular_data", source=f"src/grid/data/{d}/{meth}_{deg}_{size}.npz"),
        "import GridVerif.Model.SphereQuad\n",
        f"namespace GridVerif.Gen.AngularData.{name}",
        "open GridVerif.SphereQuad\n",
        f"/-- `{meth}_{deg}_{size}.npz` as loaded by `AngularGrid._load_precomputed_angular_grid`: {size} nodes, exact. -/",
        f"def table : Table := ⟨{kp}, {kw}, [\n  {rows}]⟩\n",
        f"def degree : Nat := {deg}",
        f"def size : Nat := {size}\n",
        f"theorem size_eq : table.pts.length = size := by decide +kernel\n",
        f"/-! every monomial `x^a y^b z^c` of degree ≤ {deg} is integrated to 1e-13 by the shipped table (kernel evaluation, exact",
        f"integers), one statement per first exponent `a`. -/\n"]
    for a in range(deg + 1):
        out += ["set_option maxRecDepth 100000 in",
                f"theorem slice_{a} : {ok} table degree {TOL_INV} {a} = true := by decide +kernel\n"]
    out += [f"/-- all slices: every monomial of degree ≤ {deg}. -/",
            f"theorem slices : ∀ a, a ≤ degree → {ok} table degree {TOL_INV} a = true"]
    out += [f"  | {a}, _ => slice_{a}" for a in range(deg + 1)]
    out += [f"  | (n + {deg + 1}), h => by unfold degree at h; omega\n",
            "set_option maxRecDepth 100000 in",
            f"theorem on_sphere : onSphere table {TOL_INV} = true := by decide +kernel\n",
            f"end GridVerif.Gen.AngularData.{name}\n"]
    return "\n".join(out)


def generate():
    sel = selected()
    changed, details = False, []
    (GEN / "AngularData").mkdir(parents=True, exist_ok=True)
    names = []
    for meth, d, kind, deg, size in sel:
        name, text = render_one(meth, d, kind, deg, size)
        names.append((name, meth, deg, size, kind))
        c, dd = write_if_changed(f"AngularData/{name}.lean", text)
        changed |= c
        if c:
            details.append(f"{name}: " + dd[:400])
    keep = {f"{n}.lean" for n, *_ in names}
    for p in (GEN / "AngularData").glob("*.lean"):
        if p.name not in keep:
            raise ValueError(f"stale generated file {p} (the degree tables no longer name it)")
    root = [HEADER.format(name="angular_data", source="src/grid/angular.py (degree tables), src/grid/data/*/*.npz")]
    root += [f"import GridVerif.Gen.AngularData.{n}" for n, *_ in names]
    root.append("\nnamespace GridVerif.Gen.AngularData\n")
    root.append("/-- the tables carried into Lean: (method, degree, size, weights sum to 4π?) -/")
    root.append("def carried : List (String × Nat × Nat × Bool) := [\n  " + ",\n  ".join(
        f"(\"{m}\", {dg}, {sz}, {'true' if k == '4pi' else 'false'})" for n, m, dg, sz, k in names) + "]\n")
    root.append("end GridVerif.Gen.AngularData\n")
    c, dd = write_if_changed("AngularData.lean", "\n".join(root))
    return changed or c, "\n".join(details + ([dd] if c else []))

"""Translator for C10 / C11:  src/grid/basegrid.py, src/grid/periodicgrid.py  ->  Gen/LocalGrid.lean.

Statement-wise translation of
  * the `points` / `weights` setters of `Grid`, the `points` setter of `PeriodicGrid`,
  * `Grid.get_localgrid`, `PeriodicGrid.get_localgrid` (loop body as its own definition),
  * `PeriodicGrid.__init__` (with `Grid.__init__` inlined at `super().__init__`),
  * `__getitem__` of `Grid`, `OneDGrid`, `PeriodicGrid`
into Lean definitions over the structures of the hand model (`LocalGrid.State`, `Periodic.PGrid`)
and the vocabulary of `Model/LocalGridPy.lean`.  Expressions are translated compositionally with
a small type discipline (scalar, point, rows, lattice, per-lattice-vector array, …); anything
outside the closed vocabulary raises `Unsupported` (treated by the runner as a broken proof
obligation).  The theorems of `Props/C10/Gen.lean`, `Props/C11/Gen.lean` are stated about the
generated definitions.
"""
import ast
import copy

from ..common import SRC
from .util import HEADER, write_if_changed


class Unsupported(Exception):
    pass


# ----------------------------------------------------------------------------------------------
# types of the translated values -> Lean types
# ----------------------------------------------------------------------------------------------
LEAN_TY = {
    "K": "K", "Rad": "Radius K", "Centre": "Centre K", "Pt": "Point K", "Pts": "List (Point K)",
    "Lat": "List (Point K)", "KVec": "List K", "Ws": "List K", "IVec": "List Int", "Ilc": "List Int",
    "FracM": "List (List K)", "Intv": "List (K × K)", "Idx": "List Nat", "Nat": "Nat", "Bool": "Bool",
    "Index": "Index", "Tree": "Option (List (Point K))", "Dom": "Option (K × K)",
    "BlkPts": "List (List (Point K))", "BlkWs": "List (List K)", "BlkIdx": "List (List Nat)",
    "Ranges": "List (List Int)", "Ilcs": "List (List Int)", "State": "State K", "PGrid": "PGrid K",
    "Out": "Out K", "EmptyList": "?",
}
ERRS = {"ValueError": "Err.valueError", "TypeError": "Err.typeError", "IndexError": "Err.indexError",
        "AttributeError": "Err.attributeError"}
FIELDS = {
    "State": {"_points": ("stored", "Pts"), "_weights": ("weights", "Ws"), "_kdtree": ("tree", "Tree"),
              "_domain": ("domain", "Dom")},
    "PGrid": {"_points": ("points", "Pts"), "_weights": ("weights", "Ws"), "_kdtree": ("tree", "Tree"),
              "_realvecs": ("realvecs", "Lat"), "_recivecs": ("recivecs", "Lat"),
              "_spacings": ("spacings", "KVec"), "_frac_intvls": ("fracIntvls", "Intv")},
}
# public read-only properties: name -> private attribute they must return
PROPS = {"points": "_points", "weights": "_weights", "realvecs": "_realvecs", "recivecs": "_recivecs",
         "spacings": "_spacings", "frac_intvls": "_frac_intvls", "domain": "_domain"}


class _StripRaise(ast.NodeTransformer):
    def visit_Raise(self, n):
        exc = n.exc
        if isinstance(exc, ast.Call):
            exc = exc.func
        return ast.Raise(exc=exc, cause=None)


def norm(node) -> str:
    """Source text of a statement/expression with exception messages dropped."""
    n = _StripRaise().visit(copy.deepcopy(node))
    ast.fix_missing_locations(n)
    return ast.unparse(n)


def U(node) -> str:
    return ast.unparse(node)


def lname(py: str) -> str:
    return "u" + py if py.startswith("_") else py


def is_doc(s):
    return isinstance(s, ast.Expr) and isinstance(s.value, ast.Constant) and isinstance(s.value.value, str)


# ----------------------------------------------------------------------------------------------
# source access
# ----------------------------------------------------------------------------------------------
class Source:
    def __init__(self, src_dir):
        self.src_dir = src_dir
        self.trees = {f: ast.parse((src_dir / f).read_text()) for f in ("basegrid.py", "periodicgrid.py")}
        self.classes = {}
        for f, t in self.trees.items():
            for n in t.body:
                if isinstance(n, ast.ClassDef):
                    self.classes[n.name] = (f, n)

    def method(self, cls, name, setter=False):
        f, c = self.classes[cls]
        for m in c.body:
            if isinstance(m, ast.FunctionDef) and m.name == name:
                decs = [U(d) for d in m.decorator_list]
                is_setter = any(d.endswith(".setter") for d in decs)
                if is_setter == setter:
                    return f, m
        return None

    def find(self, cls, name, setter=False):
        """Method of the class or of its bases (single inheritance inside the two files)."""
        cur = cls
        while cur in self.classes:
            r = self.method(cur, name, setter)
            if r is not None:
                return cur, r[0], r[1]
            bases = [U(b) for b in self.classes[cur][1].bases]
            cur = bases[0] if bases else None
        raise Unsupported(f"{cls}.{name}: method not found")

    def check_property(self, cls, prop):
        """The public attribute must be the plain getter `return self._x`."""
        priv = PROPS[prop]
        owner, f, m = self.find(cls, prop)
        if "property" not in [U(d) for d in m.decorator_list]:
            raise Unsupported(f"{owner}.{prop} is not a property")
        body = [s for s in m.body if not is_doc(s)]
        if len(body) != 1 or norm(body[0]) != f"return self.{priv}":
            raise Unsupported(f"{owner}.{prop}: getter is not `return self.{priv}`: {U(m)[:200]}")
        return priv

    def check_size(self, cls):
        owner, f, m = self.find(cls, "size")
        body = [s for s in m.body if not is_doc(s)]
        if len(body) != 1 or norm(body[0]) != "return self._weights.size":
            raise Unsupported(f"{owner}.size: getter is not `return self._weights.size`")


# ----------------------------------------------------------------------------------------------
# exits (what `raise`, `return`, falling off the end mean in the generated definition)
# ----------------------------------------------------------------------------------------------
class MethodExit:
    """Methods of an object: result `Option (Self × Out K)`."""

    def __init__(self, struct):
        self.ret_ty = f"Option ({LEAN_TY[struct]} × Out K)"

    def raise_(self, err):
        return f"some (self, Out.error {err})"

    def out(self, text):
        return f"some (self, {text})"

    def end(self):
        return "some (self, Out.done)"


class CtorExit:
    """Constructors / selections returning a new periodic grid: `Option (Except Err (PGrid K))`."""
    ret_ty = "Option (Except Err (PGrid K))"

    def raise_(self, err):
        return f"some (Except.error {err})"

    def end(self):
        raise Unsupported("constructor ends without building the object")


class LoopExit:
    def __init__(self, acc_ty, acc_names):
        self.ret_ty = f"Option (Except Err ({acc_ty}))"
        self.acc_names = acc_names

    def raise_(self, err):
        return f"some (Except.error {err})"

    def end(self):
        return "some (Except.ok (" + ", ".join(self.acc_names) + "))"


# ----------------------------------------------------------------------------------------------
# the function translator
# ----------------------------------------------------------------------------------------------
class Fn:
    def __init__(self, src: Source, cls: str, struct: str, mode: str, exit_, where: str):
        self.src, self.cls, self.struct, self.mode, self.exit, self.where = src, cls, struct, mode, exit_, where
        self.env = {}            # python name -> (lean name, type)
        self.oned_fact = None    # known truth of `points.ndim == 1` in the current branch
        self.ntmp = 0
        self.njoin = 0
        self.asarrayed = set()
        self.ctor_attrs = {}     # constructor mode: attribute -> (lean name, type)
        self.extra_defs = []     # loop bodies emitted as their own definitions
        self.fname = None
        self.origin = {}         # python name -> lean expression it was bound to
        self.tree_args = {}      # keyword arguments of cKDTree(...) / query_ball_point(...): name -> source literal

    # ---- helpers ----
    def bad(self, node, why=""):
        txt = U(node) if isinstance(node, ast.AST) else str(node)
        raise Unsupported(f"{self.where}: cannot carry `{txt[:160]}`" + (f" ({why})" if why else ""))

    def tmp(self):
        self.ntmp += 1
        return f"t{self.ntmp}"

    def self_attr(self, attr, node):
        """Read of `self.<attr>` -> (lean, type)."""
        if attr == "size":
            self.src.check_size(self.cls)
            return self.read_private("_weights", node)[0] + ".length", "Nat"
        if attr in PROPS:
            priv = self.src.check_property(self.cls, attr)
            if attr == "points" and self.struct == "State" and self.mode == "method":
                # the public attribute: subclasses (AtomGrid) add their centre on read
                return "self.points", "Pts"
            return self.read_private(priv, node)
        if attr.startswith("_"):
            return self.read_private(attr, node)
        self.bad(node, "unknown attribute")

    def read_private(self, attr, node):
        if self.mode == "ctor":
            if attr not in self.ctor_attrs:
                self.bad(node, "attribute read before it is assigned in the constructor")
            return self.ctor_attrs[attr]
        if attr not in FIELDS[self.struct]:
            self.bad(node, f"attribute not in the model structure {self.struct}")
        fld, ty = FIELDS[self.struct][attr]
        return f"self.{fld}", ty

    def is_self_attr(self, node):
        return isinstance(node, ast.Attribute) and isinstance(node.value, ast.Name) and node.value.id == "self"

    def own_points(self, node):
        """Is the expression the object's own point array (for shape comparisons)?"""
        if self.is_self_attr(node) and node.attr in ("points", "_points"):
            return True
        if isinstance(node, ast.Name) and self.origin.get(node.id) in ("self.points", "self.stored"):
            return True
        return False

    # ---- conditions ----
    def ndim_is_one(self, node):
        """`X.ndim == 1` -> lean Bool text, for X one of the point-shaped arrays."""
        if self.is_self_attr(node) and node.attr in ("_points", "points"):
            if self.mode == "ctor":
                self.bad(node)
            return "self.oned"
        if isinstance(node, ast.Name) and node.id in self.env:
            ln, ty = self.env[node.id]
            if ty in ("Pts", "Lat") and ("oned" in self.env):
                return "oned"
        self.bad(node, "ndim of this value is not tracked")

    def size_is_zero(self, node):
        if self.is_self_attr(node) and node.attr in ("_realvecs", "realvecs"):
            return self.self_attr(node.attr, node)[0] + ".isEmpty"
        if isinstance(node, ast.Name) and node.id in self.env and self.env[node.id][1] == "Lat":
            return self.env[node.id][0] + ".isEmpty"
        self.bad(node, "size of this value is not tracked")

    def cond(self, t):
        """-> (lean Prop text, oned-fact or None)"""
        if isinstance(t, ast.BoolOp) and isinstance(t.op, ast.And):
            parts = [self.cond(v) for v in t.values]
            fact = next((f for _, f in parts if f is not None), None)
            return " ∧ ".join(p for p, _ in parts), fact
        if isinstance(t, ast.BoolOp) and isinstance(t.op, ast.Or):
            parts = [self.cond(v)[0] for v in t.values]
            return "(" + " ∨ ".join(parts) + ")", None
        if isinstance(t, ast.UnaryOp) and isinstance(t.op, ast.Not):
            return "¬ " + self.paren(self.cond(t.operand)[0]), None
        if isinstance(t, ast.Name) and t.id in self.env and self.env[t.id][1] == "Bool":
            return f"{self.env[t.id][0]} = true", None
        if isinstance(t, ast.Call):
            f = U(t.func)
            if f == "np.isfinite" and len(t.args) == 1 and self.is_rad(t.args[0]):
                return f"pyIsFinite {self.env[t.args[0].id][0]} = true", None
            if f == "isinstance" and len(t.args) == 2 and isinstance(t.args[0], ast.Name) \
                    and self.env.get(t.args[0].id, (None, None))[1] == "Index":
                tys = t.args[1].elts if isinstance(t.args[1], ast.Tuple) else [t.args[1]]
                names = [U(x) for x in tys]
                for nm in names:
                    if nm not in ("int", "np.integer"):
                        self.bad(t, f"index type {nm} is not an index kind of the model")
                return f"pyIsInstance {self.env[t.args[0].id][0]} [" + ", ".join(f'"{n}"' for n in names) + "] = true", None
            self.bad(t)
        if isinstance(t, ast.Compare) and len(t.ops) == 1:
            a, op, b = t.left, t.ops[0], t.comparators[0]
            # X.ndim == 1
            if isinstance(a, ast.Attribute) and a.attr == "ndim" and isinstance(op, ast.Eq) and U(b) == "1":
                txt = self.ndim_is_one(a.value)
                return f"{txt} = true", True
            # X.size == 0 / > 0
            if isinstance(a, ast.Attribute) and a.attr == "size" and U(b) == "0" and not (self.is_self_attr(a)):
                z = self.size_is_zero(a.value)
                if isinstance(op, ast.Eq):
                    return f"{z} = true", None
                if isinstance(op, ast.Gt):
                    return f"¬ {z} = true", None
            # self.size <op> <integer literal>
            if U(a) == "self.size" and isinstance(b, ast.Constant) and isinstance(b.value, int) and not isinstance(b.value, bool) \
                    and type(op) in (ast.Lt, ast.LtE, ast.Gt, ast.GtE, ast.Eq, ast.NotEq):
                sym = {ast.Lt: "<", ast.LtE: "≤", ast.Gt: ">", ast.GtE: "≥", ast.Eq: "=", ast.NotEq: "≠"}[type(op)]
                return f"{self.self_attr('size', a)[0]} {sym} {b.value}", None
            # X.shape == (3, 3) for the lattice array
            if isinstance(a, ast.Attribute) and a.attr == "shape" and isinstance(op, ast.Eq) and U(b) == "(3, 3)" and isinstance(a.value, ast.Name) \
                    and a.value.id in self.env and self.env[a.value.id][1] == "Lat":
                return f"({self.env[a.value.id][0]}.length = 3 ∧ {self.dim()} = 3)", None
            # radius comparisons
            if self.is_rad(a) and isinstance(op, ast.Lt) and U(b) == "0":
                return f"pyLt0 {self.env[a.id][0]} = true", None
            if self.is_rad(a) and isinstance(op, ast.Eq) and U(b) == "np.inf":
                return f"pyEqInf {self.env[a.id][0]} = true", None
            # self._kdtree is None
            if isinstance(op, ast.Is) and U(b) == "None" and self.is_self_attr(a) and a.attr == "_kdtree":
                return f"{self.self_attr('_kdtree', a)[0]}.isNone = true", None
            # len(X) == 0, len(a) != len(b)
            if isinstance(a, ast.Call) and U(a.func) == "len" and isinstance(op, ast.Eq) and U(b) == "0":
                e, ty, binds = self.expr(a.args[0])
                if binds or ty not in ("Idx", "BlkIdx", "BlkPts", "BlkWs"):
                    self.bad(t)
                return f"{e}.length = 0", None
            if isinstance(a, ast.Call) and U(a.func) == "len" and isinstance(b, ast.Call) and U(b.func) == "len" \
                    and isinstance(op, ast.NotEq):
                e1, ty1, b1 = self.expr(a.args[0])
                e2, ty2, b2 = self.expr(b.args[0])
                if b1 or b2 or ty1 != "Pts" or ty2 != "Ws":
                    self.bad(t)
                return f"{e1}.length ≠ {e2}.length", None
            # value.shape != self._points.shape / self._weights.shape
            if isinstance(op, ast.NotEq) and isinstance(a, ast.Attribute) and a.attr == "shape" \
                    and isinstance(b, ast.Attribute) and b.attr == "shape" and isinstance(a.value, ast.Name) \
                    and a.value.id in self.env and self.is_self_attr(b.value) and self.mode == "method":
                ln, ty = self.env[a.value.id]
                if b.value.attr == "_points" and ty == "Pts":
                    ns = "LocalGrid" if self.struct == "State" else "Periodic"
                    return f"¬ {ns}.sameShape self oned dim {ln} = true", None
                if b.value.attr == "_weights" and ty == "Ws":
                    return f"{ln}.length ≠ self.weights.length", None
            self.bad(t)
        self.bad(t)

    def paren(self, s):
        return s if (s.isidentifier() or (s.startswith("(") and s.endswith(")"))) else f"({s})"

    def is_rad(self, node):
        return isinstance(node, ast.Name) and node.id in self.env and self.env[node.id][1] == "Rad"

    # ---- expressions: -> (lean text, type, binds) ; bind = (tmp, lean expr, kind, err) ----
    def expr(self, e):
        P = self.paren
        if isinstance(e, ast.Name):
            if e.id not in self.env:
                self.bad(e, "unknown name")
            ln, ty = self.env[e.id]
            if ty == "Rad":
                # the float enters arithmetic
                return ln, "K", [(ln, f"pyNum {ln}", "unmod", None)]
            return ln, ty, []
        if self.is_self_attr(e):
            ln, ty = self.self_attr(e.attr, e)
            return ln, ty, []
        if isinstance(e, ast.IfExp):
            # np.array([x]) if center.ndim == 0 else x   (the row-list form of a scalar centre is [x])
            t = e.test
            if isinstance(t, ast.Compare) and isinstance(t.left, ast.Attribute) and t.left.attr == "ndim" \
                    and isinstance(t.left.value, ast.Name) and t.left.value.id in self.asarrayed \
                    and isinstance(t.ops[0], ast.Eq) and U(t.comparators[0]) == "0" \
                    and isinstance(e.body, ast.Call) and U(e.body.func) == "np.array" and len(e.body.args) == 1 \
                    and isinstance(e.body.args[0], ast.List) and len(e.body.args[0].elts) == 1 \
                    and U(e.body.args[0].elts[0]) == U(e.orelse):
                x, ty, b = self.expr(e.orelse)
                if ty != "Pt":
                    self.bad(e)
                return x, "Pt", b
            self.bad(e)
        if isinstance(e, ast.UnaryOp) and isinstance(e.op, ast.USub):
            x, ty, b = self.expr(e.operand)
            if ty == "FracM":
                return f"npNegM {P(x)}", "FracM", b
            self.bad(e)
        if isinstance(e, ast.BinOp):
            return self.binop(e)
        if isinstance(e, ast.Subscript):
            return self.subscript(e)
        if isinstance(e, ast.Call):
            return self.call(e)
        if isinstance(e, ast.List) and not e.elts:
            return "[]", "EmptyList", []
        self.bad(e)

    def binop(self, e):
        P = self.paren
        op = type(e.op).__name__
        # 1 / X
        if op == "Div" and isinstance(e.left, ast.Constant) and e.left.value == 1:
            x, ty, b = self.expr(e.right)
            if ty == "KVec":
                return f"npRecip {P(x)}", "KVec", b
            if ty == "Lat" and self.oned_fact is True:
                return f"npRecipLat {P(x)}", "Lat", b
            self.bad(e)
        x, tx, bx = self.expr(e.left)
        y, ty, by = self.expr(e.right)
        b = bx + by
        key = (tx, op, ty)
        table = {
            ("KVec", "Sub", "KVec"): ("npSub", "KVec"), ("KVec", "Add", "KVec"): ("npAdd", "KVec"),
            ("K", "Div", "KVec"): ("npSDiv", "KVec"), ("K", "Mult", "KVec"): ("npSMul", "KVec"),
            ("Pt", "Add", "Pt"): ("vadd", "Pt"), ("Pt", "Sub", "Pt"): ("vsub", "Pt"),
            ("Lat", "MatMult", "Pt"): ("npMatVec", "KVec"),
            ("Pts", "Sub", "Pt"): ("npRowsSub", "Pts"), ("Pts", "Add", "Pt"): ("npRowsAdd", "Pts"),
            ("Pts", "Add", "Pts"): ("npAddRows", "Pts"),
            ("FracM", "Add", "FracM"): ("npAddM", "FracM"),
        }
        if key in table:
            f, rt = table[key]
            return f"{f} {P(x)} {P(y)}", rt, b
        # the 1-D spellings (elementwise products of (N,) / (1,) / () arrays)
        if self.oned_fact is True and op == "Mult":
            if key == ("Lat", "Mult", "Pt"):
                return f"npMatVec {P(x)} {P(y)}", "KVec", b
            if key == ("Pts", "Mult", "Lat"):
                return f"npMatMulT {P(x)} {P(y)}", "FracM", b
            if key == ("FracM", "Mult", "Lat"):
                return f"npMatMul {self.dim()} {P(x)} {P(y)}", "Pts", b
        if key == ("FracM", "MatMult", "Lat") and self.oned_fact is not True:
            return f"npMatMul {self.dim()} {P(x)} {P(y)}", "Pts", b
        if key == ("Ilc", "MatMult", "Lat"):
            return f"delta {self.dim()} {P(x)} {P(y)}", "Pt", b
        # points @ recivecs.T
        if op == "MatMult" and tx == "Pts" and isinstance(e.right, ast.Attribute) and e.right.attr == "T":
            pass
        self.bad(e, f"operand types {tx} {op} {ty}")

    def dim(self):
        return "dim" if self.mode == "ctor" else "self.dim"

    def subscript(self, e):
        P = self.paren
        sl = e.slice
        v, tv, bv = self.expr(e.value)
        s = U(sl)
        if tv == "Intv" and s in (":, 0", "(:, 0)"):
            return f"npCol0 {P(v)}", "KVec", bv
        if tv == "Intv" and s in (":, 1", "(:, 1)"):
            return f"npCol1 {P(v)}", "KVec", bv
        # indices[self._weights[indices] != 0]   (a hit list filtered by the parent weights)
        if tv == "Idx" and isinstance(sl, ast.Compare) and len(sl.ops) == 1 and isinstance(sl.ops[0], ast.NotEq) \
                and U(sl.comparators[0]) in ("0", "0.0") and isinstance(sl.left, ast.Subscript) and self.is_self_attr(sl.left.value) \
                and sl.left.value.attr in ("_weights", "weights") and U(sl.left.slice) == U(e.value):
            w, _tw = self.self_attr(sl.left.value.attr, sl.left.value)
            return f"npIdxNonzeroWeight {P(w)} {P(v)}", "Idx", bv
        if tv in ("Pts", "Ws") and s == ":0":
            return f"List.take 0 {P(v)}", tv, bv
        if tv in ("Pts", "Ws") and isinstance(sl, ast.Name) and sl.id in self.env:
            i, ti = self.env[sl.id]
            if ti == "Idx":
                t = self.tmp()
                return t, tv, bv + [(t, f"gather {P(v)} {i}", "opt", ERRS["IndexError"])]
        self.bad(e)

    def call(self, e):
        P = self.paren
        f = U(e.func)
        kw = {k.arg: k.value for k in e.keywords}
        # np.asarray / np.array wrappers that do not change the row-list value
        if f == "np.array" and len(e.args) == 1:
            a = e.args[0]
            if set(kw) <= {"dtype"} and (not kw or U(kw["dtype"]) == "int"):
                # np.array(tree.query_ball_point(...)[, dtype=int])
                if isinstance(a, ast.Call) and isinstance(a.func, ast.Attribute) and a.func.attr == "query_ball_point":
                    return self.expr(a)
            if not kw:
                # np.array([xs[index]]) / np.array(xs[index]) in __getitem__
                if isinstance(a, ast.List) and len(a.elts) == 1 and self.index_sub(a.elts[0]):
                    xs, ty = self.index_sub(a.elts[0])
                    t = self.tmp()
                    return f"[{t}]", ty, [(t, f"npGetScalar {P(xs)} index", "optexc", None)]
                if self.index_sub(a):
                    xs, ty = self.index_sub(a)
                    t = self.tmp()
                    return t, ty, [(t, f"npGetArr {P(xs)} index", "exc", None)]
                # np.array([[m.min(), m.max()]])  /  np.array([m.min(axis=0), m.max(axis=0)]).T handled in attribute .T
                if norm(a).startswith("[[") and isinstance(a, ast.List) and len(a.elts) == 1:
                    m = self.minmax_pair(a.elts[0], axis0=False)
                    if m is not None and self.oned_fact is True:
                        t = self.tmp()
                        return t, "Intv", m[1] + [(t, f"npMinMaxCols {P(m[0])}", "opt", ERRS["ValueError"])]
            self.bad(e)
        if isinstance(e.func, ast.Attribute) and e.func.attr == "query_ball_point":
            tr = e.func.value
            if not (self.is_self_attr(tr) and tr.attr == "_kdtree"):
                self.bad(e, "ball query on something that is not self._kdtree")
            if len(e.args) != 2:
                self.bad(e, "query_ball_point arguments")
            self.record_tree_args(e, "query_ball_point", kw)
            c, tc, bc = self.expr(e.args[0])
            r, trd, br = self.expr(e.args[1])
            if tc != "Pt" or trd != "K":
                self.bad(e)
            t = self.tmp()
            tree = self.self_attr("_kdtree", tr)[0]
            return t, "Idx", bc + br + [(t, f"queryBallPoint {tree} {P(c)} {P(r)}", "unmod", None)]
        if isinstance(e.func, ast.Attribute) and e.func.attr == "reshape":
            v, tv, bv = self.expr(e.func.value)
            if tv != "Pts" or len(e.args) != 2 or U(e.args[0]) != "self.size" or U(e.args[1]) != "-1" or kw:
                self.bad(e)
            n = self.self_attr("size", e)[0]
            t = self.tmp()
            return t, "Pts", bv + [(t, f"npReshapeRows {P(v)} {n}", "opt", ERRS["ValueError"])]
        if isinstance(e.func, ast.Attribute) and e.func.attr == "astype" and len(e.args) == 1 and U(e.args[0]) == "int":
            inner = e.func.value
            if isinstance(inner, ast.Call) and U(inner.func) in ("np.ceil", "np.floor") and len(inner.args) == 1:
                x, tx, bx = self.expr(inner.args[0])
                if tx != "KVec":
                    self.bad(e)
                fn = "npCeilInt" if U(inner.func) == "np.ceil" else "npFloorInt"
                return f"{fn} {P(x)}", "IVec", bx
            self.bad(e)
        if f == "np.floor" and len(e.args) == 1 and not kw:
            x, tx, bx = self.expr(e.args[0])
            if tx == "FracM":
                return f"npFloorM {P(x)}", "FracM", bx
            self.bad(e)
        if f == "abs" and len(e.args) == 1:
            x, tx, bx = self.expr(e.args[0])
            if tx == "Lat" and self.oned_fact is True:
                return f"npAbsFlat {P(x)}", "KVec", bx
            self.bad(e)
        if f == "np.linalg.norm" and len(e.args) == 1 and set(kw) == {"axis"} and U(kw["axis"]) == "1":
            x, tx, bx = self.expr(e.args[0])
            if tx in ("Lat", "Pts"):
                return f"npNormRows {P(x)}", "KVec", bx
            self.bad(e)
        if f in ("np.flatnonzero", "np.nonzero", "np.where") and len(e.args) == 1 and not kw and isinstance(e.args[0], ast.Compare) \
                and len(e.args[0].ops) == 1 and type(e.args[0].ops[0]) in (ast.Lt, ast.LtE) and f == "np.flatnonzero":
            # np.flatnonzero(dists < r) / (dists <= r): the positions, ascending (a direct scan instead of the tree)
            cmp_ = e.args[0]
            x, tx, bx = self.expr(cmp_.left)
            y, ty, by = self.expr(cmp_.comparators[0])
            if tx != "KVec" or ty != "K":
                self.bad(e, f"comparison of {tx} with {ty}")
            fn = "npFlatnonzeroLt" if isinstance(cmp_.ops[0], ast.Lt) else "npFlatnonzeroLe"
            return f"{fn} {P(x)} {P(y)}", "Idx", bx + by
        if f == "np.zeros":
            s = U(e.args[0]) if e.args else ""
            if len(e.args) == 1 and isinstance(e.args[0], ast.Attribute) and e.args[0].attr == "shape" and not kw:
                x, tx, bx = self.expr(e.args[0].value)
                if tx == "Lat":
                    return f"npZerosLike {P(x)}", "Lat", bx
            if len(e.args) == 1 and isinstance(e.args[0], ast.Tuple) and len(e.args[0].elts) == 2 \
                    and U(e.args[0].elts[1]) == "0" and isinstance(e.args[0].elts[0], ast.Call) \
                    and U(e.args[0].elts[0].func) == "len" and not kw:
                x, tx, bx = self.expr(e.args[0].elts[0].args[0])
                if tx == "Pts":
                    return f"npZerosM {P(x)}.length", "FracM", bx
            if s == "0" and set(kw) == {"dtype"} and U(kw["dtype"]) == "int":
                return "([] : List Nat)", "Idx", []
            self.bad(e)
        if f == "np.arange" and len(e.args) == 1 and U(e.args[0]) == "self.size" and not kw:
            return f"List.range {self.self_attr('size', e)[0]}", "Idx", []
        if f == "np.concatenate" and len(e.args) == 1 and not kw:
            x, tx, bx = self.expr(e.args[0])
            rt = {"BlkPts": "Pts", "BlkWs": "Ws", "BlkIdx": "Idx"}.get(tx)
            if rt:
                return f"List.flatten {P(x)}", rt, bx
            self.bad(e)
        if f == "cKDTree" and len(e.args) == 1:
            self.record_tree_args(e, "cKDTree", kw)
            x, tx, bx = self.expr(e.args[0])
            if tx != "Pts":
                self.bad(e)
            return f"some (cKDTree {P(x)})", "Tree", bx
        if f == "itertools.product" and len(e.args) == 1 and isinstance(e.args[0], ast.Starred) and not kw:
            lc = e.args[0].value
            # *[range(imin, imax + 1) for imin, imax in zip(ilc_min, ilc_max)]
            if isinstance(lc, ast.ListComp) and len(lc.generators) == 1 and not lc.generators[0].ifs:
                g = lc.generators[0]
                if isinstance(g.target, ast.Tuple) and len(g.target.elts) == 2 and isinstance(g.iter, ast.Call) \
                        and U(g.iter.func) == "zip" and len(g.iter.args) == 2:
                    a, ta, ba = self.expr(g.iter.args[0])
                    b2, tb, bb = self.expr(g.iter.args[1])
                    n1, n2 = U(g.target.elts[0]), U(g.target.elts[1])
                    if ta == tb == "IVec" and isinstance(lc.elt, ast.Call) and U(lc.elt.func) == "range" and len(lc.elt.args) == 2:
                        lo, hi = self.intexpr(lc.elt.args[0], (n1, n2)), self.intexpr(lc.elt.args[1], (n1, n2))
                        return (f"Periodic.product (List.zipWith (fun ({n1} {n2} : Int) => pyRange2 {P(lo)} {P(hi)}) {P(a)} {P(b2)})",
                                "Ilcs", ba + bb)
            self.bad(e)
        # matrix products with a transposed lattice
        self.bad(e)

    # keyword arguments of the neighbour search (SciPy defaults filled in): -> `<method>_tree_args`
    TREE_KW = {"cKDTree": ("leafsize", "compact_nodes", "copy_data", "balanced_tree", "boxsize"),
               "query_ball_point": ("p", "eps", "workers", "return_sorted", "return_length")}

    def record_tree_args(self, e, which, kw):
        import inspect
        from scipy.spatial import cKDTree
        sig = inspect.signature(cKDTree if which == "cKDTree" else cKDTree.query_ball_point)
        vals = {}
        for name in self.TREE_KW[which]:
            if name not in sig.parameters:
                self.bad(e, f"the installed SciPy has no keyword {name} for {which}")
            vals[name] = repr(sig.parameters[name].default)
        for name, v in kw.items():
            if name not in vals:
                self.bad(e, f"keyword {name} of {which} is not carried")
            if isinstance(v, ast.UnaryOp) and isinstance(v.op, ast.USub) and isinstance(v.operand, ast.Constant):
                vals[name] = "-" + U(v.operand)
            elif isinstance(v, ast.Constant) and not isinstance(v.value, str):
                vals[name] = U(v)
            else:
                self.bad(e, f"keyword {name} of {which}: only literals are carried")
        for name, v in vals.items():
            key = f"{which}.{name}"
            if key in self.tree_args and self.tree_args[key] != v:
                self.bad(e, f"two {which} calls with different {name}")
            self.tree_args[key] = v

    def intexpr(self, e, names):
        if isinstance(e, ast.Name) and e.id in names:
            return e.id
        if isinstance(e, ast.Constant) and isinstance(e.value, int):
            return str(e.value)
        if isinstance(e, ast.BinOp) and isinstance(e.op, (ast.Add, ast.Sub)):
            o = "+" if isinstance(e.op, ast.Add) else "-"
            return f"{self.intexpr(e.left, names)} {o} {self.intexpr(e.right, names)}"
        self.bad(e, "integer range bound")

    def index_sub(self, e):
        """`self.points[index]` / `self.weights[index]` -> (lean array, type) or None"""
        if isinstance(e, ast.Subscript) and isinstance(e.slice, ast.Name) and e.slice.id in self.env \
                and self.env[e.slice.id][1] == "Index" and self.is_self_attr(e.value) \
                and e.value.attr in ("points", "weights", "_points", "_weights"):
            return self.self_attr(e.value.attr, e.value)
        return None

    def minmax_pair(self, lst, axis0):
        """[m.min(), m.max()] or [m.min(axis=0), m.max(axis=0)] -> (lean m, binds) or None"""
        if not (isinstance(lst, ast.List) and len(lst.elts) == 2):
            return None
        names = []
        for el, meth in zip(lst.elts, ("min", "max")):
            if not (isinstance(el, ast.Call) and isinstance(el.func, ast.Attribute) and el.func.attr == meth and not el.args):
                return None
            kw = {k.arg: U(k.value) for k in el.keywords}
            if kw != ({"axis": "0"} if axis0 else {}):
                return None
            names.append(U(el.func.value))
        if names[0] != names[1]:
            return None
        m, tm, bm = self.expr(lst.elts[0].func.value)
        if tm != "FracM":
            return None
        return m, bm

    # matrix product with `.T` and `np.array([...]).T` need the attribute node: patch expr()
    def expr_T(self, e):
        P = self.paren
        # points @ recivecs.T
        if isinstance(e, ast.BinOp) and isinstance(e.op, ast.MatMult) and isinstance(e.right, ast.Attribute) and e.right.attr == "T":
            x, tx, bx = self.expr(e.left)
            y, ty, by = self.expr(e.right.value)
            if tx == "Pts" and ty == "Lat" and self.oned_fact is not True:
                return f"npMatMulT {P(x)} {P(y)}", "FracM", bx + by
            self.bad(e)
        # np.array([m.min(axis=0), m.max(axis=0)]).T
        if isinstance(e, ast.Attribute) and e.attr == "T" and isinstance(e.value, ast.Call) and U(e.value.func) == "np.array" \
                and len(e.value.args) == 1 and not e.value.keywords:
            m = self.minmax_pair(e.value.args[0], axis0=True)
            if m is not None:
                t = self.tmp()
                return t, "Intv", m[1] + [(t, f"npMinMaxCols {P(m[0])}", "opt", ERRS["ValueError"])]
            self.bad(e)
        return None

    # ---- emission ----
    def emit_binds(self, binds, ind, out):
        seen = []
        for (t, le, kind, err) in binds:
            if (t, le) in seen:
                continue
            seen.append((t, le))
            P = self.paren
            if kind == "opt":
                out.append(f"{ind}pyOpt {P(le)} {P(self.exit.raise_(err))} fun {t} =>")
            elif kind == "unmod":
                out.append(f"{ind}pyOpt {P(le)} none fun {t} =>")
                # a radius that entered arithmetic is a float from here on
                for py, (ln, ty) in list(self.env.items()):
                    if ln == t and ty == "Rad":
                        self.env[py] = (ln, "K")
            elif kind == "exc":
                out.append(f"{ind}pyExcept {P(le)} (fun e => {self.exit.raise_('e')}) fun {t} =>")
            elif kind == "optexc":
                out.append(f"{ind}pyOptExcept {P(le)} none (fun e => {self.exit.raise_('e')}) fun {t} =>")
            else:
                raise AssertionError(kind)

    def xexpr(self, e):
        r = self.expr_T(e)
        return r if r is not None else self.expr(e)

    def terminates(self, stmts):
        if not stmts:
            return False
        s = stmts[-1]
        if isinstance(s, (ast.Raise, ast.Return, ast.Continue)):
            return True
        if isinstance(s, ast.If) and s.orelse:
            return self.terminates(s.body) and self.terminates(s.orelse)
        return False

    def assigned(self, stmts):
        """Variables (python names / 'self') that a block may assign."""
        out = []
        def add(x):
            if x not in out:
                out.append(x)
        for s in stmts:
            if isinstance(s, ast.Assign):
                for t in s.targets:
                    if isinstance(t, ast.Name):
                        add(t.id)
                    elif self.is_self_attr(t):
                        add("self" if self.mode == "method" else "self." + t.attr)
            elif isinstance(s, ast.AugAssign) and isinstance(s.target, ast.Name):
                add(s.target.id)
            elif isinstance(s, ast.If):
                for x in self.assigned(s.body) + self.assigned(s.orelse):
                    add(x)
            elif isinstance(s, ast.Expr) and isinstance(s.value, ast.Call) and isinstance(s.value.func, ast.Attribute) \
                    and s.value.func.attr == "append" and isinstance(s.value.func.value, ast.Name):
                add(s.value.func.value.id)
            elif isinstance(s, ast.Expr) and isinstance(s.value, ast.Call) and U(s.value.func) == "Grid.points.fset":
                add("self")
        return out

    def used_later(self, name, stmts):
        for s in stmts:
            for n in ast.walk(s):
                if isinstance(n, ast.Name) and n.id == name:
                    return True
        return False

    def warn_only(self, s, rest):
        """A statement without effect on the object: warnings.warn, locals only used for it."""
        if isinstance(s, ast.Expr) and isinstance(s.value, ast.Call) and U(s.value.func) == "warnings.warn":
            return True
        if isinstance(s, ast.If) and not s.orelse:
            loc = []
            for b in s.body:
                if isinstance(b, ast.Assign) and len(b.targets) == 1 and isinstance(b.targets[0], ast.Name):
                    loc.append(b.targets[0].id)
                elif not self.warn_only(b, []):
                    return False
            if any(self.used_later(v, rest) for v in loc):
                return False
            # the test must be free of effects: names, attributes, comparisons, len() only
            for n in ast.walk(s.test):
                if isinstance(n, ast.Call) and U(n.func) not in ("len",) and not (isinstance(n.func, ast.Attribute) and n.func.attr in ("max", "min")):
                    return False
            return True
        return False

    # ---- statements ----
    def block(self, stmts, ind, out):
        """Translate `stmts` (which end the function) into lines appended to `out`."""
        stmts = [s for s in stmts if not is_doc(s)]
        if not stmts:
            out.append(f"{ind}{self.exit.end()}")
            return
        s, rest = stmts[0], stmts[1:]
        src = norm(s).split("\n")[0]
        if self.warn_only(s, rest):
            out.append(f"{ind}-- (no effect on the object: {src[:90]} …)")
            return self.block(rest, ind, out)
        if isinstance(s, ast.Assert):
            out.append(f"{ind}-- {src}   (internal consistency check, not modelled)")
            return self.block(rest, ind, out)
        if isinstance(s, ast.Raise):
            out.append(f"{ind}{self.exit.raise_(self.err_of(s))}  -- {src}")
            return
        if isinstance(s, ast.Continue):
            out.append(f"{ind}{self.exit.end()}  -- continue")
            return
        if isinstance(s, ast.Return):
            return self.ret(s, ind, out)
        if isinstance(s, ast.If):
            return self.if_(s, rest, ind, out)
        if isinstance(s, ast.For):
            return self.for_(s, rest, ind, out)
        if isinstance(s, ast.AugAssign):
            if isinstance(s.op, ast.Add) and isinstance(s.target, ast.Name):
                s2 = ast.Assign(targets=[s.target], value=ast.BinOp(left=ast.Name(id=s.target.id, ctx=ast.Load()), op=ast.Add(), right=s.value))
                ast.fix_missing_locations(s2)
                return self.assign(s2, rest, ind, out, src)
            self.bad(s)
        if isinstance(s, ast.Assign):
            return self.assign(s, rest, ind, out, src)
        if isinstance(s, ast.Expr) and isinstance(s.value, ast.Call):
            return self.call_stmt(s, rest, ind, out, src)
        self.bad(s, "statement form")

    def err_of(self, s):
        exc = s.exc.func if isinstance(s.exc, ast.Call) else s.exc
        name = U(exc) if exc is not None else ""
        if name not in ERRS:
            self.bad(s, "exception class")
        return ERRS[name]

    def assign(self, s, rest, ind, out, src):
        if len(s.targets) != 1:
            self.bad(s)
        tg = s.targets[0]
        # center = np.asarray(center)
        if isinstance(tg, ast.Name) and isinstance(s.value, ast.Call) and U(s.value.func) == "np.asarray" \
                and len(s.value.args) == 1 and not s.value.keywords and U(s.value.args[0]) == tg.id \
                and self.env.get(tg.id, (0, 0))[1] == "Centre":    # (no `dtype=` / `order=`: a cast would change the centre)
            self.asarrayed.add(tg.id)
            out.append(f"{ind}-- {src}")
            return self.block(rest, ind, out)
        if isinstance(tg, ast.Subscript) and self.is_self_attr(tg.value) and self.mode == "method" and inplace_whole(tg):
            # self._x[...] = value: for the object itself the new contents are `value` (same shape: the guard above);
            # that the *old array* is overwritten is recorded in the effect list `<setter>_eff`
            tg = tg.value
            src = src + "   [in place]"
        if self.expr_none(s.value) and self.is_self_attr(tg) and tg.attr == "_kdtree":
            e, ty, binds = "none", "Tree", []
        else:
            e, ty, binds = self.xexpr(s.value)
        self.emit_binds(binds, ind, out)
        if isinstance(tg, ast.Name):
            if ty == "EmptyList":
                # accumulator of a loop: typed by its later use
                ty = self.acc_type(tg.id, rest)
                e = f"([] : {LEAN_TY[ty]})"
            if tg.id in self.env and self.env[tg.id][1] not in (ty, "Rad"):
                self.bad(s, f"variable changes its kind from {self.env[tg.id][1]} to {ty}")
            ln = lname(tg.id)
            self.env[tg.id] = (ln, ty)
            self.origin[tg.id] = e
            if e != ln:
                out.append(f"{ind}let {ln} : {LEAN_TY[ty]} := {e}  -- {src}")
            else:
                out.append(f"{ind}-- {src}")
            return self.block(rest, ind, out)
        if self.is_self_attr(tg):
            attr = tg.attr
            if self.mode == "ctor":
                want = FIELDS[self.struct].get(attr)
                if want is None:
                    self.bad(s, "attribute not in the model structure")
                if ty != want[1]:
                    self.bad(s, f"attribute {attr} gets a value of kind {ty}, the structure holds {want[1]}")
                ln = "self" + attr
                self.ctor_attrs[attr] = (ln, ty)
                out.append(f"{ind}let {ln} : {LEAN_TY[ty]} := {e}  -- {src}")
                return self.block(rest, ind, out)
            if attr not in FIELDS[self.struct]:
                self.bad(s, "attribute not in the model structure")
            fld, want = FIELDS[self.struct][attr]
            if ty != want:
                self.bad(s, f"attribute {attr} gets a value of kind {ty}, the structure holds {want}")
            out.append(f"{ind}let self : {LEAN_TY[self.struct]} := {{ self with {fld} := {e} }}  -- {src}")
            return self.block(rest, ind, out)
        self.bad(s)

    def acc_type(self, name, rest):
        for st in rest:
            for n in ast.walk(st):
                if isinstance(n, ast.Call) and isinstance(n.func, ast.Attribute) and n.func.attr == "append" \
                        and isinstance(n.func.value, ast.Name) and n.func.value.id == name:
                    self._acc_probe = True
                    return {"local_points": "BlkPts", "local_weights": "BlkWs", "local_indices": "BlkIdx"}.get(name) or self.bad(n, "accumulator")
        self.bad(name, "empty list that is not a loop accumulator")

    def expr_none(self, e):
        return isinstance(e, ast.Constant) and e.value is None

    def xexpr_or_none(self, e):
        if self.expr_none(e):
            return "none", "Tree", []
        return self.xexpr(e)

    def call_stmt(self, s, rest, ind, out, src):
        c = s.value
        f = U(c.func)
        if f == "Grid.points.fset" and len(c.args) == 2 and U(c.args[0]) == "self" and isinstance(c.args[1], ast.Name):
            owner, fl, m = self.src.find("Grid", "points", setter=True)
            out.append(f"{ind}-- {src}   [inlined: Grid.points setter]")
            self.inline(m, {m.args.args[1].arg: c.args[1].id}, rest, ind, out)
            return
        if f == "super().__init__" and self.mode == "ctor":
            fl, m = self.src.method("Grid", "__init__")
            params = [a.arg for a in m.args.args[1:]]
            if len(c.args) != len(params) or c.keywords or not all(isinstance(a, ast.Name) for a in c.args):
                self.bad(s)
            out.append(f"{ind}-- {src}   [inlined: Grid.__init__]")
            self.inline(m, dict(zip(params, [a.id for a in c.args])), rest, ind, out)
            return
        if isinstance(c.func, ast.Attribute) and c.func.attr == "append" and isinstance(c.func.value, ast.Name) and len(c.args) == 1:
            acc = c.func.value.id
            if acc not in self.env or self.env[acc][1] not in ("BlkPts", "BlkWs", "BlkIdx"):
                self.bad(s)
            e, ty, binds = self.xexpr(c.args[0])
            want = {"BlkPts": "Pts", "BlkWs": "Ws", "BlkIdx": "Idx"}[self.env[acc][1]]
            if ty != want:
                self.bad(s, f"appending a value of kind {ty} to {acc}")
            self.emit_binds(binds, ind, out)
            ln = self.env[acc][0]
            out.append(f"{ind}let {ln} : {LEAN_TY[self.env[acc][1]]} := {ln} ++ [{e}]  -- {src}")
            return self.block(rest, ind, out)
        self.bad(s, "call statement")

    def inline(self, m, argmap, rest, ind, out):
        """Inline the body of another method (arguments are plain names); `rest` follows.  Only
        straight-line guards and assignments are carried."""
        for p, a in argmap.items():
            if p != a:
                if p in self.env:
                    self.bad(m, f"parameter name {p} of the inlined method is in use")
                self.env[p] = self.env[a]
        body = [s for s in m.body if not is_doc(s)]
        for s in body:
            if not isinstance(s, (ast.If, ast.Assign)):
                self.bad(s, "statement form in an inlined method")
            if isinstance(s, ast.If) and not (len(s.body) == 1 and isinstance(s.body[0], ast.Raise) and not s.orelse):
                self.bad(s, "only guards are carried in an inlined method")
        self.block(body + rest, ind, out)

    def if_(self, s, rest, ind, out):
        src = "if " + U(s.test) + ":"
        pinned = self.pinned_guard(s)
        if pinned is not None:
            out.append(f"{ind}-- {norm(s).splitlines()[0]} raise …   ({pinned})")
            return self.block(rest, ind, out)
        body, orelse = s.body, s.orelse
        # value-if: every branch is one pure assignment to the same variable
        vi = self.value_if(s)
        if vi is not None:
            name, text, ty, is_attr = vi
            if is_attr:
                fake = ast.Assign(targets=[ast.Attribute(value=ast.Name(id="self", ctx=ast.Load()), attr=name, ctx=ast.Store())],
                                  value=ast.Name(id="__vi__", ctx=ast.Load()))
                self.env["__vi__"] = (text, ty)
                ast.fix_missing_locations(fake)
                r = self.assign(fake, rest, ind, out, norm(s).replace("\n", " ")[:150])
                return r
            if name in self.env and self.env[name][1] != ty:
                self.bad(s, "variable changes its kind")
            ln = lname(name)
            self.env[name] = (ln, ty)
            out.append(f"{ind}let {ln} : {LEAN_TY[ty]} :=  -- {norm(s).replace(chr(10), ' ')[:170]}")
            out.append(f"{ind}  {text}")
            return self.block(rest, ind, out)
        c, fact = self.cond(s.test)
        if len(body) == 1 and isinstance(body[0], ast.Raise) and not orelse:
            out.append(f"{ind}if {c} then {self.exit.raise_(self.err_of(body[0]))} else  -- {src} raise {U(body[0].exc.func if isinstance(body[0].exc, ast.Call) else body[0].exc)}")
            return self.block(rest, ind, out)
        tb, te = self.terminates(body), self.terminates(orelse)
        need_join = (not tb) and (not te) and bool([x for x in rest if not is_doc(x)])
        env0, fact0, attrs0 = dict(self.env), self.oned_fact, dict(self.ctor_attrs)
        if need_join:
            vars_ = [v for v in self.assigned(body) + [x for x in self.assigned(orelse) if x not in self.assigned(body)]]
            # only variables that exist before the `if` or are assigned in both branches can be joined
            joined = []
            for v in vars_:
                if v == "self" or v.startswith("self."):
                    joined.append(v)
                elif v in env0:
                    joined.append(v)
                elif v in self.assigned(body) and v in self.assigned(orelse):
                    joined.append(v)
                elif self.used_later(v, rest):
                    self.bad(s, f"variable {v} is assigned in one branch only and used afterwards")
            self.njoin += 1
            k = f"k{self.njoin}"
            # types of the joined variables: translate the branches once into scratch to learn them
            types = self.join_types(s, joined, env0, attrs0)
            params = " ".join(f"({self.join_lean(v)} : {LEAN_TY[t]})" for v, t in zip(joined, types))
            out.append(f"{ind}let {k} := fun {params} =>  -- (the statements after this `if`)")
            for v, t in zip(joined, types):
                if not (v == "self" or v.startswith("self.")):
                    self.env[v] = (lname(v), t)
                elif v.startswith("self."):
                    self.ctor_attrs[v[5:]] = ("self" + v[5:], t)
            self.block(rest, ind + "  ", out)
            callk = f"{k} " + " ".join(self.join_lean(v) for v in joined)
            self.env, self.ctor_attrs = dict(env0), dict(attrs0)
            out.append(f"{ind}if {c} then  -- {src}")
            self.oned_fact = fact if fact is not None else fact0
            self.block_then(body, callk, ind + "  ", out)
            self.env, self.ctor_attrs, self.oned_fact = dict(env0), dict(attrs0), (False if fact else fact0)
            out.append(f"{ind}else")
            self.block_then(orelse, callk, ind + "  ", out)
            self.oned_fact = fact0
            return
        out.append(f"{ind}if {c} then  -- {src}")
        self.oned_fact = fact if fact is not None else fact0
        self.block(body + ([] if tb else rest), ind + "  ", out)
        self.env, self.ctor_attrs, self.oned_fact = dict(env0), dict(attrs0), (False if fact else fact0)
        out.append(f"{ind}else")
        self.block(orelse + ([] if te else rest), ind + "  ", out)
        self.oned_fact = fact0

    def join_lean(self, v):
        if v == "self":
            return "self"
        if v.startswith("self."):
            return "self" + v[5:]
        return lname(v)

    def join_types(self, s, joined, env0, attrs0):
        scratch = []
        types = {}
        for blk, f in ((s.body, True), (s.orelse, False)):
            sub = copy.copy(self)
            sub.env, sub.ctor_attrs = dict(env0), dict(attrs0)
            sub.exit = _Probe(self.exit)
            c, fact = self.cond(s.test)
            sub.oned_fact = (fact if f else (False if fact else self.oned_fact)) if fact is not None else self.oned_fact
            try:
                sub.block_then(list(blk), "PROBE", "", scratch)
            except Unsupported:
                raise
            for v in joined:
                if v == "self":
                    types[v] = self.struct
                elif v.startswith("self."):
                    if v[5:] in sub.ctor_attrs:
                        types[v] = sub.ctor_attrs[v[5:]][1]
                elif v in sub.env:
                    types[v] = sub.env[v][1]
            self.ntmp = max(self.ntmp, sub.ntmp)
        missing = [v for v in joined if v not in types]
        if missing:
            self.bad(s, f"cannot type {missing}")
        return [types[v] for v in joined]

    def block_then(self, stmts, tail, ind, out):
        """Translate a branch that falls through to the join point call `tail`."""
        saved_end = self.exit
        self.exit = _Tail(saved_end, tail)
        try:
            self.block(list(stmts), ind, out)
        finally:
            self.exit = saved_end

    def value_if(self, s):
        """if/elif/else whose branches each assign one pure expression to the same target
        -> (name, lean if-expression, type, is_attribute) or None"""
        chain = []
        cur = s
        while True:
            chain.append((cur.test, cur.body))
            if len(cur.orelse) == 1 and isinstance(cur.orelse[0], ast.If):
                cur = cur.orelse[0]
                continue
            if not cur.orelse:
                return None
            chain.append((None, cur.orelse))
            break
        targets = set()
        for _, body in chain:
            b = [x for x in body if not is_doc(x)]
            if self.is_svd_block(b) or self.cross_block(b) is not None:
                targets.add("recivecs")
                continue
            if len(b) != 1 or not isinstance(b[0], ast.Assign) or len(b[0].targets) != 1:
                return None
            t = b[0].targets[0]
            if isinstance(t, ast.Name):
                targets.add(t.id)
            elif self.is_self_attr(t):
                targets.add("self." + t.attr)
            else:
                return None
        if len(targets) != 1:
            return None
        name = targets.pop()
        fact0 = self.oned_fact
        pieces, ty0 = [], None
        known = fact0
        for test, body in chain:
            b = [x for x in body if not is_doc(x)]
            fact = None
            if test is not None:
                c, fact = self.cond(test)
                # `A and X.ndim == 1`: the fact holds in the branch only
                self.oned_fact = True if fact else known
            else:
                c = None
                self.oned_fact = known
            if self.is_svd_block(b):
                if "reciParam" not in self.env:
                    self.bad(b[0], "SVD pseudo-inverse outside the constructor")
                e, ty, binds = "reciParam", "Lat", []
            elif self.cross_block(b) is not None:
                # (round 6) reciprocal vectors of a 3 x 3 cell by cross products, the volume signed or its absolute value
                x, tx, bx = self.expr(ast.Name(id="realvecs", ctx=ast.Load()))
                if tx != "Lat" or bx:
                    self.bad(b[0], "cross-product reciprocal vectors of something that is not the lattice")
                e, ty, binds = f"npCrossReci {'true' if self.cross_block(b) else 'false'} {x}", "Lat", []
            else:
                e, ty, binds = self.xexpr(b[0].value)
            if binds:
                self.oned_fact = fact0
                return None
            pieces.append((c, e, ty, self.oned_fact is True))
            # after a failed plain `X.ndim == 1` test the array is known not to be 1-D
            if test is not None and fact and isinstance(test, ast.Compare):
                known = False
        self.oned_fact = fact0
        kinds = {ty for _, _, ty, _ in pieces}
        ty0 = pieces[0][2]
        if kinds == {"Lat", "KVec"}:
            # a 1-D lattice array of shape (1,) also serves as a per-lattice-vector array: its entries
            ty0 = "KVec"
            fixed = []
            for c, e, ty, one in pieces:
                if ty == "Lat":
                    if not one:
                        self.bad(s, "a lattice array is used as a per-lattice-vector array outside the 1-D branch")
                    e = f"List.flatten {self.paren(e)}"
                fixed.append((c, e, "KVec", one))
            pieces = fixed
        elif len(kinds) != 1:
            self.bad(s, f"branches give values of different kinds ({sorted(kinds)})")
        text = ""
        for c, e, _, _ in pieces:
            text += (f"if {c} then {e} else " if c is not None else e)
        if name.startswith("self."):
            return name[5:], "(" + text + ")", ty0, True
        return name, text, ty0, False

    SVD = [
        "rcond = np.finfo(realvecs.dtype).eps * max(realvecs.shape)",
        "U, S, Vt = np.linalg.svd(realvecs, full_matrices=False)",
        "if abs(S).max() * rcond > abs(S).min():\n    raise ValueError",
        "recivecs = np.einsum('ij,j,jk', U, 1 / S, Vt)",
    ]

    CROSS = [
        "crosses = np.cross(realvecs[[1, 2, 0]], realvecs[[2, 0, 1]])",
        None,       # volume = [abs(]np.dot(realvecs[0], crosses[0])[)]
        "rcond = np.finfo(realvecs.dtype).eps * 3",
        "if volume <= rcond * np.prod(np.linalg.norm(realvecs, axis=1)):\n    raise ValueError",
        "recivecs = crosses / volume",
    ]

    def cross_block(self, b):
        """`b_i = (a_j x a_k) / V` for a 3 x 3 cell -> True (V = abs(triple product)) / False (signed V) / None (another block)"""
        t = [norm(x) for x in b]
        if len(t) != 5 or any(w is not None and w != g for w, g in zip(self.CROSS, t)):
            return None
        if t[1] == "volume = abs(np.dot(realvecs[0], crosses[0]))":
            return True
        if t[1] == "volume = np.dot(realvecs[0], crosses[0])":
            return False
        return None

    def is_svd_block(self, b):
        return [norm(x) for x in b] == self.SVD

    def pinned_guard(self, s):
        """Guards that cannot be expressed on the row-list representation (pinned text)."""
        pins = {
            "if weights.ndim != 1:\n    raise ValueError": "weights travel as a list: always 1-D",
            "if points.ndim not in [1, 2]:\n    raise ValueError": "points travel as rows: 1-D or 2-D",
        }
        return pins.get(norm(s))

    def ret(self, s, ind, out):
        v = s.value
        src = norm(s).replace("\n", " ")
        if v is None:
            self.bad(s, "early return")
        if not isinstance(v, ast.Call):
            self.bad(s)
        f = U(v.func)
        if f == "LocalGrid":
            fl, m = self.src.method("LocalGrid", "__init__")
            params = [a.arg for a in m.args.args[1:]]
            if params != ["points", "weights", "center", "indices"]:
                self.bad(m, "LocalGrid.__init__ signature")
            args = dict(zip(params, v.args))
            for k in v.keywords:
                args[k.arg] = k.value
            if set(args) != set(params):
                self.bad(s, "LocalGrid arguments")
            allb, txt = [], {}
            for p, want in (("points", "Pts"), ("weights", "Ws"), ("indices", "Idx")):
                e, ty, b = self.xexpr(args[p])
                if ty != want:
                    self.bad(s, f"LocalGrid argument {p} of kind {ty}")
                allb += b
                txt[p] = self.paren(e)
            c = args["center"]
            if not (isinstance(c, ast.Name) and c.id in self.asarrayed):
                self.bad(s, "LocalGrid center is not the query centre")
            self.emit_binds(allb, ind, out)
            out.append(f"{ind}{self.exit.out('Out.localGrid ' + txt['indices'] + ' ' + txt['points'] + ' ' + txt['weights'])}  -- {src[:150]}")
            return
        if f == "self.__class__" and self.cls == "Grid" and len(v.args) == 2 and not v.keywords:
            allb, tx = [], []
            for a, want in zip(v.args, ("Pts", "Ws")):
                e, ty, b = self.xexpr(a)
                if ty != want:
                    self.bad(s)
                allb += b
                tx.append(self.paren(e))
            self.emit_binds(allb, ind, out)
            out.append(f"{ind}{self.exit.out('pySelfClass self ' + ' '.join(tx))}  -- {src[:150]}")
            return
        if f == "OneDGrid" and len(v.args) == 3 and not v.keywords:
            fl, m = self.src.method("OneDGrid", "__init__")
            if [a.arg for a in m.args.args[1:]] != ["points", "weights", "domain"]:
                self.bad(m, "OneDGrid.__init__ signature")
            allb, tx = [], []
            for a, want in zip(v.args, ("Pts", "Ws", "Dom")):
                e, ty, b = self.xexpr(a)
                if ty != want:
                    self.bad(s)
                allb += b
                tx.append(self.paren(e))
            self.emit_binds(allb, ind, out)
            out.append(f"{ind}{self.exit.out('pyOneDGrid ' + ' '.join(tx))}  -- {src[:150]}")
            return
        if f == "self.__class__" and self.cls == "PeriodicGrid":
            fl, m = self.src.method("PeriodicGrid", "__init__")
            params = [a.arg for a in m.args.args[1:]]
            defaults = dict(zip(params[len(params) - len(m.args.defaults):], m.args.defaults))
            if params != ["points", "weights", "realvecs", "wrap"]:
                self.bad(m, "PeriodicGrid.__init__ signature")
            args = dict(zip(params, v.args))
            for k in v.keywords:
                args[k.arg] = k.value
            for p in params:
                if p not in args:
                    if p not in defaults:
                        self.bad(s, f"argument {p} missing")
                    args[p] = defaults[p]
            allb, tx = [], {}
            for p, want in (("points", "Pts"), ("weights", "Ws")):
                e, ty, b = self.xexpr(args[p])
                if ty != want:
                    self.bad(s)
                allb += b
                tx[p] = self.paren(e)
            if U(args["realvecs"]) not in ("self.realvecs", "self._realvecs"):
                self.bad(s, "the selection must be built on the lattice of the parent (reciprocal vectors = those of the parent)")
            self.self_attr("realvecs", args["realvecs"])
            w = args["wrap"]
            if not (isinstance(w, ast.Constant) and isinstance(w.value, bool)):
                self.bad(s, "wrap argument")
            self.emit_binds(allb, ind, out)
            out.append(f"{ind}PeriodicGrid_init self.oned self.dim {tx['points']} {tx['weights']} self.realvecs self.recivecs "
                       f"{'true' if w.value else 'false'}  -- {src[:150]}; wrap={w.value} "
                       "(reciprocal vectors of the same lattice: those of the parent)")
            return
        self.bad(s, "return value")

    def for_(self, s, rest, ind, out):
        if s.orelse or not isinstance(s.target, ast.Name):
            self.bad(s)
        it, tit, bit = self.xexpr(s.iter)
        if tit != "Ilcs":
            self.bad(s, "loop over something that is not the product of the integer ranges")
        self.emit_binds(bit, ind, out)
        accs = [v for v in self.assigned(s.body) if v in self.env and self.env[v][1] in ("BlkPts", "BlkWs", "BlkIdx")]
        others = [v for v in self.assigned(s.body) if v not in accs and (v in self.env or self.used_later(v, rest))]
        if others or "self" in self.assigned(s.body):
            self.bad(s, f"loop body assigns {others} besides its accumulators")
        acc_ty = " × ".join(LEAN_TY[self.env[v][1]] for v in accs)
        # free variables of the body
        used = []
        for n in ast.walk(ast.Module(body=s.body, type_ignores=[])):
            if isinstance(n, ast.Name) and n.id in self.env and n.id not in accs and n.id != s.target.id and n.id not in used:
                used.append(n.id)
        for v in used:
            if self.env[v][1] == "Rad":
                self.bad(s, "radius reaches the loop before entering arithmetic")
        params = "(self : " + LEAN_TY[self.struct] + ") " + " ".join(f"({self.env[v][0]} : {LEAN_TY[self.env[v][1]]})" for v in used)
        body_name = f"{self.fname}_body"
        sub = copy.copy(self)
        sub.env = dict(self.env)
        sub.env[s.target.id] = (lname(s.target.id), "Ilc")
        sub.exit = LoopExit(acc_ty, [self.env[v][0] for v in accs])
        sub.extra_defs = []
        lines = []
        for i, v in enumerate(accs):
            proj = "acc" + "".join([".2"] * i) + (".1" if i < len(accs) - 1 else "")
            lines.append(f"  let {self.env[v][0]} : {LEAN_TY[self.env[v][1]]} := {proj}")
        sub.block(list(s.body), "  ", lines)
        self.ntmp = max(self.ntmp, sub.ntmp)
        d = [f"/-- Body of the loop `for {U(s.target)} in {U(s.iter)}` of `{self.where}`: the accumulators",
             f"`({', '.join(accs)})` after one more iteration. -/",
             f"def {body_name} {params} (acc : {acc_ty}) ({lname(s.target.id)} : List Int) :",
             f"    {sub.exit.ret_ty} :=",
             ] + lines
        self.extra_defs.append("\n".join(d))
        args = "self " + " ".join(self.env[v][0] for v in used)
        init = "(" + ", ".join(self.env[v][0] for v in accs) + ")"
        out.append(f"{ind}pyOptExcept (pyFor ({body_name} {args}) {self.paren(it)} {init}) none (fun e => {self.exit.raise_('e')}) fun acc =>  -- for {U(s.target)} in {U(s.iter)}: …")
        for i, v in enumerate(accs):
            proj = "acc" + "".join([".2"] * i) + (".1" if i < len(accs) - 1 else "")
            out.append(f"{ind}let {self.env[v][0]} : {LEAN_TY[self.env[v][1]]} := {proj}")
        return self.block(rest, ind, out)


class _Tail:
    """Exit of a branch that falls through to a join point."""

    def __init__(self, base, tail):
        self.base, self.tail = base, tail
        self.ret_ty = base.ret_ty

    def raise_(self, err):
        return self.base.raise_(err)

    def out(self, text):
        return self.base.out(text)

    def end(self):
        return self.tail


class _Probe(_Tail):
    def __init__(self, base):
        super().__init__(base, "PROBE")


# ----------------------------------------------------------------------------------------------
# special statements
# ----------------------------------------------------------------------------------------------
def centre_guard(fn: Fn, s):
    """`if center.shape != <own points>.shape[1:]: raise ValueError` after `center = np.asarray(center)`."""
    if not (isinstance(s, ast.If) and len(s.body) == 1 and isinstance(s.body[0], ast.Raise) and not s.orelse):
        return None
    t = s.test
    if not (isinstance(t, ast.Compare) and isinstance(t.ops[0], ast.NotEq) and isinstance(t.left, ast.Attribute)
            and t.left.attr == "shape" and isinstance(t.left.value, ast.Name) and t.left.value.id in fn.asarrayed):
        return None
    r = t.comparators[0]
    if not (isinstance(r, ast.Subscript) and U(r.slice) == "1:" and isinstance(r.value, ast.Attribute)
            and r.value.attr == "shape" and fn.own_points(r.value.value)):
        return None
    return t.left.value.id, fn.err_of(s.body[0])


_orig_block = Fn.block


def _block(self, stmts, ind, out):
    stmts = [s for s in stmts if not is_doc(s)]
    if stmts:
        g = centre_guard(self, stmts[0])
        if g is not None:
            name, err = g
            ns = "LocalGrid" if self.struct == "State" else "Periodic"
            ln = self.env[name][0]
            out.append(f"{ind}pyOpt ({ns}.centreOf self {ln}) ({self.exit.raise_(err)}) fun {ln} =>  -- {norm(stmts[0]).splitlines()[0]} raise ValueError")
            self.env[name] = (ln, "Pt")
            return _orig_block(self, stmts[1:], ind, out)
    return _orig_block(self, stmts, ind, out)


Fn.block = _block


# ----------------------------------------------------------------------------------------------
# the constructor prelude of PeriodicGrid (shape logic that the row-list form cannot express)
# ----------------------------------------------------------------------------------------------
CTOR_PRELUDE = [
    "if realvecs is None:\n    realvecs = np.zeros((0,) + points.shape[1:])",
    "if points.ndim != realvecs.ndim:\n    raise ValueError",
    "if points.shape[1:] != realvecs.shape[1:]:\n    raise ValueError",
    "ncellvec = 1 if realvecs.ndim == 1 else realvecs.shape[0]",
    "npointdim = 1 if points.ndim == 1 else points.shape[1]",
    "if ncellvec > npointdim:\n    raise ValueError",
]
CTOR_PRELUDE_LEAN = [
    "  -- (row-list form: a 1-D point array has one column)",
    "  if oned = true ∧ dim ≠ 1 then some (Except.error Err.valueError) else",
    "  -- if realvecs is None: realvecs = np.zeros((0,) + points.shape[1:])   (`None` travels as the empty list)",
    "  -- if points.ndim != realvecs.ndim: raise ValueError   (lattice vectors travel as rows: not representable)",
    "  if ¬ realvecs.all (fun a => a.length == dim) = true then some (Except.error Err.valueError) else  -- if points.shape[1:] != realvecs.shape[1:]: raise ValueError",
    "  -- ncellvec = 1 if realvecs.ndim == 1 else realvecs.shape[0]; npointdim = 1 if points.ndim == 1 else points.shape[1]",
    "  if realvecs.length > dim then some (Except.error Err.valueError) else  -- if ncellvec > npointdim: raise ValueError",
    "  -- (row-list form: every point has `dim` entries)",
    "  if ¬ points.all (fun p => p.length == dim) = true then some (Except.error Err.valueError) else",
]

VARS = ("variable {K : Type} [Add K] [Sub K] [Mul K] [Div K] [Neg K] [NatCast K] [IntCast K] [Elem K] [FloorCeil K]\n"
        "variable [LE K] [DecidableLE K] [LT K] [DecidableLT K]\n")


def doc(cls, m, f, what):
    return f"/-- `{cls}.{m.name}`{what} (src/grid/{f}, line {m.lineno}). -/"


def translate_method(src, cls, name, struct, params, setter=False, what="", lean_name=None):
    """params: list of (python name, type); -> lean text of the definition(s)"""
    owner, f, m = src.find(cls, name, setter)
    where = f"{owner}.{name}" + (" (setter)" if setter else "")
    fn = Fn(src, cls, struct, "method", MethodExit(struct), where)
    pyparams = [a.arg for a in m.args.args[1:]]
    if pyparams != [p for p, _ in params]:
        raise Unsupported(f"{where}: parameters {pyparams}, expected {[p for p, _ in params]}")
    if m.args.defaults or m.args.kwonlyargs or m.args.vararg or m.args.kwarg:
        raise Unsupported(f"{where}: signature")
    sig = [f"(self : {LEAN_TY[struct]})"]
    for p, ty in params:
        fn.env[p] = (lname(p), ty)
        if ty == "Pts":
            sig.append("(oned : Bool) (dim : Nat)")
            fn.env["oned"] = ("oned", "Bool")
        sig.append(f"({lname(p)} : {LEAN_TY[ty]})")
    lean_name = lean_name or f"{cls}_{name.strip('_')}" + ("_set" if setter else "")
    fn.fname = lean_name
    lines = []
    fn.block(list(m.body), "  ", lines)
    head = [doc(owner, m, f, what), f"def {lean_name} {' '.join(sig)} :", f"    {fn.exit.ret_ty} :="]
    return "\n\n".join(fn.extra_defs + ["\n".join(head + lines)] + tree_args_def(fn, lean_name, where))


def _fraction(txt, where, what):
    from fractions import Fraction
    try:
        q = Fraction(txt)
    except (ValueError, TypeError):
        raise Unsupported(f"{where}: {what}={txt}: not a number") from None
    if q < 0:
        raise Unsupported(f"{where}: {what}={txt}: negative")
    return q


def tree_args_def(fn, lean_name, where):
    """The keyword arguments of `cKDTree(...)` and `.query_ball_point(...)` of a method, with the defaults of the
    installed SciPy filled in (read from its signatures), as a `TreeArgs` constant."""
    a = fn.tree_args
    if not a:
        return []
    need = ("cKDTree.leafsize", "cKDTree.boxsize", "query_ball_point.p", "query_ball_point.eps", "query_ball_point.return_length")
    miss = [k for k in need if k not in a]
    if miss:
        raise Unsupported(f"{where}: the neighbour search is not one cKDTree(...) with one query_ball_point(...) (missing {miss})")
    try:
        leafsize = int(a["cKDTree.leafsize"])
    except ValueError:
        raise Unsupported(f"{where}: leafsize={a['cKDTree.leafsize']}") from None
    if leafsize < 0 or a["cKDTree.leafsize"] in ("True", "False"):
        raise Unsupported(f"{where}: leafsize={a['cKDTree.leafsize']}")
    if a["query_ball_point.return_length"] != "False":
        raise Unsupported(f"{where}: return_length={a['query_ball_point.return_length']}: the query returns counts, not positions")
    p = _fraction(a["query_ball_point.p"], where, "p")
    eps = _fraction(a["query_ball_point.eps"], where, "eps")
    src = ", ".join(f"{k.split('.')[1]}={a[k]}" for k in sorted(a))
    return [f"/-- Keyword arguments of the neighbour search of `{where}` (`cKDTree(...)`, `.query_ball_point(...)`), the defaults\n"
            f"of the installed SciPy filled in from its signatures: {src}. -/\n"
            f"def {lean_name}_tree_args : TreeArgs :=\n"
            f"  {{ leafsize := {leafsize}, boxsizeNone := {'true' if a['cKDTree.boxsize'] == 'None' else 'false'}, "
            f"pNum := {p.numerator}, pDen := {p.denominator}, epsNum := {eps.numerator}, epsDen := {eps.denominator} }}"]


def translate_getitem_periodic(src):
    owner, f, m = src.find("PeriodicGrid", "__getitem__")
    if owner != "PeriodicGrid":
        raise Unsupported("PeriodicGrid.__getitem__ is inherited: the base method builds `self.__class__(points, weights)` without the lattice")
    fn = Fn(src, "PeriodicGrid", "PGrid", "method", CtorExit(), "PeriodicGrid.__getitem__")
    if [a.arg for a in m.args.args[1:]] != ["index"]:
        raise Unsupported("PeriodicGrid.__getitem__: parameters")
    fn.env["index"] = ("index", "Index")
    fn.fname = "PeriodicGrid_getitem"
    lines = []
    fn.block(list(m.body), "  ", lines)
    head = [doc(owner, m, f, ": the selected points and weights handed to the constructor of the same class with the same lattice"),
            "def PeriodicGrid_getitem (self : PGrid K) (index : Index) :", f"    {fn.exit.ret_ty} :="]
    return "\n".join(head + lines)


def translate_ctor(src):
    f, m = src.method("PeriodicGrid", "__init__")
    where = "PeriodicGrid.__init__"
    params = [a.arg for a in m.args.args[1:]]
    if params != ["points", "weights", "realvecs", "wrap"]:
        raise Unsupported(f"{where}: parameters {params}")
    dfl = [U(d) for d in m.args.defaults]
    if dfl != ["None", "False"]:
        raise Unsupported(f"{where}: defaults {dfl} (expected realvecs=None, wrap=False)")
    body = [s for s in m.body if not is_doc(s)]
    pre = body[:len(CTOR_PRELUDE)]
    if [norm(s) for s in pre] != CTOR_PRELUDE:
        got = [norm(s) for s in pre]
        diff = [g for g, w in zip(got, CTOR_PRELUDE) if g != w]
        raise Unsupported(f"{where}: the shape checks at the head of the constructor changed: {diff[:2]}")
    fn = Fn(src, "PeriodicGrid", "PGrid", "ctor", CtorExit(), where)
    fn.fname = "PeriodicGrid_init"
    fn.env = {"points": ("points", "Pts"), "weights": ("weights", "Ws"), "realvecs": ("realvecs", "Lat"),
              "wrap": ("wrap", "Bool"), "oned": ("oned", "Bool"), "reciParam": ("reciParam", "Lat")}
    lines = list(CTOR_PRELUDE_LEAN)

    class End(CtorExit):
        def end(self_inner):
            need = ["_points", "_weights", "_realvecs", "_recivecs", "_spacings", "_frac_intvls", "_kdtree"]
            miss = [a for a in need if a not in fn.ctor_attrs]
            if miss:
                raise Unsupported(f"{where}: attributes {miss} are never assigned")
            g = fn.ctor_attrs
            return ("some (Except.ok { oned := oned, dim := dim, points := " + g["_points"][0] + ", weights := " + g["_weights"][0]
                    + ", realvecs := " + g["_realvecs"][0] + ", recivecs := " + g["_recivecs"][0] + ", spacings := " + g["_spacings"][0]
                    + ", fracIntvls := " + g["_frac_intvls"][0] + ", tree := " + g["_kdtree"][0] + " })")
    fn.exit = End()
    fn.block(body[len(CTOR_PRELUDE):], "  ", lines)
    head = [doc("PeriodicGrid", m, f, ": reciprocal vectors (`reciParam` = the SVD pseudo-inverse, a named primitive), plane spacings, "
                "fractional coordinates, optional wrapping, intervals; `Grid.__init__` inlined"),
            "def PeriodicGrid_init (oned : Bool) (dim : Nat) (points : List (Point K)) (weights : List K)",
            "    (realvecs reciParam : List (Point K)) (wrap : Bool) :", f"    {fn.exit.ret_ty} :="]
    return "\n".join(head + lines)


def effects(src, cls, name):
    """Effect summary of a setter: the guards and the attribute assignments in order."""
    owner, f, m = src.find(cls, name, setter=True)
    out = []

    def walk(stmts, pre):
        for s in stmts:
            if is_doc(s):
                continue
            if isinstance(s, ast.If) and len(s.body) == 1 and isinstance(s.body[0], ast.Raise) and not s.orelse:
                out.append(("raise " + U(s.body[0].exc.func if isinstance(s.body[0].exc, ast.Call) else s.body[0].exc) + " if", pre + U(s.test)))
            elif isinstance(s, ast.If):
                walk(s.body, pre + f"[{U(s.test)}] ")
                walk(s.orelse, pre + f"[not ({U(s.test)})] ")
            elif isinstance(s, ast.Assign):
                out.append((U(s.targets[0]), pre + U(s.value)))
            elif isinstance(s, ast.Expr) and isinstance(s.value, ast.Call):
                out.append(("call", pre + U(s.value)))
            elif isinstance(s, ast.Return):
                out.append(("return", pre + (U(s.value) if s.value else "")))
            else:
                raise Unsupported(f"{owner}.{name} (setter): statement `{U(s)[:80]}`")
    walk(m.body, "")
    return out


def inplace_whole(tg):
    """`x[...]` / `x[:]` as an assignment target: the whole array is overwritten."""
    sl = tg.slice
    return (isinstance(sl, ast.Constant) and sl.value is Ellipsis) or \
        (isinstance(sl, ast.Slice) and sl.lower is None and sl.upper is None and sl.step is None)


def eff_list(src, cls, name):
    """The array effects of a setter in source order (`Model/LocalGridEff.lean`): guards, attribute rebinds, and
    write-through assignments (`self._x[...] = v`, `self._x[:] = v`, `self._x += v`, `np.copyto(self._x, v)`)."""
    owner, f, m = src.find(cls, name, setter=True)
    out = []

    def is_self(n):
        return isinstance(n, ast.Attribute) and isinstance(n.value, ast.Name) and n.value.id == "self"
    for s in m.body:
        if is_doc(s):
            continue
        if isinstance(s, ast.If) and len(s.body) == 1 and isinstance(s.body[0], ast.Raise) and not s.orelse:
            out.append(".guard")
        elif isinstance(s, ast.Assign) and len(s.targets) == 1 and is_self(s.targets[0]) and isinstance(s.value, ast.Name):
            out.append(f'.rebind "{s.targets[0].attr}" "{s.value.id}"')
        elif isinstance(s, ast.Assign) and len(s.targets) == 1 and is_self(s.targets[0]) and isinstance(s.value, ast.Constant) \
                and s.value.value is None:
            out.append(f'.rebindNone "{s.targets[0].attr}"')
        elif isinstance(s, ast.Assign) and len(s.targets) == 1 and isinstance(s.targets[0], ast.Subscript) \
                and is_self(s.targets[0].value) and isinstance(s.value, ast.Name):
            out.append(f'.write "{s.targets[0].value.attr}" "{s.value.id}"')
        elif isinstance(s, ast.AugAssign) and (is_self(s.target) or (isinstance(s.target, ast.Subscript) and is_self(s.target.value))) \
                and isinstance(s.value, ast.Name):
            t = s.target if is_self(s.target) else s.target.value
            out.append(f'.write "{t.attr}" "{s.value.id}"')
        elif isinstance(s, ast.Expr) and isinstance(s.value, ast.Call) and U(s.value.func) == "np.copyto" and len(s.value.args) == 2 \
                and is_self(s.value.args[0]) and isinstance(s.value.args[1], ast.Name):
            out.append(f'.write "{s.value.args[0].attr}" "{s.value.args[1].id}"')
        else:
            raise Unsupported(f"{owner}.{name} (setter): array effect of `{U(s)[:80]}` is not carried")
    return out


def lean_str(s):
    return '"' + s.replace("\\", "\\\\").replace('"', '\\"') + '"'


def render(src_dir=None) -> str:
    src = Source(src_dir or SRC)
    parts = [HEADER.format(name="localgrid", source="src/grid/basegrid.py (Grid, OneDGrid: setters, get_localgrid, __getitem__), "
                           "src/grid/periodicgrid.py (PeriodicGrid: __init__, points setter, __getitem__, get_localgrid)")]
    parts.append("import GridVerif.Model.LocalGridPy\nimport GridVerif.Model.LocalGridEff\n\nset_option linter.unusedVariables false\n\n"
                 "namespace GridVerif.Gen.LocalGrid\nopen GridVerif GridVerif.LocalGrid GridVerif.Periodic GridVerif.LocalGridPy\n")
    for cls, nm in (("Grid", "points"), ("Grid", "weights"), ("PeriodicGrid", "points")):
        eff = effects(src, cls, nm)
        parts.append(f"/-- Effect summary of the `{cls}.{nm}` setter: guards and assignments in source order. -/\n"
                     f"def {cls}_{nm}_set_effects : List (String × String) :=\n  ["
                     + ",\n   ".join(f"({lean_str(a)}, {lean_str(b)})" for a, b in eff) + "]\n")
    for cls, nm in (("Grid", "points"), ("Grid", "weights")):
        parts.append(f"/-- Array effects of the `{cls}.{nm}` setter in source order (rebinds and write-through assignments). -/\n"
                     f"def {cls}_{nm}_set_eff : List LocalGridEff.Eff :=\n  [" + ", ".join(eff_list(src, cls, nm)) + "]\n")
    parts.append("section\n" + VARS)
    parts.append(translate_method(src, "Grid", "points", "State", [("value", "Pts")], setter=True,
                                  what=" setter: shape guard, new points, the neighbour tree is dropped"))
    parts.append(translate_method(src, "Grid", "weights", "State", [("value", "Ws")], setter=True, what=" setter"))
    parts.append(translate_method(src, "Grid", "get_localgrid", "State", [("center", "Centre"), ("radius", "Rad")],
                                  what=": guards, the `radius == np.inf` branch, the lazily built tree, the ball query, the slicing"))
    parts.append(translate_method(src, "Grid", "__getitem__", "State", [("index", "Index")],
                                  what=": integer branch and array branch, what is handed to the constructor"))
    parts.append(translate_method(src, "OneDGrid", "__getitem__", "State", [("index", "Index")],
                                  what=": as `Grid.__getitem__`, the domain is passed on"))
    parts.append(translate_ctor(src))
    parts.append(translate_method(src, "PeriodicGrid", "points", "PGrid", [("value", "Pts")], setter=True,
                                  what=" setter: base setter, then the intervals of the fractional coordinates of the new points"))
    parts.append(translate_method(src, "PeriodicGrid", "weights", "PGrid", [("value", "Ws")], setter=True,
                                  what=" setter (inherited from `Grid`)"))
    parts.append(translate_getitem_periodic(src))
    parts.append(translate_method(src, "PeriodicGrid", "get_localgrid", "PGrid", [("center", "Centre"), ("radius", "Rad")],
                                  what=": guards, fractional centre, integer ranges (ceil/floor), lazily built tree, loop over the "
                                       "product of the ranges, empty-result branch, concatenation"))
    parts.append("end\n\nend GridVerif.Gen.LocalGrid\n")
    return "\n\n".join(parts).replace("\n\n\n", "\n\n")


def generate():
    return write_if_changed("LocalGrid.lean", render())


# ----------------------------------------------------------------------------------------------
# development aid: check the theorems against the translation of ANOTHER source tree without
# touching the shared Gen file (used for the detection tests:  python -m harness.translate.localgrid
# --scratch /var/tmp/gv-x/src/grid)
# ----------------------------------------------------------------------------------------------
def scratch_check(src_dir, scratch="/var/tmp/gv-localgrid-scratch"):
    """-> (status, detail): 'translator-raises' | 'proofs-break' | 'ok' (+ 'text-same'/'text-differs')"""
    import re
    import subprocess
    from pathlib import Path
    from ..common import LEAN
    try:
        text = render(Path(src_dir))
    except Unsupported as e:
        return "translator-raises", str(e)
    same = text == render()

    def body(t):
        return "\n".join(l for l in t.splitlines() if not l.startswith("import "))
    g = LEAN / "GridVerif"
    parts = ["import GridVerif.Props.C10\nimport GridVerif.Props.C11\nimport GridVerif.Model.LocalGridPy\n", body(text),
             body((g / "Model" / "LocalGridGen.lean").read_text()), body((g / "Props" / "C10" / "Gen.lean").read_text()),
             body((g / "Props" / "C11" / "Gen.lean").read_text())]
    d = Path(scratch)
    d.mkdir(parents=True, exist_ok=True)
    f = d / "Scratch.lean"
    src = "\n".join(parts)
    f.write_text(src)
    p = subprocess.run(["lake", "env", "lean", str(f)], cwd=LEAN, capture_output=True, text=True, timeout=1800)
    out = p.stdout + p.stderr
    errs = []
    lines = src.splitlines()
    for m in re.finditer(r"Scratch\.lean:(\d+):\d+: error", out):
        ln = int(m.group(1))
        name = None
        for i in range(ln - 1, -1, -1):
            mm = re.match(r"\s*(theorem|def|example|instance)\s*([^\s:({\[]*)", lines[i])
            if mm:
                name = mm.group(2) or f"{mm.group(1)} (line {i + 1})"
                break
        if name and name not in errs:
            errs.append(name)
    if p.returncode != 0:
        return "proofs-break", ("generated text differs; " if not same else "") + "no longer check: " + ", ".join(errs)
    return "ok", "generated text " + ("unchanged" if same else "differs")


if __name__ == "__main__":
    import sys
    if len(sys.argv) == 3 and sys.argv[1] == "--scratch":
        st, det = scratch_check(sys.argv[2])
        print(st, "::", det)
    else:
        print(render())

"""Translator: the float code of grid/cubic.py -> Gen/CubicGrid.lean, and (round 3, class `FnX` / `Translator.run_interp`)
the constructors, `get_points_along_axes` and `interpolate` -> Gen/CubicInterp.lean:

    _HyperRectangleGrid.__init__, get_points_along_axes, interpolate (with its closures z_spline / y_splines / x_spline,
    the recursive calls of the logarithmic variant, the default values of the signature),
    UniformGrid.__init__, Tensor1DGrids.__init__ / origin, the default values of from_molecule;
    CubicSpline / RegularGridInterpolator / bell are parameters of the generated definitions (named primitives),
    error messages are kept as comments (their f-string expressions are text of the generated file).

First file:

AST based, typed.  Translated (statement by statement, expression by expression):

    UniformGrid._calculate_volume, _calculate_alternative_volume, _choose_weight_scheme
        (all five schemes with the nested helpers `_fourier1`, `_fourier2`),
    UniformGrid.closest_point, UniformGrid.from_molecule
    (+ the one-line properties `axes`, `origin`, `shape`, `ndim` they go through).

The target is Lean `do` code in the `Except PyErr` monad over the NumPy primitives of
`Model/CubicNp.lean` / `Model/Cubic.lean`, generic in the number type `K` (Float in the driver,
the reals in the theorems).  A small type system (float / nat / int scalars, float / nat / int
vectors, float matrices, n-D arrays, strings, booleans) selects the broadcasting form of every
operator and the primitive behind every NumPy call; a construct outside the tables raises
`Untranslatable`, which the check treats like a proof obligation that no longer holds.

Control flow: `if / elif / else` whose branches fall through get the rest of the block appended to
every branch (no mutable variables, no early return in the Lean text); `for i in range(n)` updating
one array is a `foldlM`; sub-expressions that can raise (indexing, `np.cross`, `np.dot` of two
vectors, calls of translated functions) are bound to temporaries `t1, t2, …` in evaluation order.

What the theorems of Props/C13/GenTie.lean see is therefore the source's own arithmetic:
`shape + 1.0`, the signed `np.diagonal` step, `np.rint`, `np.clip`, `np.ceil`, `0.5 * shape`,
`np.dot(atcoords - com, v)` vs. `spacing * v`, the einsum index strings, ….
"""
import ast
from fractions import Fraction

from ..common import SRC
from .util import HEADER, write_if_changed


class Untranslatable(Exception):
    pass


def _fail(node, why):
    raise Untranslatable(f"cubic.py line {getattr(node, 'lineno', '?')}: {why}: {ast.unparse(node)[:140]}")


# types
F, N, VF, VN, VZ, MF, ND, S, B = "F", "N", "VF", "VN", "VZ", "MF", "ND", "S", "B"
LEAN_TY = {F: "K", N: "Nat", VF: "List K", VN: "List Nat", VZ: "List Int", MF: "List (List K)",
           ND: "Nd K", S: "String", B: "Bool"}
ARITH = {ast.Add: "+", ast.Sub: "-", ast.Mult: "*", ast.Div: "/"}
CMP = {ast.Eq: "==", ast.NotEq: "!=", ast.Lt: "<", ast.LtE: "≤", ast.Gt: ">", ast.GtE: "≥"}
ELEMWISE = {"np.sin": "Elem.sin", "np.cos": "Elem.cos", "np.abs": "Elem.abs", "np.exp": "Elem.exp",
            "np.sqrt": "Elem.sqrt"}
ROUND = {"np.floor": "Rounding.floorI", "np.rint": "Rounding.rintI", "np.ceil": "Rounding.ceilI"}


def flt(x):
    """Lean text of a Python float literal (generic `K`: naturals and quotients of naturals)."""
    fr = Fraction(x)
    if fr < 0:
        raise Untranslatable(f"negative literal {x}")
    if fr.denominator == 1:
        return f"(({fr.numerator} : Nat) : K)"
    if Fraction(float(fr)) != fr or fr.denominator > 10 ** 6:
        raise Untranslatable(f"literal {x} is not a small quotient")
    return f"((({fr.numerator} : Nat) : K) / (({fr.denominator} : Nat) : K))"


class Fn:
    """Translation of one function body."""

    def __init__(self, owner, name, env, selfattrs=None, funcs=None):
        self.owner = owner          # Translator
        self.name = name
        self.env = dict(env)        # python name -> type
        self.selfattrs = selfattrs or {}   # attribute of self -> (lean text, type)
        self.funcs = funcs or {}    # callable name -> (lean name, [arg types], ret type, extra lean args)
        self.pre = []
        self.ntmp = 0

    # -- helpers ----------------------------------------------------------------
    def tmp(self):
        self.ntmp += 1
        return f"t{self.ntmp}'"

    def hoist(self, action, ty):
        t = self.tmp()
        self.pre.append(f"let {t} ← {action}")
        return t, ty

    def toF(self, c, ty, node):
        if ty == F:
            return c
        if ty == N:
            return f"(({c} : Nat) : K)"
        _fail(node, f"scalar of type {ty} where a float is needed")

    def toVF(self, c, ty, node):
        if ty == VF:
            return c
        if ty == VN:
            return f"({c}.map fun (s' : Nat) => (s' : K))"
        if ty == VZ:
            return f"({c}.map fun (s' : Int) => (intToK s' : K))"
        _fail(node, f"array of type {ty} where a float vector is needed")

    # -- expressions ------------------------------------------------------------
    def expr(self, e):
        m = getattr(self, "e_" + type(e).__name__, None)
        if m is None:
            _fail(e, "unsupported expression")
        return m(e)

    def e_Constant(self, e):
        v = e.value
        if isinstance(v, bool):
            return ("true" if v else "false"), B
        if isinstance(v, int):
            if v < 0:
                _fail(e, "negative integer literal")
            return f"{v}", N
        if isinstance(v, float):
            return flt(v), F
        if isinstance(v, str):
            return '"' + v.replace('"', '\\"') + '"', S
        _fail(e, "unsupported constant")

    def e_Name(self, e):
        if e.id in self.env:
            return e.id, self.env[e.id]
        _fail(e, "unknown name")

    def e_Attribute(self, e):
        src = ast.unparse(e)
        if src == "np.pi":
            return "Elem.pi", F
        if isinstance(e.value, ast.Name) and e.value.id == "self":
            if e.attr in self.selfattrs:
                return self.selfattrs[e.attr]
            _fail(e, "unknown attribute of self")
        if e.attr == "T":
            c, ty = self.expr(e.value)
            if ty == VF:
                return c, VF          # .T of a 1-D array is the array
            if ty == MF:
                return f"(npTranspose {c})", MF
        if e.attr == "size":
            c, ty = self.expr(e.value)
            if ty in (VF, VN, VZ):
                return f"{c}.length", N
        _fail(e, "unsupported attribute")

    def e_UnaryOp(self, e):
        if isinstance(e.op, ast.Not):
            c, ty = self.expr(e.operand)
            if ty != B:
                _fail(e, "`not` of a non-boolean")
            return f"(!{c})", B
        _fail(e, "unsupported unary operator")

    def e_Compare(self, e):
        if len(e.ops) != 1 or type(e.ops[0]) not in CMP:
            _fail(e, "unsupported comparison")
        op = CMP[type(e.ops[0])]
        a, ta = self.expr(e.left)
        b, tb = self.expr(e.comparators[0])
        if ta == tb and ta in (N, S) and op in ("==", "!="):
            return f"({a} {op} {b})", B
        if ta == tb == N:
            return f"(decide ({a} {op} {b}))", B
        _fail(e, f"comparison of {ta} with {tb}")

    def e_Subscript(self, e):
        # X.shape[0] : number of rows / entries
        if isinstance(e.value, ast.Attribute) and e.value.attr == "shape":
            c, ty = self.expr(e.value.value)
            if ty in (VF, MF, VN, VZ) and isinstance(e.slice, ast.Constant) and e.slice.value == 0:
                return f"{c}.length", N
            _fail(e, "unsupported use of .shape")
        c, ty = self.expr(e.value)
        i, ti = self.expr(e.slice)
        if ti != N:
            _fail(e, "index is not a natural number")
        if ty == VN:
            return self.hoist(f"nGet {c} {i}", N)
        if ty == VF:
            return self.hoist(f"kGet {c} {i}", F)
        if ty == MF:
            return self.hoist(f"mRow {c} {i}", VF)
        _fail(e, f"indexing into {ty}")

    def e_List(self, e):
        items = [self.expr(x) for x in e.elts]
        if items and all(t in (F, N) for _, t in items):
            return "[" + ", ".join(self.toF(c, t, e) for c, t in items) + "]", VF
        if items and all(t == VF for _, t in items):
            return "[" + ", ".join(c for c, _ in items) + "]", MF
        _fail(e, "unsupported list literal")

    def e_ListComp(self, e):
        if len(e.generators) != 1 or e.generators[0].ifs or e.generators[0].is_async:
            _fail(e, "unsupported comprehension")
        g = e.generators[0]
        it = g.iter
        if not (isinstance(g.target, ast.Name) and isinstance(it, ast.Call) and ast.unparse(it.func) == "range"
                and len(it.args) == 1 and not it.keywords):
            _fail(e, "comprehension is not over range(n)")
        n, tn = self.expr(it.args[0])
        if tn != N:
            _fail(e, "range of a non-integer")
        v = g.target.id
        outer_pre, self.pre = self.pre, []
        saved = self.env.get(v)
        self.env[v] = N
        c, ty = self.expr(e.elt)
        inner = self.pre
        self.pre = outer_pre
        if saved is None:
            del self.env[v]
        else:
            self.env[v] = saved
        if ty not in (F, N):
            _fail(e, "comprehension of non-scalars")
        body = " ".join(f"{ln};" for ln in inner) + f" pure {self.toF(c, ty, e)}"
        return self.hoist(f"(List.range {n}).mapM fun {v} => do {body}", VF)

    def e_BinOp(self, e):
        a, ta = self.expr(e.left)
        b, tb = self.expr(e.right)
        if isinstance(e.op, ast.Pow):
            if ta == N and tb == N:
                return f"({a} ^ {b})", N
            if ta in (F, N) and tb in (F, N):
                return f"(Elem.rpow {self.toF(a, ta, e)} {self.toF(b, tb, e)})", F
            if ta == VF and tb in (F, N):
                return f"({a}.map fun x' => Elem.rpow x' {self.toF(b, tb, e)})", VF
            _fail(e, f"power {ta} ** {tb}")
        if type(e.op) not in ARITH:
            _fail(e, "unsupported operator")
        op = ARITH[type(e.op)]
        sc = (F, N)
        vec = (VF, VN, VZ)
        # scalars
        if ta == N and tb == N:
            if op in ("+", "*"):
                return f"({a} {op} {b})", N
            if op == "/":
                return f"({self.toF(a, ta, e)} / {self.toF(b, tb, e)})", F
            _fail(e, "subtraction of natural numbers (would need integers)")
        if ta in sc and tb in sc:
            return f"({self.toF(a, ta, e)} {op} {self.toF(b, tb, e)})", F
        # integer vector minus integer constant stays an integer vector
        if ta == VN and tb == N and op in ("-", "+"):
            return f"({a}.map fun (s' : Nat) => (s' : Int) {op} {b})", VZ
        # vector with scalar
        if ta in vec and tb in sc:
            return f"({self.toVF(a, ta, e)}.map fun x' => x' {op} {self.toF(b, tb, e)})", VF
        if ta in sc and tb in vec:
            return f"({self.toVF(b, tb, e)}.map fun x' => {self.toF(a, ta, e)} {op} x')", VF
        if ta in vec and tb in vec:
            return f"(List.zipWith (fun x' y' => x' {op} y') {self.toVF(a, ta, e)} {self.toVF(b, tb, e)})", VF
        # matrices
        if ta == MF and tb in sc:
            return f"({a}.map fun r' => r'.map fun x' => x' {op} {self.toF(b, tb, e)})", MF
        if ta in sc and tb == MF:
            return f"({b}.map fun r' => r'.map fun x' => {self.toF(a, ta, e)} {op} x')", MF
        if ta == MF and tb == MF:
            return f"(List.zipWith (fun r' q' => List.zipWith (fun x' y' => x' {op} y') r' q') {a} {b})", MF
        if ta == MF and tb in vec:      # broadcasting of a 1-D array over the rows
            return f"({a}.map fun r' => List.zipWith (fun x' y' => x' {op} y') r' {self.toVF(b, tb, e)})", MF
        # n-D array with scalar
        if ta == ND and tb in sc:
            return f"(Nd.map (fun x' => x' {op} {self.toF(b, tb, e)}) {a})", ND
        if ta in sc and tb == ND:
            return f"(Nd.map (fun x' => {self.toF(a, ta, e)} {op} x') {b})", ND
        _fail(e, f"operator {op} on {ta}, {tb}")

    def e_Call(self, e):
        fn = ast.unparse(e.func)
        kw = {k.arg: k.value for k in e.keywords}
        args = e.args

        def plain(n):
            if len(args) != n or kw:
                _fail(e, f"{fn}: expected {n} positional arguments")
            return [self.expr(a) for a in args]

        if fn in self.funcs:
            lean, atys, rty, extra = self.funcs[fn]
            got = plain(len(atys))
            for (c, t), want in zip(got, atys):
                if t != want:
                    _fail(e, f"{fn}: argument of type {t}, expected {want}")
            return self.hoist(" ".join([lean] + extra + [c if c.startswith("(") or c.isidentifier() or c.isdigit() else f"({c})" for c, _ in got]), rty)
        if fn == "len":
            (c, t), = plain(1)
            if t in (VF, VN, VZ, MF):
                return f"{c}.length", N
            _fail(e, "len of a non-sequence")
        if fn == "np.prod":
            (c, t), = plain(1)
            if t == VN:
                return f"(numPoints {c})", N
            if t == VF:
                return f"(prodK {c})", F
            _fail(e, f"np.prod of {t}")
        if fn == "np.sum":
            (c, t), = plain(1)
            if t == VF:
                return f"(sumK {c})", F
            _fail(e, f"np.sum of {t}")
        if fn in ELEMWISE:
            (c, t), = plain(1)
            g = ELEMWISE[fn]
            if t in (F, N):
                return f"({g} {self.toF(c, t, e)})", F
            if t == VF:
                return f"({c}.map fun x' => {g} x')", VF
            if t == MF:
                return f"({c}.map fun r' => r'.map fun x' => {g} x')", MF
            _fail(e, f"{fn} of {t}")
        if fn in ROUND:
            (c, t), = plain(1)
            if t == VF:
                return f"({c}.map fun x' => ({ROUND[fn]} x' : Int))", VZ
            _fail(e, f"{fn} of {t}")
        if fn == "np.clip":
            (c, t), (lo, tl), (hi, th) = plain(3)
            if t == VZ and tl == N and th == VZ:
                return f"(npClip {c} ({lo} : Int) {hi})", VZ
            _fail(e, f"np.clip of {t}, {tl}, {th}")
        if fn == "np.dot":
            (a, ta), (b, tb) = plain(2)
            if ta in (VF, VN, VZ) and tb in (VF, VN, VZ):
                return self.hoist(f"npDotVV {self.toVF(a, ta, e)} {self.toVF(b, tb, e)}", F)
            if ta in (VF, VN, VZ) and tb == MF:
                return f"(npVecMat {self.toVF(a, ta, e)} {b})", VF
            if ta == MF and tb == MF:
                return f"(npMatMul {a} {b})", MF
            _fail(e, f"np.dot of {ta}, {tb}")
        if fn == "np.cross":
            (a, ta), (b, tb) = plain(2)
            if ta == VF and tb == VF:
                return self.hoist(f"npCross {a} {b}", VF)
            _fail(e, f"np.cross of {ta}, {tb}")
        if fn == "np.linalg.det":
            (a, ta), = plain(1)
            if ta == MF:
                return self.hoist(f"det {a}", F)
            _fail(e, f"det of {ta}")
        if fn == "np.linalg.norm":
            (a, ta), = plain(1)
            if ta == VF:
                return f"(npNorm {a})", F
            _fail(e, f"norm of {ta}")
        if fn == "np.array":
            if len(args) == 1 and not kw:
                c, t = self.expr(args[0])
                if t in (VF, MF, VN, VZ):
                    return c, t
            if len(args) == 2 and not kw and ast.unparse(args[1]) == "int":
                c, t = self.expr(args[0])
                if t == VZ:           # integer-valued floats -> ints
                    return c, VZ
            _fail(e, "unsupported np.array(...)")
        if fn == "np.full":
            (n, tn), (x, tx) = plain(2)
            if tn == N and tx in (F, N):
                return f"(List.replicate {n} {self.toF(x, tx, e)})", VF
            _fail(e, f"np.full of {tn}, {tx}")
        if fn == "np.ones":
            (n, tn), = plain(1)
            if tn == N:
                return f"(List.replicate {n} ((1 : Nat) : K))", VF
            if tn == VN:
                return f"(Nd.ones {n} : Nd K)", ND
            _fail(e, f"np.ones of {tn}")
        if fn == "np.zeros":
            if len(args) == 1 and not kw and isinstance(args[0], ast.List) and len(args[0].elts) == 2 \
                    and all(isinstance(x, ast.Constant) and isinstance(x.value, int) for x in args[0].elts):
                r, c = (x.value for x in args[0].elts)
                return f"(List.replicate {r} (List.replicate {c} ((0 : Nat) : K)))", MF
            _fail(e, "unsupported np.zeros(...)")
        if fn == "np.arange":
            (a, ta), (b, tb) = plain(2)
            if ta == N and tb == N:
                return f"((npArange {a} {b}).map fun (s' : Nat) => (s' : K))", VF
            _fail(e, f"np.arange of {ta}, {tb}")
        if fn == "np.outer":
            (a, ta), (b, tb) = plain(2)
            if ta == VF and tb == VF:
                return f"(npOuter {a} {b})", MF
            _fail(e, f"np.outer of {ta}, {tb}")
        if fn == "np.diag":
            (a, ta), = plain(1)
            if ta == VF:
                return f"(npDiag {a})", MF
            _fail(e, f"np.diag of {ta}")
        if fn == "np.diagonal":
            (a, ta), = plain(1)
            if ta == MF:
                return f"(diagonal {a})", VF
            _fail(e, f"np.diagonal of {ta}")
        if fn == "np.count_nonzero":
            (a, ta), = plain(1)
            if ta == MF:
                return f"(npCountNonzero {a})", N
            _fail(e, f"np.count_nonzero of {ta}")
        if fn in ("np.amax", "np.amin"):
            if len(args) == 1 and list(kw) == ["axis"] and isinstance(kw["axis"], ast.Constant) and kw["axis"].value == 0:
                a, ta = self.expr(args[0])
                if ta == MF:
                    return self.hoist(("npAmax0 " if fn == "np.amax" else "npAmin0 ") + a, VF)
            _fail(e, f"unsupported {fn}(...)")
        if fn == "np.ravel":
            (a, ta), = plain(1)
            if ta == ND:
                return f"(Nd.ravel {a})", VF
            _fail(e, f"np.ravel of {ta}")
        if fn == "np.einsum":
            if kw or not args or not (isinstance(args[0], ast.Constant) and isinstance(args[0].value, str)):
                _fail(e, "unsupported einsum")
            spec = args[0].value.replace(" ", "")
            ops = [self.expr(a) for a in args[1:]]
            ins, _, out = spec.partition("->")
            ins = ins.split(",")
            if len(ins) != len(ops):
                _fail(e, "einsum: operand count")
            if spec == "ij,j->i" and [t for _, t in ops] == [MF, VF]:
                return f"(einsumMatVec {ops[0][0]} {ops[1][0]})", VF
            # "<labels>,a,b,…-><labels>": scale along the named axes, in the order written
            if ops[0][1] == ND and out == ins[0] and len(set(out)) == len(out) \
                    and all(len(x) == 1 and x in out and t == VF for x, (_, t) in zip(ins[1:], ops[1:])):
                cur = ops[0][0]
                for x, (c, _) in zip(ins[1:], ops[1:]):
                    cur, _ = self.hoist(f"Nd.scaleAxis {cur} {out.index(x)} {c}", ND)
                return cur, ND
            _fail(e, f"unsupported einsum {spec!r} on {[t for _, t in ops]}")
        _fail(e, "unsupported call")

    # -- statements ---------------------------------------------------------------
    @staticmethod
    def falls_through(stmts):
        if not stmts:
            return True
        s = stmts[-1]
        if isinstance(s, (ast.Return, ast.Raise)):
            return False
        if isinstance(s, ast.If):
            return Fn.falls_through(s.body) or Fn.falls_through(s.orelse)
        return True

    def with_pre(self, fn):
        """run fn() collecting hoisted temporaries -> (pre lines, result)"""
        saved, self.pre = self.pre, []
        r = fn()
        pre, self.pre = self.pre, saved
        return pre, r

    def block(self, stmts, ind, end):
        """`end`: Lean lines for falling off the end of the enclosing function / loop body."""
        p = " " * ind
        out = []
        for k, s in enumerate(stmts):
            rest = stmts[k + 1:]
            if isinstance(s, ast.Expr) and isinstance(s.value, ast.Constant) and isinstance(s.value.value, str):
                continue
            if isinstance(s, ast.FunctionDef):
                self.owner.nested(self, s)
                continue
            if isinstance(s, ast.If):
                pre, (c, t) = self.with_pre(lambda: self.expr(s.test))
                if t != B:
                    _fail(s.test, "condition is not boolean")
                out += [p + ln for ln in pre]
                out.append(f"{p}if {c} then")
                env0 = dict(self.env)
                out += self.block(list(s.body) + (rest if self.falls_through(s.body) else []), ind + 2, end)
                self.env = dict(env0)
                out.append(f"{p}else")
                out += self.block(list(s.orelse) + (rest if self.falls_through(s.orelse) else []), ind + 2, end)
                self.env = env0
                return out
            if isinstance(s, ast.Return):
                out += self.ret(s, p)
                return out
            if isinstance(s, ast.Raise):
                exc = s.exc
                name = exc.func.id if isinstance(exc, ast.Call) and isinstance(exc.func, ast.Name) else None
                tag = {"ValueError": "valueError", "IndexError": "indexError", "TypeError": "typeError",
                       "NotImplementedError": "notImplemented"}.get(name)
                if tag is None:
                    _fail(s, "unsupported raise")
                out.append(f"{p}throw PyErr.{tag}")
                return out
            out += [p + ln for ln in self.simple(s, ind)]
        out += [p + ln for ln in end]
        return out

    def ret(self, s, p):
        v = s.value
        if isinstance(v, ast.Call) and ast.unparse(v.func) == "cls":
            # from_molecule: the constructor arguments are the result
            pre, items = self.with_pre(lambda: [self.expr(a) for a in v.args])
            want = [VF, MF, VZ, S]
            if [t for _, t in items] != want:
                _fail(s, f"cls(...) called with {[t for _, t in items]}")
            return [p + ln for ln in pre] + [f"{p}pure ({items[0][0]}, {items[1][0]}, {items[2][0]})"]
        pre, (c, t) = self.with_pre(lambda: self.expr(v))
        if t != self.ret_ty:
            _fail(s, f"returns {t}, expected {self.ret_ty}")
        return [p + ln for ln in pre] + [f"{p}pure {c}"]

    def simple(self, s, ind):
        """assignment / augmented assignment / for loop -> lines (unindented)"""
        if isinstance(s, ast.Assign) and len(s.targets) == 1:
            t = s.targets[0]
            if isinstance(t, ast.Name):
                pre, (c, ty) = self.with_pre(lambda: self.expr(s.value))
                self.env[t.id] = ty
                return pre + [f"let {t.id} : {LEAN_TY[ty]} := {c}"]
            if isinstance(t, ast.Tuple) and isinstance(s.value, ast.Call) and ast.unparse(s.value.func) == "np.linalg.eigh":
                names = [x.id if isinstance(x, ast.Name) else None for x in t.elts]
                if len(names) != 2 or None in names or len(s.value.args) != 1 or s.value.keywords:
                    _fail(s, "unsupported use of eigh")
                pre, (c, ty) = self.with_pre(lambda: self.expr(s.value.args[0]))
                if ty != MF:
                    _fail(s, "eigh of a non-matrix")
                self.env[names[0]] = VF
                self.env[names[1]] = MF
                lines = pre + [f"let eigh_result := eigh {c}"]
                for nm, proj in zip(names, ("1", "2")):
                    if nm != "_":
                        lines.append(f"let {nm} := eigh_result.{proj}")
                return lines
            _fail(s, "unsupported assignment target")
        if isinstance(s, ast.AugAssign) and isinstance(s.target, ast.Name) and type(s.op) in ARITH:
            fake = ast.BinOp(left=ast.Name(id=s.target.id, ctx=ast.Load()), op=s.op, right=s.value)
            ast.copy_location(fake, s)
            ast.fix_missing_locations(fake)
            pre, (c, ty) = self.with_pre(lambda: self.expr(fake))
            if ty != self.env.get(s.target.id):
                _fail(s, "augmented assignment changes the type")
            return pre + [f"let {s.target.id} : {LEAN_TY[ty]} := {c}"]
        if isinstance(s, ast.For):
            it = s.iter
            if s.orelse or not isinstance(s.target, ast.Name) or not (
                    isinstance(it, ast.Call) and ast.unparse(it.func) == "range" and len(it.args) == 1 and not it.keywords):
                _fail(s, "unsupported loop")
            pre, (n, tn) = self.with_pre(lambda: self.expr(it.args[0]))
            if tn != N:
                _fail(s, "range of a non-integer")
            # loop state: names defined before the loop and assigned in its body
            assigned = []
            for b in ast.walk(ast.Module(body=s.body, type_ignores=[])):
                if isinstance(b, (ast.Assign, ast.AugAssign)):
                    for tg in (b.targets if isinstance(b, ast.Assign) else [b.target]):
                        if isinstance(tg, ast.Name) and tg.id in self.env and tg.id not in assigned:
                            assigned.append(tg.id)
            if len(assigned) != 1:
                _fail(s, f"loop must update exactly one outer variable, got {assigned}")
            st = assigned[0]
            v = s.target.id
            env0 = dict(self.env)
            self.env[v] = N
            body = self.block(s.body, 4, [f"pure {st}"])
            self.env = env0
            return pre + [f"let {st} ← (List.range {n}).foldlM (fun {st} {v} => do"] + body + [f"    ) {st}"]
        _fail(s, "unsupported statement")


# ---------------------------------------------------------------------------------------------
# round 3: the constructors, get_points_along_axes and interpolate -> Gen/CubicInterp.lean
# ---------------------------------------------------------------------------------------------
Z, TV, MN, NDI, DICT, SYMS, VB, CALLABLE, VNAT = "Z", "TV", "MN", "NDI", "DICT", "SYMS", "VB", "CALLABLE", "VNAT"
OG, OOG, NDF = "OG", "OOG", "NDF"
LEAN_TY.update({Z: "Int", TV: "List (List K)", MN: "List (List Nat)", NDI: "NdI", DICT: "List (String × K)",
                SYMS: "List String", VB: "List Bool", CALLABLE: None, OG: "(List K × List K)", OOG: "Option (List K × List K)",
                NDF: "NdF K"})
ARRAYS = (VF, VN, VZ, MF)


class FnX(Fn):
    """Translation of one function body for Gen/CubicInterp.lean: `Fn` plus

    * Python integers: `a - b` of two naturals is an `Int`; tuples of integers, `range(a, b)`, `np.arange(a, b)`,
      integer array times integer stay integers; slices `A[a:b, d]`, `v[a:b]`, fancy rows `A[idx, d]`;
    * `if` statements without `return` / `raise` inside are sub-blocks yielding the variables they assign
      (no duplication of the continuation);
    * closures (`z_spline`, `y_splines`, `x_spline`): top-level definitions taking the captured variables as
      leading parameters (every call passes every parameter, so the `nu=nu` defaults are dead — checked);
    * the recursive `self.interpolate(..., use_log=False, ...)`: open recursion through the parameter
      `self_interpolate` (every recursive call must pass the literal `use_log=False`, which bounds the depth by one);
    * `CubicSpline(...)(...)`, `RegularGridInterpolator(...)`, `bell(...).evalf(subs=...)`, `symbols("x:" + str(n))`:
      the named primitives of Model/CubicInterpNp.lean;
    * literals by their decimal source text (`1e-10` is `1 / 10^10`).
    """

    alias = None        # python name -> Lean text where it differs from the name (an Optional argument known not to be None)
    rec_sig = None      # (names, types, default nodes) of the function when it may call itself through self
    super_init = None   # (lean name, [arg types]) of `super().__init__`
    ctx_args = ()       # leading Lean arguments of nested functions

    def toZ(self, c, ty, node):
        if ty == Z:
            return c
        if ty == N:
            return f"({c} : Int)" if c.isdigit() else f"(({c} : Nat) : Int)"
        _fail(node, f"value of type {ty} where an integer is needed")

    # -- expressions --------------------------------------------------------------------------
    def e_Name(self, e):
        if e.id in self.env:
            return (self.alias or {}).get(e.id, e.id), self.env[e.id]
        _fail(e, "unknown name")

    def e_Constant(self, e):
        v = e.value
        if isinstance(v, float) and not isinstance(v, bool):
            txt = ast.get_source_segment(self.owner.src, e)
            try:
                from decimal import Decimal
                fr = Fraction(Decimal(txt))
            except Exception:
                _fail(e, "float literal whose source text is not a decimal")
            if fr < 0 or fr.numerator >= 2 ** 53 or fr.denominator >= 2 ** 53 or float(fr.numerator) / float(fr.denominator) != v:
                _fail(e, "float literal that is not a quotient of two exactly representable integers")
            if fr.denominator == 1:
                return f"(({fr.numerator} : Nat) : K)", F
            return f"((({fr.numerator} : Nat) : K) / (({fr.denominator} : Nat) : K))", F
        return super().e_Constant(e)

    def e_Tuple(self, e):
        items = [self.expr(x) for x in e.elts]
        if items and all(t in (N, Z) for _, t in items):
            return "[" + ", ".join(self.toZ(c, t, e) for c, t in items) + "]", VZ
        if items and all(t == VF for _, t in items):
            return "[" + ", ".join(c for c, _ in items) + "]", TV
        _fail(e, "unsupported tuple")

    def e_List(self, e):
        if not e.elts:
            return "([] : List K)", VF
        items = [self.expr(x) for x in e.elts]
        if all(t == B for _, t in items):
            return "[" + ", ".join(c for c, _ in items) + "]", VB
        if all(t == S for _, t in items):
            return "[" + ", ".join(c for c, _ in items) + "]", "VS"
        if all(t == N for _, t in items):
            return "[" + ", ".join(c for c, _ in items) + "]", VNAT
        return super().e_List(e)

    def e_Attribute(self, e):
        if isinstance(e.value, ast.Name) and e.value.id == "self" and e.attr in self.selfattrs:
            return self.selfattrs[e.attr]
        if e.attr == "T":
            c, ty = self.expr(e.value)
            if ty == MN:
                return f"(nTranspose {c})", MN
            if ty == MF:
                return f"(npTranspose {c})", MF
            _fail(e, f".T of {ty}")
        if e.attr in ("points", "weights", "size") and isinstance(e.value, ast.Name) and self.env.get(e.value.id) == OG:
            c, _ = self.expr(e.value)     # a OneDGrid: the pair (points, weights); `size` is `weights.size` (Grid.size)
            return {"points": (f"{c}.1", VF), "weights": (f"{c}.2", VF), "size": (f"{c}.2.length", N)}[e.attr]
        return super().e_Attribute(e)

    def e_BinOp(self, e):
        if isinstance(e.op, (ast.Add, ast.Sub, ast.Mult)):
            a, ta = self.expr(e.left)
            b, tb = self.expr(e.right)
            op = ARITH[type(e.op)]
            if ta == S and tb == S and op == "+":
                return f"({a} ++ {b})", S
            if ta == N and tb == N and op == "-":
                return f"({self.toZ(a, ta, e)} - {self.toZ(b, tb, e)})", Z
            if (ta == Z and tb in (N, Z)) or (ta == N and tb == Z):
                return f"({self.toZ(a, ta, e)} {op} {self.toZ(b, tb, e)})", Z
            if ta == VZ and tb in (N, Z):
                return f"({a}.map fun (s' : Int) => s' {op} {self.toZ(b, tb, e)})", VZ
            return self.binop_typed(e, a, ta, b, tb)
        return super().e_BinOp(e)

    def binop_typed(self, e, a, ta, b, tb):
        """`Fn.e_BinOp` on already translated operands (operands must not be translated twice: temporaries)."""
        fake = ast.BinOp(left=ast.Name(id="__a", ctx=ast.Load()), op=e.op, right=ast.Name(id="__b", ctx=ast.Load()))
        ast.copy_location(fake, e)
        ast.fix_missing_locations(fake)
        self.env["__a"], self.env["__b"] = ta, tb
        try:
            c, t = Fn.e_BinOp(self, fake)
        finally:
            del self.env["__a"], self.env["__b"]
        # whole-word replacement of the two placeholders
        import re as _re
        c = _re.sub(r"\b__a\b", lambda m: a, c)
        c = _re.sub(r"\b__b\b", lambda m: b, c)
        return c, t

    @staticmethod
    def none_test(e):
        """`NAME is not None` -> NAME"""
        if isinstance(e, ast.Compare) and len(e.ops) == 1 and isinstance(e.ops[0], ast.IsNot) and isinstance(e.left, ast.Name) \
                and isinstance(e.comparators[0], ast.Constant) and e.comparators[0].value is None:
            return e.left.id
        return None

    def e_Compare(self, e):
        nm = self.none_test(e)
        if nm is not None:
            if self.env.get(nm) == OOG:
                return f"{nm}.isSome", B
            _fail(e, "`is not None` on a value that is not optional")
        if len(e.ops) == 1:
            op, l, r = e.ops[0], e.left, e.comparators[0]
            if isinstance(op, (ast.In, ast.NotIn)) and isinstance(r, (ast.List, ast.Tuple)):
                a, ta = self.expr(l)
                items = [self.expr(x) for x in r.elts]
                if items and all(t == ta for _, t in items) and ta in (S, N):
                    c = f"([{', '.join(c for c, _ in items)}].contains {a})"
                    return (c if isinstance(op, ast.In) else f"(!{c})"), B
                _fail(e, "unsupported membership test")
            if isinstance(op, (ast.Eq, ast.NotEq)) and isinstance(l, ast.Attribute) and l.attr == "shape" and isinstance(r, ast.Tuple) \
                    and len(r.elts) == 2:
                a, ta = self.expr(l.value)
                (x, tx), (y, ty) = [self.expr(v) for v in r.elts]
                if ta == MF and tx == N and ty == N:
                    c = f"(mShapeIs {a} {x} {y})"
                    return (c if isinstance(op, ast.Eq) else f"(!{c})"), B
                _fail(e, "unsupported comparison of .shape")
            if type(op) in CMP:
                a, ta = self.expr(l)
                b, tb = self.expr(r)
                o = CMP[type(op)]
                if ta == VZ and tb == VZ and o in ("==", "!="):
                    return f"({a} {o} {b})", B
                if {ta, tb} <= {N, Z} and Z in (ta, tb):
                    x, y = self.toZ(a, ta, e), self.toZ(b, tb, e)
                    return (f"({x} {o} {y})" if o in ("==", "!=") else f"(decide ({x} {o} {y}))"), B
                if ta == F and tb == F and o in ("<", ">"):
                    return f"(decide ({a} {o} {b}))", B
                return self.compare_typed(e, o, a, ta, b, tb)
        _fail(e, "unsupported comparison")

    def compare_typed(self, e, op, a, ta, b, tb):
        if ta == tb and ta in (N, S) and op in ("==", "!="):
            return f"({a} {op} {b})", B
        if ta == tb == N:
            return f"(decide ({a} {op} {b}))", B
        _fail(e, f"comparison of {ta} with {tb}")

    def e_Subscript(self, e):
        sl = e.slice
        if isinstance(sl, ast.Tuple) and len(sl.elts) == 2:
            base, tb = self.expr(e.value)
            if tb != MF:
                _fail(e, f"two indices into {tb}")
            r, c = sl.elts
            if isinstance(r, ast.Slice):
                if r.step is not None:
                    _fail(e, "slice with a step")
                lo = "(0 : Int)" if r.lower is None else self.toZ(*self.expr(r.lower), e)
                hi = None if r.upper is None else self.toZ(*self.expr(r.upper), e)
                cc, tc = self.expr(c)
                if tc != N:
                    _fail(e, "column index is not a natural number")
                if r.lower is None and r.upper is None:
                    return self.hoist(f"interpCol {base} {cc}", VF)
                if hi is None:
                    _fail(e, "slice without an upper bound")
                return self.hoist(f"npSliceCol {base} {lo} {hi} {cc}", VF)
            ri, tr = self.expr(r)
            cc, tc = self.expr(c)
            if tc != N:
                _fail(e, "column index is not a natural number")
            if tr == VZ:
                return self.hoist(f"npTakeCol {base} {ri} {cc}", VF)
            _fail(e, f"row index of type {tr}")
        if isinstance(sl, ast.Slice):
            base, tb = self.expr(e.value)
            if tb != VF or sl.step is not None or sl.lower is None or sl.upper is None:
                _fail(e, "unsupported slice")
            lo = self.toZ(*self.expr(sl.lower), e)
            hi = self.toZ(*self.expr(sl.upper), e)
            return f"(pySlice {base} {lo} {hi})", VF
        np_shape = isinstance(e.value, ast.Attribute) and e.value.attr == "shape" and not (
            isinstance(e.value.value, ast.Name) and e.value.value.id == "self")
        if np_shape and isinstance(sl, ast.Constant) and sl.value == 1:
            c, ty = self.expr(e.value.value)
            if ty == MF:
                return f"(mCols {c})", N
        if not np_shape:
            c, ty = self.expr(e.value)
            if ty == VZ:
                i, ti = self.expr(sl)
                if ti != N:
                    _fail(e, "index is not a natural number")
                return self.hoist(f"optGet ({c}[{i}]?)", Z)
            return self.subscript_typed(e, c, ty)
        return super().e_Subscript(e)

    def subscript_typed(self, e, c, ty):
        i, ti = self.expr(e.slice)
        if ti != N:
            _fail(e, "index is not a natural number")
        if ty == VN:
            return self.hoist(f"nGet {c} {i}", N)
        if ty == VF:
            return self.hoist(f"kGet {c} {i}", F)
        if ty == MF:
            return self.hoist(f"mRow {c} {i}", VF)
        _fail(e, f"indexing into {ty}")

    def range_of(self, it, node):
        """`range(n)` / `range(a, b)` -> (lean list, element type)"""
        if not (isinstance(it, ast.Call) and ast.unparse(it.func) == "range" and 1 <= len(it.args) <= 2 and not it.keywords):
            _fail(node, "iteration is not over range(...)")
        bounds = [self.expr(a) for a in it.args]
        if all(t == N for _, t in bounds):
            if len(bounds) == 1:
                return f"(List.range {bounds[0][0]})", N
            return f"(npArange {bounds[0][0]} {bounds[1][0]})", N
        if all(t in (N, Z) for _, t in bounds) and len(bounds) == 2:
            return f"(pyRange {self.toZ(*bounds[0], node)} {self.toZ(*bounds[1], node)} (1 : Int))", Z
        _fail(node, "range of non-integers")

    def comp(self, e, elt_fn):
        if len(e.generators) != 1 or e.generators[0].ifs or e.generators[0].is_async or not isinstance(e.generators[0].target, ast.Name):
            _fail(e, "unsupported comprehension")
        g = e.generators[0]
        rng, tv = self.range_of(g.iter, e)
        v = g.target.id
        outer_pre, self.pre = self.pre, []
        saved = self.env.get(v)
        self.env[v] = tv
        c, ty = elt_fn()
        inner = self.pre
        self.pre = outer_pre
        if saved is None:
            del self.env[v]
        else:
            self.env[v] = saved
        return rng, v, inner, c, ty

    def e_ListComp(self, e):
        rng, v, inner, c, ty = self.comp(e, lambda: self.expr(e.elt))
        out = {F: VF, N: VF, Z: VZ, VF: MF}.get(ty)
        if out is None:
            _fail(e, f"comprehension of {ty}")
        if ty == N:
            c = self.toF(c, ty, e)
        body = " ".join(f"{ln};" for ln in inner) + f" pure {c}"
        return self.hoist(f"{rng}.mapM fun {v} => do {body}", out)

    def e_DictComp(self, e):
        def elt():
            k, tk = self.expr(e.key)
            x, tx = self.expr(e.value)
            if tk != S or tx != F:
                _fail(e, "dictionary that does not map strings to floats")
            return f"({k}, {x})", "PAIR"
        rng, v, inner, c, ty = self.comp(e, elt)
        body = " ".join(f"{ln};" for ln in inner) + f" pure {c}"
        return self.hoist(f"{rng}.mapM fun {v} => do {body}", DICT)

    def args_by_signature(self, e, names, defaults):
        """positional + keyword arguments of a call in the order of `names` (defaults for the missing ones)"""
        if len(e.args) > len(names) or any(k.arg is None or k.arg not in names for k in e.keywords):
            _fail(e, "call does not match the signature")
        nodes = dict(zip(names, e.args))
        for k in e.keywords:
            if k.arg in nodes:
                _fail(e, "argument given twice")
            nodes[k.arg] = k.value
        out = []
        for n in names:
            if n in nodes:
                out.append(nodes[n])
            elif n in defaults:
                out.append(defaults[n])
            else:
                _fail(e, f"argument {n} missing")
        return out

    def e_Call(self, e):
        kw = {k.arg: k.value for k in e.keywords}
        args = e.args
        # CubicSpline(nodes, values)(x, nu)
        if isinstance(e.func, ast.Call) and ast.unparse(e.func.func) == "CubicSpline":
            inner = e.func
            if inner.keywords or kw or len(inner.args) != 2 or len(args) != 2:
                _fail(e, "unsupported use of CubicSpline")
            (nd, tn), (vl, tv) = [self.expr(a) for a in inner.args]
            (q, tq), (nu, tnu) = [self.expr(a) for a in args]
            if tn == VF and tq == VF and tnu == N and tv == VF:
                return f"(splineCallV CubicSpline {nd} {vl} {q} {nu})", VF
            if tn == VF and tq == VF and tnu == N and tv == MF:
                return f"(splineCallM CubicSpline {nd} {vl} {q} {nu})", MF
            _fail(e, f"CubicSpline on {tn}, {tv} at {tq}, {tnu}")
        # bell(n, k, symbols).evalf(subs=values)
        if isinstance(e.func, ast.Attribute) and e.func.attr == "evalf" and isinstance(e.func.value, ast.Call) \
                and ast.unparse(e.func.value.func) == "bell":
            b = e.func.value
            if args or list(kw) != ["subs"] or b.keywords or len(b.args) != 3:
                _fail(e, "unsupported use of bell(...).evalf")
            (n, tn), (k, tk), (sy, ts) = [self.expr(a) for a in b.args]
            d, td = self.expr(kw["subs"])
            if (tn, tk, ts, td) != (N, N, SYMS, DICT):
                _fail(e, f"bell on {tn}, {tk}, {ts} with {td}")
            return self.hoist(f"bellEvalf bell {n} {k} {sy} {d}", F)
        # a.reshape(...) / a.dot(b)
        if isinstance(e.func, ast.Attribute) and e.func.attr in ("reshape", "dot") and not (isinstance(e.func.value, ast.Name) and e.func.value.id in ("np", "self")):
            a, ta = self.expr(e.func.value)
            if e.func.attr == "reshape":
                if ta == VF and len(args) == 1 and not kw:
                    s, ts = self.expr(args[0])
                    if ts == VN:
                        return self.hoist(f"Nd.reshapeTo {a} {s}", ND)
                if ta == NDI and len(args) == 2 and set(kw) <= {"order"}:
                    r, tr = self.expr(args[0])
                    m1 = args[1]
                    order = kw.get("order")
                    if tr == N and isinstance(m1, ast.UnaryOp) and isinstance(m1.op, ast.USub) and isinstance(m1.operand, ast.Constant) \
                            and m1.operand.value == 1 and (order is None or (isinstance(order, ast.Constant) and order.value in ("C", "F"))):
                        fortran = "true" if order is not None and order.value == "F" else "false"
                        return self.hoist(f"NdI.reshapeRows {a} {r} {fortran}", MN)
                if ta == NDF and len(args) == 2 and not kw:
                    r, tr = self.expr(args[0])
                    m1 = args[1]
                    if tr == N and isinstance(m1, ast.UnaryOp) and isinstance(m1.op, ast.USub) and isinstance(m1.operand, ast.Constant) \
                            and m1.operand.value == 1:
                        return self.hoist(f"NdF.reshapeRowsC {a} {r}", MF)
                _fail(e, f"unsupported reshape of {ta}")
            if len(args) == 1 and not kw:
                b, tb = self.expr(args[0])
                if ta == MN and tb == MF:
                    return f"(npMatMul ({a}.map fun r' => r'.map fun (s' : Nat) => (s' : K)) {b})", MF
            _fail(e, f"unsupported .dot on {ta}")
        fn = ast.unparse(e.func)
        if fn == "self.interpolate" and self.rec_sig is not None:
            names, tys, defaults = self.rec_sig
            nodes = self.args_by_signature(e, names, defaults)
            ul = nodes[names.index("use_log")]
            if not (isinstance(ul, ast.Constant) and ul.value is False):
                _fail(e, "recursive call of interpolate without the literal use_log=False (unbounded depth)")
            got = [self.expr(n) for n in nodes]
            for (c, t), want, nm in zip(got, tys, names):
                if t != want:
                    _fail(e, f"self.interpolate: argument {nm} of type {t}, expected {want}")
            return self.hoist("self_interpolate " + " ".join(c for c, _ in got), VF)
        if fn in self.funcs:
            lean, atys, rty, extra = self.funcs[fn]
            if len(args) != len(atys) or kw:
                _fail(e, f"{fn}: expected {len(atys)} positional arguments")
            got = [self.expr(a) for a in args]
            out = []
            for (c, t), want in zip(got, atys):
                if t == VZ and want == VN:      # an integer array known to be positive (guarded above) used as sizes
                    c, t = f"({c}.map Int.toNat)", VN
                if t == N and want == Z:
                    c, t = self.toZ(c, t, e), Z
                if t != want:
                    _fail(e, f"{fn}: argument of type {t}, expected {want}")
                out.append(c if c.startswith("(") or c.startswith("[") or c.isidentifier() or c.isdigit() or c.endswith("'") else f"({c})")
            return self.hoist(" ".join([lean] + list(extra) + out), rty)
        if isinstance(e.func, ast.Name) and self.env.get(fn) == CALLABLE:
            if len(args) != 1 or kw:
                _fail(e, "unsupported call of a local callable")
            a, ta = self.expr(args[0])
            if ta != MF:
                _fail(e, f"local callable on {ta}")
            return self.hoist(f"{fn} {a}", VF)
        if fn == "RegularGridInterpolator":
            if len(args) != 2 or list(kw) != ["method"]:
                _fail(e, "unsupported use of RegularGridInterpolator")
            (nd, tn), (vl, tv), (m, tm) = self.expr(args[0]), self.expr(args[1]), self.expr(kw["method"])
            if (tn, tv, tm) != (TV, ND, S):
                _fail(e, f"RegularGridInterpolator on {tn}, {tv}, {tm}")
            return self.hoist(f"rgiMake RegularGridInterpolator {nd} {vl} {m}", CALLABLE)
        if fn == "isinstance":
            if len(args) != 2 or kw:
                _fail(e, "unsupported isinstance")
            c, t = self.expr(args[0])
            what = ast.unparse(args[1])
            if what == "np.ndarray" and t in ARRAYS:
                return "true", B
            if what == "OneDGrid" and t == OG:
                return "true", B
            if what == "(OneDGrid, type(None))" and t in (OG, OOG):
                return "true", B
            _fail(e, f"isinstance of {t} with {what}")
        if fn == "str" and len(args) == 1 and not kw:
            c, t = self.expr(args[0])
            if t == N:
                return f"(toString {c})", S
            _fail(e, f"str of {t}")
        if fn == "float" and len(args) == 1 and not kw:
            c, t = self.expr(args[0])
            if t == F:
                return c, F
            _fail(e, f"float of {t}")
        if fn == "sum" and len(args) == 1 and not kw:
            c, t = self.expr(args[0])
            if t == VF:
                return f"(sumK {c})", F
            if t == VB:
                return f"(countTrue {c})", N
            _fail(e, f"sum of {t}")
        if fn == "symbols":
            a = args[0] if len(args) == 1 and not kw else None
            if isinstance(a, ast.BinOp) and isinstance(a.op, ast.Add) and isinstance(a.left, ast.Constant) and isinstance(a.left.value, str) \
                    and a.left.value.endswith(":") and ":" not in a.left.value[:-1] and a.left.value[:-1].isidentifier():
                c, t = self.expr(a.right)
                if t == S and isinstance(a.right, ast.Call) and ast.unparse(a.right.func) == "str":
                    n, tn = self.expr(a.right.args[0])
                    return f'(sympySymbolsRange "{a.left.value[:-1]}" {n})', SYMS
            _fail(e, "symbols(...) is not the range form \"<stem>:\" + str(n)")
        if fn == "np.log":
            if len(args) != 1 or kw:
                _fail(e, "unsupported np.log")
            c, t = self.expr(args[0])
            if t in (F, N):
                return f"(Elem.log {self.toF(c, t, e)})", F
            if t == VF:
                return f"({c}.map fun x' => Elem.log x')", VF
            _fail(e, f"np.log of {t}")
        if fn == "np.any":
            a = args[0] if len(args) == 1 and not kw else None
            if isinstance(a, ast.Compare) and len(a.ops) == 1 and isinstance(a.ops[0], ast.LtE):
                l, tl = self.expr(a.left)
                r, tr = self.expr(a.comparators[0])
                if tl == VZ and tr == N:
                    return f"({l}.any fun (s' : Int) => decide (s' ≤ {self.toZ(r, tr, e)}))", B
                if tl == VZ and tr == F:      # int <= float: as floats; `a <= b` is `not (b < a)`
                    return f"({l}.any fun (s' : Int) => !(decide ({r} < (intToK s' : K))))", B
            _fail(e, "unsupported np.any(...)")
        if fn == "np.prod" and len(args) == 1 and not kw:
            c, t = self.expr(args[0])
            if t == VZ:
                return f"(prodZ {c})", Z
            return self.call_typed(e, fn, [(c, t)])
        if fn == "np.arange" and len(args) == 1 and not kw:
            c, t = self.expr(args[0])
            if t in (N, Z):
                return (f"(List.range {c})" if t == N else f"(List.range ({c}).toNat)"), VNAT
            _fail(e, f"np.arange of {t}")
        if fn == "np.arange" and len(args) == 2 and not kw:
            (a, ta), (b, tb) = [self.expr(x) for x in args]
            if {ta, tb} <= {N, Z} and Z in (ta, tb):
                return f"(npArangeZ {self.toZ(a, ta, e)} {self.toZ(b, tb, e)})", VZ
            return self.call_typed(e, fn, [(a, ta), (b, tb)])
        if fn == "np.array" and len(args) == 1 and not kw and isinstance(args[0], ast.Call) and ast.unparse(args[0].func) == "np.meshgrid":
            m = args[0]
            if m.keywords or not m.args:
                _fail(e, "np.meshgrid with keywords")
            vs = [self.expr(a) for a in m.args]
            if any(t != VNAT for _, t in vs):
                _fail(e, "np.meshgrid of non-integer ranges")
            return f"(npMeshgridXY [{', '.join(c for c, _ in vs)}])", NDI
        if fn == "np.vstack" and len(args) == 1 and not kw and isinstance(args[0], ast.Call) and ast.unparse(args[0].func) == "np.meshgrid":
            m = args[0]
            if [k.arg for k in m.keywords] != ["indexing"] or not (isinstance(m.keywords[0].value, ast.Constant) and m.keywords[0].value.value == "ij") \
                    or not m.args:
                _fail(e, "np.meshgrid without indexing=\"ij\"")
            vs = [self.expr(a) for a in m.args]
            if any(t != VF for _, t in vs):
                _fail(e, "np.meshgrid of non-float arrays")
            return f"(npVstackMeshgridIJ [{', '.join(c for c, _ in vs)}])", NDF
        if fn == "np.kron" and len(args) == 2 and not kw:
            (a, ta), (b, tb) = [self.expr(x) for x in args]
            if ta == VF and tb == VF:
                return f"(kron {a} {b})", VF
            _fail(e, f"np.kron of {ta}, {tb}")
        if fn == "np.swapaxes" and len(args) == 3 and not kw:
            (a, ta), (i, ti), (j, tj) = [self.expr(x) for x in args]
            if (ta, ti, tj) == (NDI, N, N):
                return f"(NdI.swapaxes {a} {i} {j})", NDI
            _fail(e, f"np.swapaxes of {ta}")
        if fn == "np.zeros" and len(args) == 1 and not kw and isinstance(args[0], ast.Tuple) and len(args[0].elts) == 2:
            (r, tr), (c, tc) = [self.expr(x) for x in args[0].elts]
            if tr in (N, Z) and tc == N:
                rows = r if tr == N else f"({r}).toNat"
                return f"(List.replicate {rows} (List.replicate {c} ((0 : Nat) : K)))", MF
            _fail(e, "unsupported np.zeros(...)")
        if fn == "np.diag" and len(args) == 1 and not kw:
            c, t = self.expr(args[0])
            if t == MF:
                return f"(diagonal {c})", VF
            return self.call_typed(e, fn, [(c, t)])
        if fn == "np.array" and len(args) == 1 and not kw:
            c, t = self.expr(args[0])
            if t in (VF, MF, VN, VZ):
                return c, t
            _fail(e, "unsupported np.array(...)")
        if fn == "len" and len(args) == 1 and not kw:
            c, t = self.expr(args[0])
            if t in (VF, VN, VZ, MF):
                return f"{c}.length", N
            _fail(e, "len of a non-sequence")
        return super().e_Call(e)

    def call_typed(self, e, fn, got):
        """`Fn.e_Call` on already translated arguments"""
        names = [f"__a{k}" for k in range(len(got))]
        fake = ast.Call(func=e.func, args=[ast.Name(id=n, ctx=ast.Load()) for n in names], keywords=[])
        ast.copy_location(fake, e)
        ast.fix_missing_locations(fake)
        for n, (_, t) in zip(names, got):
            self.env[n] = t
        try:
            c, t = Fn.e_Call(self, fake)
        finally:
            for n in names:
                del self.env[n]
        import re as _re
        for n, (a, _) in zip(names, got):
            c = _re.sub(r"\b" + n + r"\b", lambda m, a=a: a, c)
        return c, t

    # -- statements ---------------------------------------------------------------------------
    @staticmethod
    def has_exit(stmts):
        return any(isinstance(n, (ast.Return, ast.Raise)) for s in stmts for n in ast.walk(s))

    @staticmethod
    def assigned_names(stmts):
        out = []
        for s in stmts:
            for n in ast.walk(s):
                tg = []
                if isinstance(n, ast.Assign):
                    tg = n.targets
                elif isinstance(n, ast.AugAssign):
                    tg = [n.target]
                for t in tg:
                    for x in (t.elts if isinstance(t, ast.Tuple) else [t]):
                        if isinstance(x, ast.Name) and x.id not in out:
                            out.append(x.id)
        return out

    def raise_line(self, s, p):
        exc = s.exc
        name = exc.func.id if isinstance(exc, ast.Call) and isinstance(exc.func, ast.Name) else None
        tag = {"ValueError": "valueError", "IndexError": "indexError", "TypeError": "typeError",
               "NotImplementedError": "notImplemented"}.get(name)
        if tag is None:
            _fail(s, "unsupported raise")
        msg = " ".join(ast.unparse(a) for a in exc.args).replace("\n", " ").replace("-/", "- /")
        return f"{p}throw PyErr.{tag}  -- {name}({msg})"

    def block(self, stmts, ind, end):
        p = " " * ind
        out = []
        for k, s in enumerate(stmts):
            rest = stmts[k + 1:]
            if isinstance(s, ast.Expr) and isinstance(s.value, ast.Constant) and isinstance(s.value.value, str):
                continue
            if isinstance(s, ast.FunctionDef):
                self.owner.nested_x(self, s)
                continue
            if isinstance(s, ast.If) and not self.has_exit([s]):
                out += self.if_value(s, ind)
                continue
            if isinstance(s, ast.If):
                pre, (c, t) = self.with_pre(lambda: self.expr(s.test))
                if t != B:
                    _fail(s.test, "condition is not boolean")
                out += [p + ln for ln in pre]
                out.append(f"{p}if {c} then")
                env0 = dict(self.env)
                attrs0 = dict(self.selfattrs)
                out += self.block(list(s.body) + (rest if self.falls_through(s.body) else []), ind + 2, end)
                self.env, self.selfattrs = dict(env0), dict(attrs0)
                out.append(f"{p}else")
                out += self.block(list(s.orelse) + (rest if self.falls_through(s.orelse) else []), ind + 2, end)
                self.env, self.selfattrs = env0, attrs0
                return out
            if isinstance(s, ast.Return):
                out += self.ret(s, p)
                return out
            if isinstance(s, ast.Raise):
                out.append(self.raise_line(s, p))
                return out
            out += [p + ln for ln in self.simple(s, ind)]
        out += [p + ln for ln in end]
        return out

    def if_value(self, s, ind):
        """an `if` without return / raise: a sub-block whose value is the tuple of the variables it assigns"""
        p = " " * ind
        names = self.assigned_names([s])
        if not names:
            _fail(s, "`if` without effect")
        env0 = dict(self.env)
        tys = {}

        alias0 = dict(self.alias or {})

        def branch(body, ind2, known=None):
            self.env = dict(env0)
            self.alias = dict(alias0)
            if known is not None:            # `if NAME is not None:` — inside, NAME is the object
                self.env[known] = OG
                self.alias[known] = f"({known}.getD ([], []))"
            tail = ["__PURE__"]
            lines = self.block(body, ind2, tail)
            self.alias = dict(alias0)
            if known is not None:
                self.env[known] = env0[known]
            for n in names:
                if n not in self.env:
                    _fail(s, f"{n} is not defined on every path")
                if tys.setdefault(n, self.env[n]) != self.env[n]:
                    _fail(s, f"{n} has different types on the two paths")
            return lines

        def chain(node, ind2):
            q = " " * ind2
            pre, (c, t) = self.with_pre(lambda: self.expr(node.test))
            if t != B:
                _fail(node.test, "condition is not boolean")
            lines = [q + ln for ln in pre] + [f"{q}if {c} then"]
            lines += branch(node.body, ind2 + 2, self.none_test(node.test))
            lines.append(f"{q}else")
            lines += branch(node.orelse, ind2 + 2)
            return lines

        body = chain(s, ind + 2)
        tup = names[0] if len(names) == 1 else "(" + ", ".join(names) + ")"
        body = [ln.replace("__PURE__", f"pure {tup}") for ln in body]
        t = self.tmp()
        out = [f"{p}let {t} ← (do"] + body
        out[-1] += ")"
        self.env = dict(env0)
        self.alias = alias0
        for k, n in enumerate(names):
            self.env[n] = tys[n]
            if len(names) == 1:
                proj = t
            else:
                proj = t + ".2" * k + (".1" if k < len(names) - 1 else "")
            ann = LEAN_TY.get(tys[n])
            out.append(f"{p}let {n}" + (f" : {ann}" if ann else "") + f" := {proj}")
        return out

    def ret(self, s, p):
        pre, (c, t) = self.with_pre(lambda: self.expr(s.value))
        if t != self.ret_ty:
            _fail(s, f"returns {t}, expected {self.ret_ty}")
        return [p + ln for ln in pre] + [f"{p}pure {c}"]

    def simple(self, s, ind):
        if isinstance(s, ast.Assign) and len(s.targets) == 1:
            t = s.targets[0]
            if isinstance(t, ast.Name):
                pre, (c, ty) = self.with_pre(lambda: self.expr(s.value))
                self.env[t.id] = ty
                ann = LEAN_TY.get(ty)
                return pre + [f"let {t.id}" + (f" : {ann}" if ann else "") + f" := {c}"]
            if isinstance(t, ast.Attribute) and isinstance(t.value, ast.Name) and t.value.id == "self":
                pre, (c, ty) = self.with_pre(lambda: self.expr(s.value))
                lean = "self_" + t.attr
                self.selfattrs[t.attr] = (lean, ty)
                if t.attr.startswith("_") and t.attr[1:] in self.owner.PROPERTIES:
                    self.selfattrs[t.attr[1:]] = (lean, ty)
                return pre + [f"let {lean} : {LEAN_TY[ty]} := {c}"]
            if isinstance(t, ast.Tuple) and all(isinstance(x, ast.Name) for x in t.elts) and len(t.elts) == 3:
                pre, (c, ty) = self.with_pre(lambda: self.expr(s.value))
                if ty != TV:
                    _fail(s, f"unpacking of {ty}")
                u = self.tmp()
                lines = pre + [f"let {u} ← unpack3 {c}"]
                for x, proj in zip(t.elts, (".1", ".2.1", ".2.2")):
                    self.env[x.id] = VF
                    lines.append(f"let {x.id} : List K := {u}{proj}")
                return lines
            _fail(s, "unsupported assignment target")
        if isinstance(s, ast.Expr) and isinstance(s.value, ast.Call):
            c = s.value
            if isinstance(c.func, ast.Attribute) and c.func.attr == "append" and isinstance(c.func.value, ast.Name) and len(c.args) == 1 and not c.keywords:
                nm = c.func.value.id
                pre, (x, tx) = self.with_pre(lambda: self.expr(c.args[0]))
                if self.env.get(nm) != VF or tx != F:
                    _fail(s, f"append of {tx} to {self.env.get(nm)}")
                return pre + [f"let {nm} : List K := ({nm} ++ [{x}])"]
            if ast.unparse(c.func) == "super().__init__" and self.super_init is not None and not c.keywords:
                lean, atys = self.super_init
                pre, got = self.with_pre(lambda: [self.expr(a) for a in c.args])
                if [t for _, t in got] != atys:
                    _fail(s, f"super().__init__ called with {[t for _, t in got]}")
                return pre + [f"let self' ← {lean} " + " ".join(x for x, _ in got)]
            _fail(s, "unsupported expression statement")
        if isinstance(s, ast.For):
            if s.orelse or not isinstance(s.target, ast.Name):
                _fail(s, "unsupported loop")
            pre, (rng, tv) = self.with_pre(lambda: self.range_of(s.iter, s))
            state = []
            for b in ast.walk(ast.Module(body=s.body, type_ignores=[])):
                nm = None
                if isinstance(b, (ast.Assign, ast.AugAssign)):
                    for tg in (b.targets if isinstance(b, ast.Assign) else [b.target]):
                        if isinstance(tg, ast.Name):
                            nm = tg.id
                elif isinstance(b, ast.Call) and isinstance(b.func, ast.Attribute) and b.func.attr == "append" and isinstance(b.func.value, ast.Name):
                    nm = b.func.value.id
                if nm is not None and nm in self.env and nm not in state:
                    state.append(nm)
            if len(state) != 1:
                _fail(s, f"loop must update exactly one outer variable, got {state}")
            st = state[0]
            v = s.target.id
            env0 = dict(self.env)
            self.env[v] = tv
            body = self.block(s.body, 4, [f"pure {st}"])
            self.env = env0
            return pre + [f"let {st} ← {rng}.foldlM (fun {st} {v} => do"] + body + [f"    ) {st}"]
        if isinstance(s, ast.AugAssign):
            return super().simple(s, ind)
        _fail(s, "unsupported statement")



class Translator:
    def __init__(self):
        self.src = (SRC / "cubic.py").read_text()
        self.tree = ast.parse(self.src)
        self.defs = []       # Lean text of the definitions, in dependency order

    def cls(self, name):
        for c in self.tree.body:
            if isinstance(c, ast.ClassDef) and c.name == name:
                return c
        raise Untranslatable(f"class {name} not found in cubic.py")

    def method(self, cls, name):
        for f in self.cls(cls).body:
            if isinstance(f, ast.FunctionDef) and f.name == name:
                return f
        raise Untranslatable(f"{cls}.{name} not found in cubic.py")

    def check_property(self, cls, name, body_src):
        f = self.method(cls, name)
        decos = [ast.unparse(d) for d in f.decorator_list]
        stmts = [s for s in f.body if not (isinstance(s, ast.Expr) and isinstance(s.value, ast.Constant))]
        if decos != ["property"] or len(stmts) != 1 or ast.unparse(stmts[0]) != body_src:
            raise Untranslatable(f"{cls}.{name} is no longer the property `{body_src}`")

    def check_init_stores(self):
        """UniformGrid.__init__ stores its arguments unchanged in _axes/_origin; the base class stores shape."""
        src = [ast.unparse(s) for s in ast.walk(self.method("UniformGrid", "__init__")) if isinstance(s, ast.Assign)]
        for want in ("self._axes = axes", "self._origin = origin"):
            if want not in src:
                raise Untranslatable(f"UniformGrid.__init__ no longer contains `{want}`")
        src = [ast.unparse(s) for s in ast.walk(self.method("_HyperRectangleGrid", "__init__")) if isinstance(s, ast.Assign)]
        if "self._shape = shape" not in src:
            raise Untranslatable("_HyperRectangleGrid.__init__ no longer contains `self._shape = shape`")

    def signature(self, f, want):
        got = [a.arg for a in f.args.args]
        if got != want or f.args.vararg or f.args.kwarg or f.args.kwonlyargs:
            raise Untranslatable(f"{f.name}: signature {got}, expected {want}")

    def emit(self, doc, head, body):
        self.defs.append("/-- " + doc + " -/\n" + head + " := do\n" + "\n".join(body) + "\n")

    # nested helper functions of _choose_weight_scheme
    NESTED = {
        "_fourier1": ("fourier1", ["weight", "shape", "index", "dim"], [ND, VN, N, N], ND),
        "_fourier2": ("fourier2", ["shape", "index"], [VN, N], VF),
    }

    def nested(self, parent, f):
        if f.name not in self.NESTED:
            _fail(f, "unknown nested function")
        lean, params, tys, rty = self.NESTED[f.name]
        self.signature(f, params)
        fn = Fn(self, lean, dict(zip(params, tys)))
        fn.ret_ty = rty
        body = fn.block(f.body, 2, ["throw PyErr.typeError  -- falls off the end: returns None"])
        args = " ".join(f"({p} : {LEAN_TY[t]})" for p, t in zip(params, tys))
        self.emit(f"nested helper `{f.name}` of `UniformGrid._choose_weight_scheme`.",
                  f"def {lean} {args} : Py ({LEAN_TY[rty]})", body)
        parent.funcs[f.name] = (lean, tys, rty, [])

    def run(self):
        self.check_property("UniformGrid", "axes", "return self._axes")
        self.check_property("UniformGrid", "origin", "return self._origin")
        self.check_property("_HyperRectangleGrid", "shape", "return self._shape")
        self.check_property("_HyperRectangleGrid", "ndim", "return len(self._shape)")
        self.check_init_stores()
        selfattrs = {"axes": ("axes", MF), "origin": ("origin", VF), "shape": ("shape", VN)}

        # _calculate_volume(self, shape)
        f = self.method("UniformGrid", "_calculate_volume")
        self.signature(f, ["self", "shape"])
        fn = Fn(self, "calculateVolume", {"shape": VN}, {"axes": ("axes", MF)})
        fn.ret_ty = F
        body = fn.block(f.body, 2, ["throw PyErr.typeError"])
        self.emit("`UniformGrid._calculate_volume(shape)`.",
                  "def calculateVolume (axes : List (List K)) (shape : List Nat) : Py K", body)
        vol = {"self._calculate_volume": ("calculateVolume", [VN], F, ["axes"])}

        # _calculate_alternative_volume(self, shape)
        f = self.method("UniformGrid", "_calculate_alternative_volume")
        self.signature(f, ["self", "shape"])
        fn = Fn(self, "calculateAlternativeVolume", {"shape": VN}, {"axes": ("axes", MF)}, dict(vol))
        fn.ret_ty = F
        body = fn.block(f.body, 2, ["throw PyErr.typeError"])
        self.emit("`UniformGrid._calculate_alternative_volume(shape)`.",
                  "def calculateAlternativeVolume (axes : List (List K)) (shape : List Nat) : Py K", body)
        vol["self._calculate_alternative_volume"] = ("calculateAlternativeVolume", [VN], F, ["axes"])

        # _choose_weight_scheme(self, weight, shape)
        f = self.method("UniformGrid", "_choose_weight_scheme")
        self.signature(f, ["self", "weight", "shape"])
        fn = Fn(self, "chooseWeightScheme", {"weight": S, "shape": VN}, {"axes": ("axes", MF)}, dict(vol))
        fn.ret_ty = VF
        body = fn.block(f.body, 2, ["throw PyErr.typeError"])
        self.emit("`UniformGrid._choose_weight_scheme(weight, shape)`: the flat weight array.",
                  "def chooseWeightScheme (axes : List (List K)) (weight : String) (shape : List Nat) : Py (List K)", body)

        # closest_point(self, point, which="closest")
        f = self.method("UniformGrid", "closest_point")
        self.signature(f, ["self", "point", "which"])
        if [ast.unparse(d) for d in f.args.defaults] != ["'closest'"]:
            raise Untranslatable("closest_point: default of `which` changed")
        attrs = dict(selfattrs)
        attrs["ndim"] = ("shape.length", N)
        fn = Fn(self, "closestPoint", {"point": VF, "which": S}, attrs,
                {"self.coordinates_to_index": ("coordinatesToIndexOf", [VZ], "Z", ["shape", "junk"])})
        fn.ret_ty = "Z"
        LEAN_TY["Z"] = "Int"
        body = fn.block(f.body, 2, ["throw PyErr.typeError"])
        self.emit("`UniformGrid.closest_point(point, which)`; `junk`: content of the uninitialised stride array of "
                  "`coordinates_to_index`.",
                  "def closestPoint [LT K] [DecidableLT K] [Rounding K] (origin : List K) (axes : List (List K)) (shape : List Nat) (junk : Int) "
                  "(point : List K) (which : String) : Py Int", body)

        # from_molecule(cls, atcorenums, atcoords, spacing, extension, rotate, weight)
        f = self.method("UniformGrid", "from_molecule")
        self.signature(f, ["cls", "atcorenums", "atcoords", "spacing", "extension", "rotate", "weight"])
        if [ast.unparse(d) for d in f.decorator_list] != ["classmethod"]:
            raise Untranslatable("from_molecule is no longer a classmethod")
        fn = Fn(self, "fromMolecule", {"atcorenums": VF, "atcoords": MF, "spacing": F, "extension": F,
                                        "rotate": B, "weight": S})
        fn.ret_ty = None
        body = fn.block(f.body, 2, ["throw PyErr.typeError"])
        self.emit("`UniformGrid.from_molecule(...)`: the arguments `(origin, axes, shape)` handed to the constructor. "
                  "`eigh`: `np.linalg.eigh` (eigenvalues, matrix whose columns are the eigenvectors).",
                  "def fromMolecule [LT K] [DecidableLT K] [Rounding K] (eigh : List (List K) → List K × List (List K)) (atcorenums : List K) "
                  "(atcoords : List (List K)) (spacing extension : K) (rotate : Bool) (weight : String) : "
                  "Py (List K × List (List K) × List Int)", body)
        return "\n".join(self.defs)


    # ------------------------------------------------------------------------------------------
    # round 3: Gen/CubicInterp.lean
    # ------------------------------------------------------------------------------------------
    PROPERTIES = ("axes", "origin", "shape")
    CTX = [("CubicSpline", "Interp1 K"), ("shape", "List Nat"), ("junk", "Int"), ("self_points", "List (List K)")]
    NESTEDX = {
        "z_spline": ("zSpline", ["z", "x_index", "y_index", "nu_z"], [VF, Z, Z, N], VF),
        "y_splines": ("ySplines", ["y", "x_index", "z", "nu_y"], [VF, Z, VF, N], VF),
        "x_spline": ("xSpline", ["x", "y", "z", "nu_x"], [VF, VF, VF, N], VF),
    }

    def nested_x(self, parent, f):
        if f.name not in self.NESTEDX:
            _fail(f, "unknown nested function")
        lean, params, tys, rty = self.NESTEDX[f.name]
        self.signature(f, params)
        for d, a in zip(reversed(f.args.defaults), reversed(f.args.args)):
            if not (isinstance(d, ast.Name) and d.id == a.arg):
                _fail(f, "default of a nested function is not the enclosing variable of the same name")
        caps = getattr(parent, "nested_caps", None)
        if caps is None:
            caps = parent.nested_caps = {}
        captured = []
        for n in ast.walk(ast.Module(body=f.body, type_ignores=[])):
            if isinstance(n, ast.Name) and isinstance(n.ctx, ast.Load):
                names = [n.id] if n.id in parent.env and parent.env[n.id] != CALLABLE else list(caps.get(n.id, []))
                for nm in names:
                    if nm in params:
                        if nm in caps.get(n.id, []):
                            _fail(f, f"parameter {nm} shadows a variable captured by {n.id}")
                        continue
                    if nm not in captured:
                        captured.append(nm)
        captured.sort()
        env = {c: parent.env[c] for c in captured}
        env.update(zip(params, tys))
        fn = FnX(self, lean, env, dict(parent.selfattrs), dict(parent.funcs))
        fn.ret_ty = rty
        fn.nested_caps = caps
        body = fn.block(f.body, 2, ["throw PyErr.typeError  -- falls off the end: returns None"])
        args = " ".join(f"({n} : {t})" for n, t in self.CTX)
        args += "".join(f" ({c} : {LEAN_TY[parent.env[c]]})" for c in captured)
        args += "".join(f" ({p} : {LEAN_TY[t]})" for p, t in zip(params, tys))
        self.emit(f"closure `{f.name}` of `_HyperRectangleGrid.interpolate`; captured variables: "
                  f"{', '.join(captured) if captured else 'none'} (after the grid `self` and `CubicSpline`).",
                  f"def {lean} {args} : Py ({LEAN_TY[rty]})", body)
        parent.funcs[f.name] = (lean, tys, rty, [n for n, _ in self.CTX] + captured)
        caps[f.name] = captured

    def defaults_of(self, f, names, tys):
        """default values of the trailing parameters `names` -> (dict name -> node, lean tuple text, lean type text)"""
        d = f.args.defaults
        if len(d) != len(names) or [a.arg for a in f.args.args][-len(names):] != names:
            raise Untranslatable(f"{f.name}: the defaulted parameters are no longer {names}")
        fx = FnX(self, f.name, {})
        vals = []
        for node, t in zip(d, tys):
            c, got = fx.expr(node)
            if got == N and t == F:
                c, got = fx.toF(c, got, node), F
            if got != t or fx.pre:
                _fail(node, f"default of type {got}, expected {t}")
            vals.append(c)
        return dict(zip(names, d)), "(" + ", ".join(vals) + ")", " × ".join(LEAN_TY[t] for t in tys)

    def run_interp(self):
        self.defs = []
        self.check_property("_HyperRectangleGrid", "shape", "return self._shape")
        self.check_property("_HyperRectangleGrid", "ndim", "return len(self._shape)")
        self.check_property("UniformGrid", "axes", "return self._axes")
        self.check_property("UniformGrid", "origin", "return self._origin")
        selfattrs = {"shape": ("shape", VN), "points": ("self_points", MF), "ndim": ("shape.length", N)}
        c2i = {"self.coordinates_to_index": ("coordinatesToIndexOf", [VZ], Z, ["shape", "junk"])}
        grid_args = "(shape : List Nat) (junk : Int) (self_points : List (List K))"

        # _HyperRectangleGrid.__init__(self, points, weights, shape)
        f = self.method("_HyperRectangleGrid", "__init__")
        self.signature(f, ["self", "points", "weights", "shape"])
        fn = FnX(self, "hyperRectangleInit", {"points": MF, "weights": VF, "shape": VZ})
        fn.ret_ty = None
        fn.super_init = ("gridInit", [MF, VF])
        body = fn.block(f.body, 2, ["pure (self'.1, self'.2, self__shape)"])
        self.emit("`_HyperRectangleGrid.__init__(points, weights, shape)`: the stored `(points, weights, shape)`; "
                  "`super().__init__` is `Grid.__init__` (`gridInit`).",
                  "def hyperRectangleInit [LT K] [DecidableLT K] (points : List (List K)) (weights : List K) (shape : List Int) : "
                  "Py (List (List K) × List K × List Int)", body)

        # get_points_along_axes(self)
        f = self.method("_HyperRectangleGrid", "get_points_along_axes")
        self.signature(f, ["self"])
        fn = FnX(self, "getPointsAlongAxes", {}, dict(selfattrs), dict(c2i))
        fn.ret_ty = TV
        body = fn.block(f.body, 2, ["throw PyErr.typeError"])
        self.emit("`_HyperRectangleGrid.get_points_along_axes()`: the tuple of node arrays; `junk`: content of the uninitialised "
                  "stride array of `coordinates_to_index`.",
                  f"def getPointsAlongAxes {grid_args} : Py (List (List K))", body)

        # interpolate(self, points, values, use_log=False, nu_x=0, nu_y=0, nu_z=0, method="cubic")
        f = self.method("_HyperRectangleGrid", "interpolate")
        names = ["points", "values", "use_log", "nu_x", "nu_y", "nu_z", "method"]
        tys = [MF, VF, B, N, N, N, S]
        self.signature(f, ["self"] + names)
        defaults, dval, dty = self.defaults_of(f, names[2:], tys[2:])
        self.defs.append("/-- default values of `use_log, nu_x, nu_y, nu_z, method` in the signature of `interpolate`. -/\n"
                         f"def interpolateDefaults : {dty} := {dval}\n")
        funcs = dict(c2i)
        funcs["self.get_points_along_axes"] = ("getPointsAlongAxes", [], TV, ["shape", "junk", "self_points"])
        fn = FnX(self, "interpolateStep", dict(zip(names, tys)), dict(selfattrs), funcs)
        fn.ret_ty = VF
        fn.rec_sig = (names, tys, defaults)
        fn.nested_caps = {}
        body = fn.block(f.body, 2, ["throw PyErr.typeError"])
        rec_ty = " → ".join(LEAN_TY[t] for t in tys) + " → Py (List K)"
        prim = ("(CubicSpline : Interp1 K) (RegularGridInterpolator : String → InterpGrid K) (bell : Nat → Nat → List K → K) "
                + grid_args)
        sig = " ".join(f"({n} : {LEAN_TY[t]})" for n, t in zip(names, tys))
        self.emit("one level of `_HyperRectangleGrid.interpolate(points, values, use_log, nu_x, nu_y, nu_z, method)`: the value at every "
                  "query point. `self_interpolate` stands for the method itself in the recursive calls (all of which pass `use_log=False`); "
                  "`CubicSpline`, `RegularGridInterpolator`, `bell` are SciPy's / SymPy's callables.",
                  f"def interpolateStep [LT K] [DecidableLT K] (self_interpolate : {rec_ty}) {prim} {sig} : Py (List K)", body)
        prim_names = "CubicSpline RegularGridInterpolator bell shape junk self_points"
        self.defs.append(
            "/-- `_HyperRectangleGrid.interpolate`: a recursive call passes `use_log=False` and a call with `use_log=False` does not recurse, "
            "so two levels are the whole recursion. -/\n"
            f"def interpolate [LT K] [DecidableLT K] {prim} {sig} : Py (List K) :=\n"
            f"  interpolateStep (interpolateStep (fun _ _ _ _ _ _ _ => throw PyErr.notImplemented) {prim_names}) {prim_names}\n"
            f"    {' '.join(names)}\n")

        # UniformGrid.__init__(self, origin, axes, shape, weight="Trapezoid")
        f = self.method("UniformGrid", "__init__")
        self.signature(f, ["self", "origin", "axes", "shape", "weight"])
        if [ast.unparse(d) for d in f.args.defaults] != ["'Trapezoid'"]:
            raise Untranslatable("UniformGrid.__init__: default of `weight` changed")
        fn = FnX(self, "uniformGridInit", {"origin": VF, "axes": MF, "shape": VZ, "weight": S}, {},
                 {"self._choose_weight_scheme": ("chooseWeightScheme", [S, VN], VF, ["self__axes"])})
        fn.ret_ty = None
        fn.super_init = ("hyperRectangleInit", [MF, VF, VZ])
        body = fn.block(f.body, 2, ["pure self'"])
        self.emit("`UniformGrid.__init__(origin, axes, shape, weight)` on array arguments: the `(points, weights, shape)` handed to and stored by "
                  "`_HyperRectangleGrid.__init__`.",
                  "def uniformGridInit [LT K] [DecidableLT K] (origin : List K) (axes : List (List K)) (shape : List Int) (weight : String) : "
                  "Py (List (List K) × List K × List Int)", body)

        # Tensor1DGrids.__init__(self, oned_x, oned_y, oned_z=None)
        f = self.method("Tensor1DGrids", "__init__")
        self.signature(f, ["self", "oned_x", "oned_y", "oned_z"])
        if [ast.unparse(d) for d in f.args.defaults] != ["None"]:
            raise Untranslatable("Tensor1DGrids.__init__: default of `oned_z` changed")
        fn = FnX(self, "tensor1DInit", {"oned_x": OG, "oned_y": OG, "oned_z": OOG})
        fn.ret_ty = None
        fn.super_init = ("hyperRectangleInit", [MF, VF, VZ])
        body = fn.block(f.body, 2, ["pure self'"])
        self.emit("`Tensor1DGrids.__init__(oned_x, oned_y, oned_z=None)`; a `OneDGrid` is the pair `(points, weights)` (its `size` is the number "
                  "of weights): the `(points, weights, shape)` handed to and stored by `_HyperRectangleGrid.__init__`.",
                  "def tensor1DInit [LT K] [DecidableLT K] (oned_x oned_y : List K × List K) (oned_z : Option (List K × List K)) : "
                  "Py (List (List K) × List K × List Int)", body)

        # Tensor1DGrids.origin
        f = self.method("Tensor1DGrids", "origin")
        if [ast.unparse(d) for d in f.decorator_list] != ["property"]:
            raise Untranslatable("Tensor1DGrids.origin is no longer a property")
        fn = FnX(self, "tensorOrigin", {}, {"points": ("self_points", MF)})
        fn.ret_ty = VF
        body = fn.block(f.body, 2, ["throw PyErr.typeError"])
        self.emit("`Tensor1DGrids.origin`.", "def tensorOrigin (self_points : List (List K)) : Py (List K)", body)

        # defaults of from_molecule
        f = self.method("UniformGrid", "from_molecule")
        _, dval, dty = self.defaults_of(f, ["spacing", "extension", "rotate", "weight"], [F, F, B, S])
        self.defs.append("/-- default values of `spacing, extension, rotate, weight` in the signature of `UniformGrid.from_molecule`. -/\n"
                         f"def fromMoleculeDefaults : {dty} := {dval}\n")
        return "\n".join(self.defs)


PRELUDE = """import GridVerif.Model.CubicNp

namespace GridVerif.Gen.CubicGrid
open GridVerif GridVerif.Cubic

set_option linter.unusedVariables false

section
variable {K : Type} [Add K] [Sub K] [Mul K] [Div K] [Neg K] [NatCast K] [Elem K]

/-- `self.coordinates_to_index(coord)` on integer-valued coordinates: the generated stride code. -/
def coordinatesToIndexOf (shape : List Nat) (junk : Int) (coord : List Int) : Py Int :=
  Gen.CubicIndex.coordinatesToIndex (shape.length : Nat) (shape.map Int.ofNat) junk coord

"""


def translate():
    return Translator().run()


PRELUDE_X = """import GridVerif.Model.CubicInterpNp
import GridVerif.Gen.CubicGrid

namespace GridVerif.Gen.CubicInterp
open GridVerif GridVerif.Cubic GridVerif.Gen.CubicGrid

set_option linter.unusedVariables false

section
variable {K : Type} [Add K] [Sub K] [Mul K] [Div K] [Neg K] [NatCast K] [Elem K]

"""


def translate_interp():
    return Translator().run_interp()


def generate():
    text = HEADER.format(name="cubic_grid", source="src/grid/cubic.py (UniformGrid._calculate_volume, "
                         "_calculate_alternative_volume, _choose_weight_scheme, closest_point, from_molecule)")
    text += PRELUDE + translate() + "\nend\n\nend GridVerif.Gen.CubicGrid\n"
    c1, d1 = write_if_changed("CubicGrid.lean", text)
    text = HEADER.format(name="cubic_grid", source="src/grid/cubic.py (_HyperRectangleGrid.__init__, get_points_along_axes, "
                         "interpolate with z_spline / y_splines / x_spline, UniformGrid.__init__, Tensor1DGrids.__init__ / origin, defaults of from_molecule)")
    text += PRELUDE_X + translate_interp() + "\nend\n\nend GridVerif.Gen.CubicInterp\n"
    c2, d2 = write_if_changed("CubicInterp.lean", text)
    return (c1 or c2), (d1 + d2)[:6000]


if __name__ == "__main__":
    import sys
    print(translate_interp() if "interp" in sys.argv[1:] else translate())

"""Translator: the float code of grid/cubic.py -> Gen/CubicGrid.lean.

AST based, typed.  Translated (statement by statement, expression by expression):

    UniformGrid._calculate_volume, _calculate_alternative_volume, _choose_weight_scheme
        (all five schemes with the nested helpers `_fourier1`, `_fourier2`),
    UniformGrid.closest_point, UniformGrid.from_molecule
    (+ the one-line properties `axes`, `origin`, `shape`, `ndim` they go through).

The target is Lean `do` code in the `Except PyErr` monad over the NumPy primitives of
`Model/CubicNp.lean` / `Model/Cubic.lean`, generic in the number type `K` (Float in the driver,
the reals in the theorems).  A small type system (float / nat / int scalars, float / nat / int
vectors, float matrices, n-D arrays, strings, booleans) selects the broadcasting form of every
operator and the primitive behind every NumPy call; a construct outside the tables raises
`Untranslatable`, which the check treats like a proof obligation that no longer holds.

Control flow: `if / elif / else` whose branches fall through get the rest of the block appended to
every branch (no mutable variables, no early return in the Lean text); `for i in range(n)` updating
one array is a `foldlM`; sub-expressions that can raise (indexing, `np.cross`, `np.dot` of two
vectors, calls of translated functions) are bound to temporaries `t1, t2, …` in evaluation order.

What the theorems of Props/C13/GenTie.lean see is therefore the source's own arithmetic:
`shape + 1.0`, the signed `np.diagonal` step, `np.rint`, `np.clip`, `np.ceil`, `0.5 * shape`,
`np.dot(atcoords - com, v)` vs. `spacing * v`, the einsum index strings, ….
"""
import ast
from fractions import Fraction

from ..common import SRC
from .util import HEADER, write_if_changed


class Untranslatable(Exception):
    pass


def _fail(node, why):
    raise Untranslatable(f"cubic.py line {getattr(node, 'lineno', '?')}: {why}: {ast.unparse(node)[:140]}")


# types
F, N, VF, VN, VZ, MF, ND, S, B = "F", "N", "VF", "VN", "VZ", "MF", "ND", "S", "B"
LEAN_TY = {F: "K", N: "Nat", VF: "List K", VN: "List Nat", VZ: "List Int", MF: "List (List K)",
           ND: "Nd K", S: "String", B: "Bool"}
ARITH = {ast.Add: "+", ast.Sub: "-", ast.Mult: "*", ast.Div: "/"}
CMP = {ast.Eq: "==", ast.NotEq: "!=", ast.Lt: "<", ast.LtE: "≤", ast.Gt: ">", ast.GtE: "≥"}
ELEMWISE = {"np.sin": "Elem.sin", "np.cos": "Elem.cos", "np.abs": "Elem.abs", "np.exp": "Elem.exp",
            "np.sqrt": "Elem.sqrt"}
ROUND = {"np.floor": "Rounding.floorI", "np.rint": "Rounding.rintI", "np.ceil": "Rounding.ceilI"}


def flt(x):
    """Lean text of a Python float literal (generic `K`: naturals and quotients of naturals)."""
    fr = Fraction(x)
    if fr < 0:
        raise Untranslatable(f"negative literal {x}")
    if fr.denominator == 1:
        return f"(({fr.numerator} : Nat) : K)"
    if Fraction(float(fr)) != fr or fr.denominator > 10 ** 6:
        raise Untranslatable(f"literal {x} is not a small quotient")
    return f"((({fr.numerator} : Nat) : K) / (({fr.denominator} : Nat) : K))"


class Fn:
    """Translation of one function body."""

    def __init__(self, owner, name, env, selfattrs=None, funcs=None):
        self.owner = owner          # Translator
        self.name = name
        self.env = dict(env)        # python name -> type
        self.selfattrs = selfattrs or {}   # attribute of self -> (lean text, type)
        self.funcs = funcs or {}    # callable name -> (lean name, [arg types], ret type, extra lean args)
        self.pre = []
        self.ntmp = 0

    # -- helpers ----------------------------------------------------------------
    def tmp(self):
        self.ntmp += 1
        return f"t{self.ntmp}'"

    def hoist(self, action, ty):
        t = self.tmp()
        self.pre.append(f"let {t} ← {action}")
        return t, ty

    def toF(self, c, ty, node):
        if ty == F:
            return c
        if ty == N:
            return f"(({c} : Nat) : K)"
        _fail(node, f"scalar of type {ty} where a float is needed")

    def toVF(self, c, ty, node):
        if ty == VF:
            return c
        if ty == VN:
            return f"({c}.map fun (s' : Nat) => (s' : K))"
        if ty == VZ:
            return f"({c}.map fun (s' : Int) => (intToK s' : K))"
        _fail(node, f"array of type {ty} where a float vector is needed")

    # -- expressions ------------------------------------------------------------
    def expr(self, e):
        m = getattr(self, "e_" + type(e).__name__, None)
        if m is None:
            _fail(e, "unsupported expression")
        return m(e)

    def e_Constant(self, e):
        v = e.value
        if isinstance(v, bool):
            return ("true" if v else "false"), B
        if isinstance(v, int):
            if v < 0:
                _fail(e, "negative integer literal")
            return f"{v}", N
        if isinstance(v, float):
            return flt(v), F
        if isinstance(v, str):
            return '"' + v.replace('"', '\\"') + '"', S
        _fail(e, "unsupported constant")

    def e_Name(self, e):
        if e.id in self.env:
            return e.id, self.env[e.id]
        _fail(e, "unknown name")

    def e_Attribute(self, e):
        src = ast.unparse(e)
        if src == "np.pi":
            return "Elem.pi", F
        if isinstance(e.value, ast.Name) and e.value.id == "self":
            if e.attr in self.selfattrs:
                return self.selfattrs[e.attr]
            _fail(e, "unknown attribute of self")
        if e.attr == "T":
            c, ty = self.expr(e.value)
            if ty == VF:
                return c, VF          # .T of a 1-D array is the array
            if ty == MF:
                return f"(npTranspose {c})", MF
        if e.attr == "size":
            c, ty = self.expr(e.value)
            if ty in (VF, VN, VZ):
                return f"{c}.length", N
        _fail(e, "unsupported attribute")

    def e_UnaryOp(self, e):
        if isinstance(e.op, ast.Not):
            c, ty = self.expr(e.operand)
            if ty != B:
                _fail(e, "`not` of a non-boolean")
            return f"(!{c})", B
        _fail(e, "unsupported unary operator")

    def e_Compare(self, e):
        if len(e.ops) != 1 or type(e.ops[0]) not in CMP:
            _fail(e, "unsupported comparison")
        op = CMP[type(e.ops[0])]
        a, ta = self.expr(e.left)
        b, tb = self.expr(e.comparators[0])
        if ta == tb and ta in (N, S) and op in ("==", "!="):
            return f"({a} {op} {b})", B
        if ta == tb == N:
            return f"(decide ({a} {op} {b}))", B
        _fail(e, f"comparison of {ta} with {tb}")

    def e_Subscript(self, e):
        # X.shape[0] : number of rows / entries
        if isinstance(e.value, ast.Attribute) and e.value.attr == "shape":
            c, ty = self.expr(e.value.value)
            if ty in (VF, MF, VN, VZ) and isinstance(e.slice, ast.Constant) and e.slice.value == 0:
                return f"{c}.length", N
            _fail(e, "unsupported use of .shape")
        c, ty = self.expr(e.value)
        i, ti = self.expr(e.slice)
        if ti != N:
            _fail(e, "index is not a natural number")
        if ty == VN:
            return self.hoist(f"nGet {c} {i}", N)
        if ty == VF:
            return self.hoist(f"kGet {c} {i}", F)
        if ty == MF:
            return self.hoist(f"mRow {c} {i}", VF)
        _fail(e, f"indexing into {ty}")

    def e_List(self, e):
        items = [self.expr(x) for x in e.elts]
        if items and all(t in (F, N) for _, t in items):
            return "[" + ", ".join(self.toF(c, t, e) for c, t in items) + "]", VF
        if items and all(t == VF for _, t in items):
            return "[" + ", ".join(c for c, _ in items) + "]", MF
        _fail(e, "unsupported list literal")

    def e_ListComp(self, e):
        if len(e.generators) != 1 or e.generators[0].ifs or e.generators[0].is_async:
            _fail(e, "unsupported comprehension")
        g = e.generators[0]
        it = g.iter
        if not (isinstance(g.target, ast.Name) and isinstance(it, ast.Call) and ast.unparse(it.func) == "range"
                and len(it.args) == 1 and not it.keywords):
            _fail(e, "comprehension is not over range(n)")
        n, tn = self.expr(it.args[0])
        if tn != N:
            _fail(e, "range of a non-integer")
        v = g.target.id
        outer_pre, self.pre = self.pre, []
        saved = self.env.get(v)
        self.env[v] = N
        c, ty = self.expr(e.elt)
        inner = self.pre
        self.pre = outer_pre
        if saved is None:
            del self.env[v]
        else:
            self.env[v] = saved
        if ty not in (F, N):
            _fail(e, "comprehension of non-scalars")
        body = " ".join(f"{ln};" for ln in inner) + f" pure {self.toF(c, ty, e)}"
        return self.hoist(f"(List.range {n}).mapM fun {v} => do {body}", VF)

    def e_BinOp(self, e):
        a, ta = self.expr(e.left)
        b, tb = self.expr(e.right)
        if isinstance(e.op, ast.Pow):
            if ta == N and tb == N:
                return f"({a} ^ {b})", N
            if ta in (F, N) and tb in (F, N):
                return f"(Elem.rpow {self.toF(a, ta, e)} {self.toF(b, tb, e)})", F
            if ta == VF and tb in (F, N):
                return f"({a}.map fun x' => Elem.rpow x' {self.toF(b, tb, e)})", VF
            _fail(e, f"power {ta} ** {tb}")
        if type(e.op) not in ARITH:
            _fail(e, "unsupported operator")
        op = ARITH[type(e.op)]
        sc = (F, N)
        vec = (VF, VN, VZ)
        # scalars
        if ta == N and tb == N:
            if op in ("+", "*"):
                return f"({a} {op} {b})", N
            if op == "/":
                return f"({self.toF(a, ta, e)} / {self.toF(b, tb, e)})", F
            _fail(e, "subtraction of natural numbers (would need integers)")
        if ta in sc and tb in sc:
            return f"({self.toF(a, ta, e)} {op} {self.toF(b, tb, e)})", F
        # integer vector minus integer constant stays an integer vector
        if ta == VN and tb == N and op in ("-", "+"):
            return f"({a}.map fun (s' : Nat) => (s' : Int) {op} {b})", VZ
        # vector with scalar
        if ta in vec and tb in sc:
            return f"({self.toVF(a, ta, e)}.map fun x' => x' {op} {self.toF(b, tb, e)})", VF
        if ta in sc and tb in vec:
            return f"({self.toVF(b, tb, e)}.map fun x' => {self.toF(a, ta, e)} {op} x')", VF
        if ta in vec and tb in vec:
            return f"(List.zipWith (fun x' y' => x' {op} y') {self.toVF(a, ta, e)} {self.toVF(b, tb, e)})", VF
        # matrices
        if ta == MF and tb in sc:
            return f"({a}.map fun r' => r'.map fun x' => x' {op} {self.toF(b, tb, e)})", MF
        if ta in sc and tb == MF:
            return f"({b}.map fun r' => r'.map fun x' => {self.toF(a, ta, e)} {op} x')", MF
        if ta == MF and tb == MF:
            return f"(List.zipWith (fun r' q' => List.zipWith (fun x' y' => x' {op} y') r' q') {a} {b})", MF
        if ta == MF and tb in vec:      # broadcasting of a 1-D array over the rows
            return f"({a}.map fun r' => List.zipWith (fun x' y' => x' {op} y') r' {self.toVF(b, tb, e)})", MF
        # n-D array with scalar
        if ta == ND and tb in sc:
            return f"(Nd.map (fun x' => x' {op} {self.toF(b, tb, e)}) {a})", ND
        if ta in sc and tb == ND:
            return f"(Nd.map (fun x' => {self.toF(a, ta, e)} {op} x') {b})", ND
        _fail(e, f"operator {op} on {ta}, {tb}")

    def e_Call(self, e):
        fn = ast.unparse(e.func)
        kw = {k.arg: k.value for k in e.keywords}
        args = e.args

        def plain(n):
            if len(args) != n or kw:
                _fail(e, f"{fn}: expected {n} positional arguments")
            return [self.expr(a) for a in args]

        if fn in self.funcs:
            lean, atys, rty, extra = self.funcs[fn]
            got = plain(len(atys))
            for (c, t), want in zip(got, atys):
                if t != want:
                    _fail(e, f"{fn}: argument of type {t}, expected {want}")
            return self.hoist(" ".join([lean] + extra + [c if c.startswith("(") or c.isidentifier() or c.isdigit() else f"({c})" for c, _ in got]), rty)
        if fn == "len":
            (c, t), = plain(1)
            if t in (VF, VN, VZ, MF):
                return f"{c}.length", N
            _fail(e, "len of a non-sequence")
        if fn == "np.prod":
            (c, t), = plain(1)
            if t == VN:
                return f"(numPoints {c})", N
            if t == VF:
                return f"(prodK {c})", F
            _fail(e, f"np.prod of {t}")
        if fn == "np.sum":
            (c, t), = plain(1)
            if t == VF:
                return f"(sumK {c})", F
            _fail(e, f"np.sum of {t}")
        if fn in ELEMWISE:
            (c, t), = plain(1)
            g = ELEMWISE[fn]
            if t in (F, N):
                return f"({g} {self.toF(c, t, e)})", F
            if t == VF:
                return f"({c}.map fun x' => {g} x')", VF
            if t == MF:
                return f"({c}.map fun r' => r'.map fun x' => {g} x')", MF
            _fail(e, f"{fn} of {t}")
        if fn in ROUND:
            (c, t), = plain(1)
            if t == VF:
                return f"({c}.map fun x' => ({ROUND[fn]} x' : Int))", VZ
            _fail(e, f"{fn} of {t}")
        if fn == "np.clip":
            (c, t), (lo, tl), (hi, th) = plain(3)
            if t == VZ and tl == N and th == VZ:
                return f"(npClip {c} ({lo} : Int) {hi})", VZ
            _fail(e, f"np.clip of {t}, {tl}, {th}")
        if fn == "np.dot":
            (a, ta), (b, tb) = plain(2)
            if ta in (VF, VN, VZ) and tb in (VF, VN, VZ):
                return self.hoist(f"npDotVV {self.toVF(a, ta, e)} {self.toVF(b, tb, e)}", F)
            if ta in (VF, VN, VZ) and tb == MF:
                return f"(npVecMat {self.toVF(a, ta, e)} {b})", VF
            if ta == MF and tb == MF:
                return f"(npMatMul {a} {b})", MF
            _fail(e, f"np.dot of {ta}, {tb}")
        if fn == "np.cross":
            (a, ta), (b, tb) = plain(2)
            if ta == VF and tb == VF:
                return self.hoist(f"npCross {a} {b}", VF)
            _fail(e, f"np.cross of {ta}, {tb}")
        if fn == "np.linalg.det":
            (a, ta), = plain(1)
            if ta == MF:
                return self.hoist(f"det {a}", F)
            _fail(e, f"det of {ta}")
        if fn == "np.linalg.norm":
            (a, ta), = plain(1)
            if ta == VF:
                return f"(npNorm {a})", F
            _fail(e, f"norm of {ta}")
        if fn == "np.array":
            if len(args) == 1 and not kw:
                c, t = self.expr(args[0])
                if t in (VF, MF, VN, VZ):
                    return c, t
            if len(args) == 2 and not kw and ast.unparse(args[1]) == "int":
                c, t = self.expr(args[0])
                if t == VZ:           # integer-valued floats -> ints
                    return c, VZ
            _fail(e, "unsupported np.array(...)")
        if fn == "np.full":
            (n, tn), (x, tx) = plain(2)
            if tn == N and tx in (F, N):
                return f"(List.replicate {n} {self.toF(x, tx, e)})", VF
            _fail(e, f"np.full of {tn}, {tx}")
        if fn == "np.ones":
            (n, tn), = plain(1)
            if tn == N:
                return f"(List.replicate {n} ((1 : Nat) : K))", VF
            if tn == VN:
                return f"(Nd.ones {n} : Nd K)", ND
            _fail(e, f"np.ones of {tn}")
        if fn == "np.zeros":
            if len(args) == 1 and not kw and isinstance(args[0], ast.List) and len(args[0].elts) == 2 \
                    and all(isinstance(x, ast.Constant) and isinstance(x.value, int) for x in args[0].elts):
                r, c = (x.value for x in args[0].elts)
                return f"(List.replicate {r} (List.replicate {c} ((0 : Nat) : K)))", MF
            _fail(e, "unsupported np.zeros(...)")
        if fn == "np.arange":
            (a, ta), (b, tb) = plain(2)
            if ta == N and tb == N:
                return f"((npArange {a} {b}).map fun (s' : Nat) => (s' : K))", VF
            _fail(e, f"np.arange of {ta}, {tb}")
        if fn == "np.outer":
            (a, ta), (b, tb) = plain(2)
            if ta == VF and tb == VF:
                return f"(npOuter {a} {b})", MF
            _fail(e, f"np.outer of {ta}, {tb}")
        if fn == "np.diag":
            (a, ta), = plain(1)
            if ta == VF:
                return f"(npDiag {a})", MF
            _fail(e, f"np.diag of {ta}")
        if fn == "np.diagonal":
            (a, ta), = plain(1)
            if ta == MF:
                return f"(diagonal {a})", VF
            _fail(e, f"np.diagonal of {ta}")
        if fn == "np.count_nonzero":
            (a, ta), = plain(1)
            if ta == MF:
                return f"(npCountNonzero {a})", N
            _fail(e, f"np.count_nonzero of {ta}")
        if fn in ("np.amax", "np.amin"):
            if len(args) == 1 and list(kw) == ["axis"] and isinstance(kw["axis"], ast.Constant) and kw["axis"].value == 0:
                a, ta = self.expr(args[0])
                if ta == MF:
                    return self.hoist(("npAmax0 " if fn == "np.amax" else "npAmin0 ") + a, VF)
            _fail(e, f"unsupported {fn}(...)")
        if fn == "np.ravel":
            (a, ta), = plain(1)
            if ta == ND:
                return f"(Nd.ravel {a})", VF
            _fail(e, f"np.ravel of {ta}")
        if fn == "np.einsum":
            if kw or not args or not (isinstance(args[0], ast.Constant) and isinstance(args[0].value, str)):
                _fail(e, "unsupported einsum")
            spec = args[0].value.replace(" ", "")
            ops = [self.expr(a) for a in args[1:]]
            ins, _, out = spec.partition("->")
            ins = ins.split(",")
            if len(ins) != len(ops):
                _fail(e, "einsum: operand count")
            if spec == "ij,j->i" and [t for _, t in ops] == [MF, VF]:
                return f"(einsumMatVec {ops[0][0]} {ops[1][0]})", VF
            # "<labels>,a,b,…-><labels>": scale along the named axes, in the order written
            if ops[0][1] == ND and out == ins[0] and len(set(out)) == len(out) \
                    and all(len(x) == 1 and x in out and t == VF for x, (_, t) in zip(ins[1:], ops[1:])):
                cur = ops[0][0]
                for x, (c, _) in zip(ins[1:], ops[1:]):
                    cur, _ = self.hoist(f"Nd.scaleAxis {cur} {out.index(x)} {c}", ND)
                return cur, ND
            _fail(e, f"unsupported einsum {spec!r} on {[t for _, t in ops]}")
        _fail(e, "unsupported call")

    # -- statements ---------------------------------------------------------------
    @staticmethod
    def falls_through(stmts):
        if not stmts:
            return True
        s = stmts[-1]
        if isinstance(s, (ast.Return, ast.Raise)):
            return False
        if isinstance(s, ast.If):
            return Fn.falls_through(s.body) or Fn.falls_through(s.orelse)
        return True

    def with_pre(self, fn):
        """run fn() collecting hoisted temporaries -> (pre lines, result)"""
        saved, self.pre = self.pre, []
        r = fn()
        pre, self.pre = self.pre, saved
        return pre, r

    def block(self, stmts, ind, end):
        """`end`: Lean lines for falling off the end of the enclosing function / loop body."""
        p = " " * ind
        out = []
        for k, s in enumerate(stmts):
            rest = stmts[k + 1:]
            if isinstance(s, ast.Expr) and isinstance(s.value, ast.Constant) and isinstance(s.value.value, str):
                continue
            if isinstance(s, ast.FunctionDef):
                self.owner.nested(self, s)
                continue
            if isinstance(s, ast.If):
                pre, (c, t) = self.with_pre(lambda: self.expr(s.test))
                if t != B:
                    _fail(s.test, "condition is not boolean")
                out += [p + ln for ln in pre]
                out.append(f"{p}if {c} then")
                env0 = dict(self.env)
                out += self.block(list(s.body) + (rest if self.falls_through(s.body) else []), ind + 2, end)
                self.env = dict(env0)
                out.append(f"{p}else")
                out += self.block(list(s.orelse) + (rest if self.falls_through(s.orelse) else []), ind + 2, end)
                self.env = env0
                return out
            if isinstance(s, ast.Return):
                out += self.ret(s, p)
                return out
            if isinstance(s, ast.Raise):
                exc = s.exc
                name = exc.func.id if isinstance(exc, ast.Call) and isinstance(exc.func, ast.Name) else None
                tag = {"ValueError": "valueError", "IndexError": "indexError", "TypeError": "typeError",
                       "NotImplementedError": "notImplemented"}.get(name)
                if tag is None:
                    _fail(s, "unsupported raise")
                out.append(f"{p}throw PyErr.{tag}")
                return out
            out += [p + ln for ln in self.simple(s, ind)]
        out += [p + ln for ln in end]
        return out

    def ret(self, s, p):
        v = s.value
        if isinstance(v, ast.Call) and ast.unparse(v.func) == "cls":
            # from_molecule: the constructor arguments are the result
            pre, items = self.with_pre(lambda: [self.expr(a) for a in v.args])
            want = [VF, MF, VZ, S]
            if [t for _, t in items] != want:
                _fail(s, f"cls(...) called with {[t for _, t in items]}")
            return [p + ln for ln in pre] + [f"{p}pure ({items[0][0]}, {items[1][0]}, {items[2][0]})"]
        pre, (c, t) = self.with_pre(lambda: self.expr(v))
        if t != self.ret_ty:
            _fail(s, f"returns {t}, expected {self.ret_ty}")
        return [p + ln for ln in pre] + [f"{p}pure {c}"]

    def simple(self, s, ind):
        """assignment / augmented assignment / for loop -> lines (unindented)"""
        if isinstance(s, ast.Assign) and len(s.targets) == 1:
            t = s.targets[0]
            if isinstance(t, ast.Name):
                pre, (c, ty) = self.with_pre(lambda: self.expr(s.value))
                self.env[t.id] = ty
                return pre + [f"let {t.id} : {LEAN_TY[ty]} := {c}"]
            if isinstance(t, ast.Tuple) and isinstance(s.value, ast.Call) and ast.unparse(s.value.func) == "np.linalg.eigh":
                names = [x.id if isinstance(x, ast.Name) else None for x in t.elts]
                if len(names) != 2 or None in names or len(s.value.args) != 1 or s.value.keywords:
                    _fail(s, "unsupported use of eigh")
                pre, (c, ty) = self.with_pre(lambda: self.expr(s.value.args[0]))
                if ty != MF:
                    _fail(s, "eigh of a non-matrix")
                self.env[names[0]] = VF
                self.env[names[1]] = MF
                lines = pre + [f"let eigh_result := eigh {c}"]
                for nm, proj in zip(names, ("1", "2")):
                    if nm != "_":
                        lines.append(f"let {nm} := eigh_result.{proj}")
                return lines
            _fail(s, "unsupported assignment target")
        if isinstance(s, ast.AugAssign) and isinstance(s.target, ast.Name) and type(s.op) in ARITH:
            fake = ast.BinOp(left=ast.Name(id=s.target.id, ctx=ast.Load()), op=s.op, right=s.value)
            ast.copy_location(fake, s)
            ast.fix_missing_locations(fake)
            pre, (c, ty) = self.with_pre(lambda: self.expr(fake))
            if ty != self.env.get(s.target.id):
                _fail(s, "augmented assignment changes the type")
            return pre + [f"let {s.target.id} : {LEAN_TY[ty]} := {c}"]
        if isinstance(s, ast.For):
            it = s.iter
            if s.orelse or not isinstance(s.target, ast.Name) or not (
                    isinstance(it, ast.Call) and ast.unparse(it.func) == "range" and len(it.args) == 1 and not it.keywords):
                _fail(s, "unsupported loop")
            pre, (n, tn) = self.with_pre(lambda: self.expr(it.args[0]))
            if tn != N:
                _fail(s, "range of a non-integer")
            # loop state: names defined before the loop and assigned in its body
            assigned = []
            for b in ast.walk(ast.Module(body=s.body, type_ignores=[])):
                if isinstance(b, (ast.Assign, ast.AugAssign)):
                    for tg in (b.targets if isinstance(b, ast.Assign) else [b.target]):
                        if isinstance(tg, ast.Name) and tg.id in self.env and tg.id not in assigned:
                            assigned.append(tg.id)
            if len(assigned) != 1:
                _fail(s, f"loop must update exactly one outer variable, got {assigned}")
            st = assigned[0]
            v = s.target.id
            env0 = dict(self.env)
            self.env[v] = N
            body = self.block(s.body, 4, [f"pure {st}"])
            self.env = env0
            return pre + [f"let {st} ← (List.range {n}).foldlM (fun {st} {v} => do"] + body + [f"    ) {st}"]
        _fail(s, "unsupported statement")


class Translator:
    def __init__(self):
        self.tree = ast.parse((SRC / "cubic.py").read_text())
        self.defs = []       # Lean text of the definitions, in dependency order

    def cls(self, name):
        for c in self.tree.body:
            if isinstance(c, ast.ClassDef) and c.name == name:
                return c
        raise Untranslatable(f"class {name} not found in cubic.py")

    def method(self, cls, name):
        for f in self.cls(cls).body:
            if isinstance(f, ast.FunctionDef) and f.name == name:
                return f
        raise Untranslatable(f"{cls}.{name} not found in cubic.py")

    def check_property(self, cls, name, body_src):
        f = self.method(cls, name)
        decos = [ast.unparse(d) for d in f.decorator_list]
        stmts = [s for s in f.body if not (isinstance(s, ast.Expr) and isinstance(s.value, ast.Constant))]
        if decos != ["property"] or len(stmts) != 1 or ast.unparse(stmts[0]) != body_src:
            raise Untranslatable(f"{cls}.{name} is no longer the property `{body_src}`")

    def check_init_stores(self):
        """UniformGrid.__init__ stores its arguments unchanged in _axes/_origin; the base class stores shape."""
        src = [ast.unparse(s) for s in ast.walk(self.method("UniformGrid", "__init__")) if isinstance(s, ast.Assign)]
        for want in ("self._axes = axes", "self._origin = origin"):
            if want not in src:
                raise Untranslatable(f"UniformGrid.__init__ no longer contains `{want}`")
        src = [ast.unparse(s) for s in ast.walk(self.method("_HyperRectangleGrid", "__init__")) if isinstance(s, ast.Assign)]
        if "self._shape = shape" not in src:
            raise Untranslatable("_HyperRectangleGrid.__init__ no longer contains `self._shape = shape`")

    def signature(self, f, want):
        got = [a.arg for a in f.args.args]
        if got != want or f.args.vararg or f.args.kwarg or f.args.kwonlyargs:
            raise Untranslatable(f"{f.name}: signature {got}, expected {want}")

    def emit(self, doc, head, body):
        self.defs.append("/-- " + doc + " -/\n" + head + " := do\n" + "\n".join(body) + "\n")

    # nested helper functions of _choose_weight_scheme
    NESTED = {
        "_fourier1": ("fourier1", ["weight", "shape", "index", "dim"], [ND, VN, N, N], ND),
        "_fourier2": ("fourier2", ["shape", "index"], [VN, N], VF),
    }

    def nested(self, parent, f):
        if f.name not in self.NESTED:
            _fail(f, "unknown nested function")
        lean, params, tys, rty = self.NESTED[f.name]
        self.signature(f, params)
        fn = Fn(self, lean, dict(zip(params, tys)))
        fn.ret_ty = rty
        body = fn.block(f.body, 2, ["throw PyErr.typeError  -- falls off the end: returns None"])
        args = " ".join(f"({p} : {LEAN_TY[t]})" for p, t in zip(params, tys))
        self.emit(f"nested helper `{f.name}` of `UniformGrid._choose_weight_scheme`.",
                  f"def {lean} {args} : Py ({LEAN_TY[rty]})", body)
        parent.funcs[f.name] = (lean, tys, rty, [])

    def run(self):
        self.check_property("UniformGrid", "axes", "return self._axes")
        self.check_property("UniformGrid", "origin", "return self._origin")
        self.check_property("_HyperRectangleGrid", "shape", "return self._shape")
        self.check_property("_HyperRectangleGrid", "ndim", "return len(self._shape)")
        self.check_init_stores()
        selfattrs = {"axes": ("axes", MF), "origin": ("origin", VF), "shape": ("shape", VN)}

        # _calculate_volume(self, shape)
        f = self.method("UniformGrid", "_calculate_volume")
        self.signature(f, ["self", "shape"])
        fn = Fn(self, "calculateVolume", {"shape": VN}, {"axes": ("axes", MF)})
        fn.ret_ty = F
        body = fn.block(f.body, 2, ["throw PyErr.typeError"])
        self.emit("`UniformGrid._calculate_volume(shape)`.",
                  "def calculateVolume (axes : List (List K)) (shape : List Nat) : Py K", body)
        vol = {"self._calculate_volume": ("calculateVolume", [VN], F, ["axes"])}

        # _calculate_alternative_volume(self, shape)
        f = self.method("UniformGrid", "_calculate_alternative_volume")
        self.signature(f, ["self", "shape"])
        fn = Fn(self, "calculateAlternativeVolume", {"shape": VN}, {"axes": ("axes", MF)}, dict(vol))
        fn.ret_ty = F
        body = fn.block(f.body, 2, ["throw PyErr.typeError"])
        self.emit("`UniformGrid._calculate_alternative_volume(shape)`.",
                  "def calculateAlternativeVolume (axes : List (List K)) (shape : List Nat) : Py K", body)
        vol["self._calculate_alternative_volume"] = ("calculateAlternativeVolume", [VN], F, ["axes"])

        # _choose_weight_scheme(self, weight, shape)
        f = self.method("UniformGrid", "_choose_weight_scheme")
        self.signature(f, ["self", "weight", "shape"])
        fn = Fn(self, "chooseWeightScheme", {"weight": S, "shape": VN}, {"axes": ("axes", MF)}, dict(vol))
        fn.ret_ty = VF
        body = fn.block(f.body, 2, ["throw PyErr.typeError"])
        self.emit("`UniformGrid._choose_weight_scheme(weight, shape)`: the flat weight array.",
                  "def chooseWeightScheme (axes : List (List K)) (weight : String) (shape : List Nat) : Py (List K)", body)

        # closest_point(self, point, which="closest")
        f = self.method("UniformGrid", "closest_point")
        self.signature(f, ["self", "point", "which"])
        if [ast.unparse(d) for d in f.args.defaults] != ["'closest'"]:
            raise Untranslatable("closest_point: default of `which` changed")
        attrs = dict(selfattrs)
        attrs["ndim"] = ("shape.length", N)
        fn = Fn(self, "closestPoint", {"point": VF, "which": S}, attrs,
                {"self.coordinates_to_index": ("coordinatesToIndexOf", [VZ], "Z", ["shape", "junk"])})
        fn.ret_ty = "Z"
        LEAN_TY["Z"] = "Int"
        body = fn.block(f.body, 2, ["throw PyErr.typeError"])
        self.emit("`UniformGrid.closest_point(point, which)`; `junk`: content of the uninitialised stride array of "
                  "`coordinates_to_index`.",
                  "def closestPoint [LT K] [DecidableLT K] [Rounding K] (origin : List K) (axes : List (List K)) (shape : List Nat) (junk : Int) "
                  "(point : List K) (which : String) : Py Int", body)

        # from_molecule(cls, atcorenums, atcoords, spacing, extension, rotate, weight)
        f = self.method("UniformGrid", "from_molecule")
        self.signature(f, ["cls", "atcorenums", "atcoords", "spacing", "extension", "rotate", "weight"])
        if [ast.unparse(d) for d in f.decorator_list] != ["classmethod"]:
            raise Untranslatable("from_molecule is no longer a classmethod")
        fn = Fn(self, "fromMolecule", {"atcorenums": VF, "atcoords": MF, "spacing": F, "extension": F,
                                        "rotate": B, "weight": S})
        fn.ret_ty = None
        body = fn.block(f.body, 2, ["throw PyErr.typeError"])
        self.emit("`UniformGrid.from_molecule(...)`: the arguments `(origin, axes, shape)` handed to the constructor. "
                  "`eigh`: `np.linalg.eigh` (eigenvalues, matrix whose columns are the eigenvectors).",
                  "def fromMolecule [LT K] [DecidableLT K] [Rounding K] (eigh : List (List K) → List K × List (List K)) (atcorenums : List K) "
                  "(atcoords : List (List K)) (spacing extension : K) (rotate : Bool) (weight : String) : "
                  "Py (List K × List (List K) × List Int)", body)
        return "\n".join(self.defs)


PRELUDE = """import GridVerif.Model.CubicNp

namespace GridVerif.Gen.CubicGrid
open GridVerif GridVerif.Cubic

set_option linter.unusedVariables false

section
variable {K : Type} [Add K] [Sub K] [Mul K] [Div K] [Neg K] [NatCast K] [Elem K]

/-- `self.coordinates_to_index(coord)` on integer-valued coordinates: the generated stride code. -/
def coordinatesToIndexOf (shape : List Nat) (junk : Int) (coord : List Int) : Py Int :=
  Gen.CubicIndex.coordinatesToIndex (shape.length : Nat) (shape.map Int.ofNat) junk coord

"""


def translate():
    return Translator().run()


def generate():
    text = HEADER.format(name="cubic_grid", source="src/grid/cubic.py (UniformGrid._calculate_volume, "
                         "_calculate_alternative_volume, _choose_weight_scheme, closest_point, from_molecule)")
    text += PRELUDE + translate() + "\nend\n\nend GridVerif.Gen.CubicGrid\n"
    return write_if_changed("CubicGrid.lean", text)


if __name__ == "__main__":
    print(translate())

"""Translator: the order/index bookkeeping of the multipole moments -> Gen/Moments.lean.

AST based, typed, statement by statement.  Three pieces of `/repo/src/grid` are carried:

1. `utils.generate_orders_horton_order` (whole body, every branch) -> `generateOrdersHortonOrder`:
   integer list program; `for … in range(…)` loops that append to one list become `foldl`s over
   `pyRange`, `if/elif/else` chains stay `if … then … else`, `raise` becomes `throw`.
2. `basegrid.Grid.moments`, the statements up to the loop over the centres -> `momentsOrders`:
   argument guards, the 1-D reshape guard, `orders = range(0, orders+1) if … else range(1, orders+1)`,
   `dim`, the `np.vstack` stacking.  Arrays of floats enter only through their *shape* (the
   parameters `self_points`, `centers`, `func_vals` are shape tuples): `x.ndim` is the length
   of the tuple, `x.shape[k]` / `len(x)` index it, `x.reshape(-1, 1)` is `npReshapeM1x1`.
   The first argument of the `solid_harmonics(…)` call is emitted as `momentsSolidDegree`.
3. the index arithmetic of the pure-radial branch of `Grid.moments`
   (`n_princ, l_degrees, m_orders = all_orders.T; indices = l_degrees**2; indices[m_orders > 0] += …`)
   -> `momentsPureRadialIndices`, a program over the NumPy primitives of `Model/Moments.lean`
   (`npUnpack3T`, `npPowS`, `npMaskGet`, `npMaskIAdd`, …).

Anything outside the accepted subset raises `Untranslatable` (treated by the check like a proof
obligation that no longer holds).  A change of an operand, operator, constant, loop bound, loop
nesting, row layout, branch condition or guard changes the Lean text, and the theorems of
`Props/C14/Gen.lean` are re-checked against it.
"""
import ast

from ..common import SRC
from .util import HEADER, write_if_changed


class Untranslatable(Exception):
    pass


def _fail(node, why):
    raise Untranslatable(f"line {getattr(node, 'lineno', '?')}: {why}: {ast.unparse(node)[:140]}")


LEAN_TYPE = {"int": "Int", "str": "String", "ilist": "List Int", "rows": "List (List Int)", "arr": "IntArr",
             "mask": "List Bool", "bool": "Bool"}
EXC = {"ValueError": "valueError", "TypeError": "typeError", "IndexError": "indexError"}
CMP_INT = {ast.Eq: "==", ast.NotEq: "!=", ast.Gt: ">", ast.GtE: "≥", ast.Lt: "<", ast.LtE: "≤"}
CMP_VEC = {ast.Gt: "npGtS", ast.LtE: "npLeS", ast.GtE: "npGeS", ast.Lt: "npLtS"}


class Fn:
    """Translation state of one function: `env` maps a Python name (or dotted expression such as
    `self.points`) to (lean name, type)."""

    def __init__(self, env, funcs=None, shapes=()):
        self.env = dict(env)
        self.funcs = funcs or {}          # python function name -> (lean name, [arg types], result type)
        self.shapes = set(shapes)         # python expressions that are arrays known by their shape only
        self.mut = set()                  # lean names declared `let mut`

    # ---- typed expressions -------------------------------------------------------------
    def lookup(self, e):
        key = ast.unparse(e)
        if key in self.env:
            return self.env[key]
        _fail(e, "unknown name")

    def expr(self, e):
        """-> (lean text, type); the text may contain nested actions `(← …)`."""
        if isinstance(e, ast.Constant):
            if isinstance(e.value, bool):
                return ("true" if e.value else "false"), "bool"
            if isinstance(e.value, int):
                return (f"{e.value}" if e.value >= 0 else f"({e.value})"), "int"
            if isinstance(e.value, str):
                return '"' + e.value.replace("\\", "\\\\").replace('"', '\\"') + '"', "str"
            _fail(e, "unsupported constant")
        if isinstance(e, (ast.Name, ast.Attribute)) and ast.unparse(e) in self.env:
            return self.env[ast.unparse(e)]
        if isinstance(e, ast.Attribute):
            base = ast.unparse(e.value)
            if e.attr == "ndim" and base in self.shapes:
                return f"({self.env[base][0]}.length : Int)", "int"
            if e.attr == "T":
                _fail(e, "`.T` is only supported in a three-way unpacking")
            _fail(e, "unsupported attribute")
        if isinstance(e, ast.UnaryOp) and isinstance(e.op, ast.USub):
            t, ty = self.expr(e.operand)
            if ty != "int":
                _fail(e, "negation of a non-integer")
            return f"(-{t})", "int"
        if isinstance(e, ast.BinOp):
            return self.binop(e)
        if isinstance(e, ast.List):
            items = [self.expr(x) for x in e.elts]
            tys = {ty for _, ty in items}
            if tys == {"int"}:
                return "[" + ", ".join(t for t, _ in items) + "]", "ilist"
            if tys == {"ilist"}:
                return "[" + ", ".join(t for t, _ in items) + "]", "rows"
            if tys == {"str"}:
                return "[" + ", ".join(t for t, _ in items) + "]", "strlist"
            if not items:
                return "[]", "empty"
            _fail(e, "list literal of mixed types")
        if isinstance(e, ast.Subscript):
            return self.subscript(e)
        if isinstance(e, ast.IfExp):
            c = self.cond(e.test)
            a, ta = self.expr(e.body)
            b, tb = self.expr(e.orelse)
            if {ta, tb} == {"ilist", "shape"} and (ast.unparse(e.body) in self.shapes or ast.unparse(e.orelse) in self.shapes):
                ta = tb = "shape"
            if ta != tb:
                _fail(e, "conditional expression with branches of different types")
            return f"(if {c} then {a} else {b})", ta
        if isinstance(e, ast.Compare):
            return self.compare(e)
        if isinstance(e, ast.Call):
            return self.call(e)
        _fail(e, "unsupported expression")

    def binop(self, e):
        a, ta = self.expr(e.left)
        b, tb = self.expr(e.right)
        op = type(e.op)
        if ta == tb == "int" and op in (ast.Add, ast.Sub, ast.Mult):
            return f"({a} {'+' if op is ast.Add else '-' if op is ast.Sub else '*'} {b})", "int"
        if ta == "ilist" and tb == "int":
            if op is ast.Pow and isinstance(e.right, ast.Constant) and isinstance(e.right.value, int) and e.right.value >= 0:
                return f"(npPowS {a} {e.right.value})", "ilist"
            if op is ast.Sub:
                return f"(npSubS {a} {b})", "ilist"
            if op is ast.Add:
                return f"(npAddS {a} {b})", "ilist"
            if op is ast.Mult:
                return f"(npMulS {b} {a})", "ilist"
        if ta == "int" and tb == "ilist":
            if op is ast.Mult:
                return f"(npMulS {a} {b})", "ilist"
            if op is ast.Add:
                return f"(npAddS {b} {a})", "ilist"
        _fail(e, f"unsupported arithmetic ({ta} {op.__name__} {tb})")

    def subscript(self, e):
        base = ast.unparse(e.value)
        # x.shape[k]
        if isinstance(e.value, ast.Attribute) and e.value.attr == "shape" and ast.unparse(e.value.value) in self.shapes:
            k, tk = self.expr(e.slice)
            if tk != "int":
                _fail(e, "shape index is not an integer")
            return f"(← pyGet {self.env[ast.unparse(e.value.value)][0]} {k})", "int"
        v, tv = self.expr(e.value)
        if isinstance(e.slice, ast.Slice):
            s = e.slice
            if (tv == "ilist" and s.upper is None and s.step is None and isinstance(s.lower, ast.Constant)
                    and isinstance(s.lower.value, int) and s.lower.value >= 0):
                return f"(pyDrop {v} {s.lower.value})", "ilist"
            _fail(e, "unsupported slice")
        k, tk = self.expr(e.slice)
        if tv == "ilist" and tk == "int":
            return f"(← pyGet {v} {k})", "int"
        if tv == "ilist" and tk == "mask":
            return f"(← npMaskGet {v} {k})", "ilist"
        _fail(e, f"unsupported subscript ({tv}[{tk}]) of {base}")

    def compare(self, e):
        if len(e.ops) != 1:
            _fail(e, "chained comparison")
        op = type(e.ops[0])
        a, ta = self.expr(e.left)
        if op in (ast.In, ast.NotIn):
            b, tb = self.expr(e.comparators[0])
            if ta == "str" and tb == "strlist":
                t = f"pyIn {a} {b}"
                return (f"({t})" if op is ast.In else f"(!({t}))"), "bool"
            _fail(e, "unsupported membership test")
        b, tb = self.expr(e.comparators[0])
        if ta == tb == "int" and op in CMP_INT:
            o = CMP_INT[op]
            return (f"({a} {o} {b})" if o in ("==", "!=") else f"(decide ({a} {o} {b}))"), "bool"
        if ta == tb == "str" and op in (ast.Eq, ast.NotEq):
            return f"({a} {CMP_INT[op]} {b})", "bool"
        if ta == "ilist" and tb == "int" and op in CMP_VEC:
            return f"({CMP_VEC[op]} {a} {b})", "mask"
        _fail(e, f"unsupported comparison ({ta}, {tb})")

    def call(self, e):
        fn = ast.unparse(e.func)
        if fn == "range" and not e.keywords and 1 <= len(e.args) <= 3:
            args = [self.expr(a) for a in e.args]
            if any(t != "int" for _, t in args):
                _fail(e, "range of non-integers")
            a = [t for t, _ in args]
            a = ["0", a[0], "1"] if len(a) == 1 else a + ["1"] if len(a) == 2 else a
            return f"(pyRange {' '.join(a)})", "ilist"
        if fn == "len" and len(e.args) == 1 and ast.unparse(e.args[0]) in self.shapes:
            return f"(← pyGet {self.env[ast.unparse(e.args[0])][0]} 0)", "int"
        if fn == "isinstance" and len(e.args) == 2:
            who = ast.unparse(e.args[0])
            tys = e.args[1].elts if isinstance(e.args[1], ast.Tuple) else [e.args[1]]
            names = "[" + ", ".join('"' + ast.unparse(t) + '"' for t in tys) + "]"
            if who + "::type" in self.env:
                return f"(pyIn {self.env[who + '::type'][0]} {names})", "bool"
            _fail(e, "isinstance of a value whose Python type is not tracked")
        if fn == "np.abs" and len(e.args) == 1 and not e.keywords:
            a, ta = self.expr(e.args[0])
            if ta == "ilist":
                return f"(npAbs {a})", "ilist"
        if fn == "np.array":
            kw = {k.arg: ast.unparse(k.value) for k in e.keywords}
            if len(e.args) == 1 and kw in ({}, {"dtype": "int"}):
                a, ta = self.expr(e.args[0])
                if ta == "ilist" and not kw:
                    return f"(npArray1 {a})", "arr"
                if ta == "rows" and kw == {"dtype": "int"}:
                    return f"(npArrayRows {a})", "arr"
        if fn == "np.vstack" and len(e.args) == 1 and isinstance(e.args[0], ast.Tuple) and len(e.args[0].elts) == 2:
            a, ta = self.expr(e.args[0].elts[0])
            b, tb = self.expr(e.args[0].elts[1])
            if ta == tb == "arr":
                return f"(npVstack {a} {b})", "arr"
        if fn in self.funcs and not e.keywords:
            lean, atys, rty = self.funcs[fn]
            args = [self.expr(a) for a in e.args]
            if [t for _, t in args] == atys:
                return f"(← {lean} {' '.join(t for t, _ in args)})", rty
        if isinstance(e.func, ast.Attribute) and e.func.attr == "reshape" and ast.unparse(e.func.value) in self.shapes:
            if [ast.unparse(a) for a in e.args] == ["-1", "1"] and not e.keywords:
                return f"(npReshapeM1x1 {self.env[ast.unparse(e.func.value)][0]})", "shape"
        _fail(e, "unsupported call")

    def cond(self, e):
        if isinstance(e, ast.UnaryOp) and isinstance(e.op, ast.Not):
            return f"!({self.cond(e.operand)})"
        if isinstance(e, ast.BoolOp):
            return "(" + (" && " if isinstance(e.op, ast.And) else " || ").join(self.cond(v) for v in e.values) + ")"
        t, ty = self.expr(e)
        if ty != "bool":
            _fail(e, "condition is not a boolean")
        return t

    # ---- pure state transformers (loop bodies): value of `var` after the statements ----
    def pure_block(self, stmts, var, ind):
        """Lean expression (lines) for the new value of list variable `var` after `stmts`."""
        p = " " * ind
        lines = []
        for i, s in enumerate(stmts):
            last = i == len(stmts) - 1
            e = self.pure_stmt(s, var, ind + (0 if last else 2))
            if last:
                lines += e
            else:
                lines += [f"{p}let {var} :="] + e
        if not stmts:
            return [f"{p}{var}"]
        return lines

    def append_target(self, s, var):
        """`var.append(e)` / `var += e` -> lean text of the appended list, else None."""
        lean, ty = self.env[var]
        if (isinstance(s, ast.Expr) and isinstance(s.value, ast.Call) and isinstance(s.value.func, ast.Attribute)
                and s.value.func.attr == "append" and ast.unparse(s.value.func.value) == var
                and len(s.value.args) == 1 and not s.value.keywords):
            e, te = self.expr(s.value.args[0])
            if (ty, te) == ("rows", "ilist"):
                return f"{lean} ++ [{e}]"
            _fail(s, "append of a value of the wrong type")
        if isinstance(s, ast.AugAssign) and isinstance(s.op, ast.Add) and ast.unparse(s.target) == var:
            e, te = self.expr(s.value)
            if (ty, te) == ("rows", "rows"):
                return f"{lean} ++ {e}"
            _fail(s, "`+=` of a value of the wrong type")
        return None

    def pure_stmt(self, s, var, ind):
        p = " " * ind
        a = self.append_target(s, var)
        if a is not None:
            if "←" in a:
                _fail(s, "raising operation inside a loop body")
            return [p + a]
        if isinstance(s, ast.For):
            return self.fold(s, var, ind)
        if isinstance(s, ast.If):
            c = self.cond(s.test)
            if "←" in c:
                _fail(s, "raising operation inside a loop body")
            return ([f"{p}if {c} then"] + self.pure_block(s.body, var, ind + 2) + [f"{p}else"]
                    + self.pure_block(s.orelse, var, ind + 2))
        _fail(s, "unsupported statement in a loop body")

    def fold(self, s, var, ind):
        """for v in <ilist>: body (body only extends the list `var`) -> foldl."""
        p = " " * ind
        if s.orelse or not isinstance(s.target, ast.Name):
            _fail(s, "unsupported loop")
        it, ti = self.expr(s.iter)
        if ti != "ilist" or "←" in it:
            _fail(s, "loop is not over a range / integer list")
        v = s.target.id
        saved = self.env.get(v)
        self.env[v] = (v, "int")
        lean = self.env[var][0]
        body = self.pure_block(s.body, var, ind + 4)
        if saved is None:
            del self.env[v]
        else:
            self.env[v] = saved
        return [f"{p}{it}.foldl (fun {lean} {v} =>"] + body + [f"{p}  ) {lean}"]

    # ---- monadic statements (function bodies) ---------------------------------------------
    def block(self, stmts, ind):
        out = []
        for s in stmts:
            out += self.stmt(s, ind)
        return out

    def assign_name(self, name, text, ty, ind, node, monadic=False):
        """Binding of a Python variable; a change of type gets a fresh Lean name."""
        p = " " * ind
        arrow = "←" if monadic else ":="
        old = self.env.get(name)
        if old is not None and old[1] == ty and old[0] in self.mut:
            return [f"{p}{old[0]} {arrow} {text}"]
        lean = name if old is None else f"{name}_{ty}"
        if old is not None and old[1] == ty:
            _fail(node, "re-assignment of an immutable binding")
        self.env[name] = (lean, ty)
        return [f"{p}let {lean} {arrow} {text}"]

    def stmt(self, s, ind, chain=False):
        p = " " * ind
        if isinstance(s, ast.Expr) and isinstance(s.value, ast.Constant) and isinstance(s.value.value, str):
            return []
        if isinstance(s, ast.Raise):
            name = s.exc.func.id if isinstance(s.exc, ast.Call) and isinstance(s.exc.func, ast.Name) else None
            if name not in EXC:
                _fail(s, "unsupported raise")
            # the message is evaluated before the exception is raised: a look-up inside an f-string that fails
            # (`x.shape[k]`) raises its own error first
            pre = []
            for a in s.exc.args:
                for fv in (a.values if isinstance(a, ast.JoinedStr) else []):
                    if not isinstance(fv, ast.FormattedValue):
                        continue
                    v = fv.value
                    if (isinstance(v, ast.Call) and ast.unparse(v.func) == "type" and len(v.args) == 1
                            and ast.unparse(v.args[0]) + "::type" in self.env):
                        continue
                    t, _ = self.expr(v)
                    if "←" in t:
                        pre.append(f"{p}let _ := {t}")
            return pre + [f"{p}throw Err.{EXC[name]}"]
        if isinstance(s, ast.Return):
            t, ty = self.expr(s.value)
            if ty != self.result:
                _fail(s, f"return of type {ty}, expected {self.result}")
            return [f"{p}return {t}"]
        if isinstance(s, ast.If):
            c = self.cond(s.test)
            # `if c: S else: raise E`  ==  `if not c: raise E` followed by S in the enclosing block
            # (only for an `if` that is a statement of a block, never in `elif` position)
            if (not chain and len(s.orelse) == 1 and isinstance(s.orelse[0], ast.Raise)
                    and not any(isinstance(x, (ast.Raise, ast.Return)) for b in s.body for x in ast.walk(b))):
                return [f"{p}if !({c}) then"] + self.stmt(s.orelse[0], ind + 2) + self.block(s.body, ind)
            body = self.block(s.body, ind + 2)
            out = [f"{p}if {c} then"] + body
            if s.orelse:
                if len(s.orelse) == 1 and isinstance(s.orelse[0], ast.If):
                    rest = self.stmt(s.orelse[0], ind, chain=True)
                    out += [f"{p}else " + rest[0].lstrip()] + rest[1:]
                else:
                    out += [f"{p}else"] + self.block(s.orelse, ind + 2)
            return out
        if isinstance(s, ast.Assign) and len(s.targets) == 1:
            t, v = s.targets[0], s.value
            if isinstance(t, ast.Tuple) and isinstance(v, ast.Attribute) and v.attr == "T" and len(t.elts) == 3:
                a, ta = self.expr(v.value)
                if ta != "arr" or not all(isinstance(x, ast.Name) for x in t.elts):
                    _fail(s, "unsupported unpacking")
                names = [x.id for x in t.elts]
                for n in names:
                    self.env[n] = (n, "ilist")
                return [f"{p}let ({', '.join(names)}) ← npUnpack3T {a}"]
            if not isinstance(t, ast.Name):
                _fail(s, "unsupported assignment target")
            if isinstance(v, ast.List) and not v.elts:
                ty = self.locals.get(t.id)
                if ty is None:
                    _fail(s, "empty list of unknown element type")
                self.env[t.id] = (t.id, ty)
                self.mut.add(t.id)
                return [f"{p}let mut {t.id} : {LEAN_TYPE[ty]} := []"]
            text, ty = self.expr(v)
            if ty == "shape":
                ty = "ilist"
                self.shapes.add(t.id)
            if t.id in self.loopvars:
                self.env[t.id] = (t.id, ty)
                self.mut.add(t.id)
                mon = text.startswith("(← ") and text.count("←") == 1 and text.endswith(")")
                return [f"{p}let mut {t.id} " + (f"← {text[3:-1]}" if mon else f":= {text}")]
            mon = text.startswith("(← ") and text.count("←") == 1 and text.endswith(")")
            return self.assign_name(t.id, text[3:-1] if mon else text, ty, ind, s, monadic=mon)
        if isinstance(s, ast.AugAssign) and isinstance(s.op, ast.Add) and isinstance(s.target, ast.Subscript):
            a, ta = self.expr(s.target.value)
            m, tm = self.expr(s.target.slice)
            val, tv = self.expr(s.value)
            if (ta, tm, tv) != ("ilist", "mask", "ilist") or not isinstance(s.target.value, ast.Name):
                _fail(s, "unsupported in-place update")
            return [f"{p}let {a} ← npMaskIAdd {a} {m} {val}"]
        a = None
        for var, (lean, ty) in list(self.env.items()):
            if ty == "rows" and lean in self.mut:
                a = self.append_target(s, var)
                if a is not None:
                    return [f"{p}{lean} := {a}"]
        if isinstance(s, ast.For):
            # (a) body only extends one list  -> pure fold;  (b) body re-assigns one array through calls -> foldlM
            written = {ast.unparse(b.targets[0]) for b in s.body if isinstance(b, ast.Assign) and len(b.targets) == 1}
            if len(written) == 1 and all(isinstance(b, ast.Assign) for b in s.body):
                var = written.pop()
                if var not in self.env or self.env[var][0] not in self.mut:
                    _fail(s, "loop assigns a variable that is not loop state")
                lean, ty = self.env[var]
                it, ti = self.expr(s.iter)
                if ti != "ilist" or not isinstance(s.target, ast.Name):
                    _fail(s, "unsupported loop")
                v = s.target.id
                self.env[v] = (v, "int")
                body = []
                for b in s.body:
                    text, tb = self.expr(b.value)
                    if tb != ty:
                        _fail(b, "loop state changes type")
                    body.append(f"{p}    let {lean} := {text}")
                del self.env[v]
                return ([f"{p}{lean} ← {it}.foldlM (fun {lean} {v} => do"] + body
                        + [f"{p}    pure {lean}) {lean}"])
            cands = [var for var, (lean, ty) in self.env.items() if ty == "rows" and lean in self.mut]
            if len(cands) != 1:
                _fail(s, "loop without a unique list state")
            lines = self.fold(s, cands[0], ind + 2)
            lean = self.env[cands[0]][0]
            return [f"{p}{lean} :="] + lines
        _fail(s, "unsupported statement")


def _function(tree, name, cls=None):
    body = tree.body
    if cls:
        body = next((c.body for c in tree.body if isinstance(c, ast.ClassDef) and c.name == cls), None)
        if body is None:
            raise Untranslatable(f"class {cls} not found")
    for f in body:
        if isinstance(f, ast.FunctionDef) and f.name == name:
            return f
    raise Untranslatable(f"{(cls + '.') if cls else ''}{name} not found")


def _args(f):
    return [a.arg for a in f.args.args]


def translate_orders():
    tree = ast.parse((SRC / "utils.py").read_text())
    f = _function(tree, "generate_orders_horton_order")
    if _args(f) != ["order", "type_ord", "dim"] or [ast.unparse(d) for d in f.args.defaults] != ["3"]:
        raise Untranslatable("generate_orders_horton_order: unexpected signature")
    fn = Fn({"order": ("order", "int"), "order::type": ('"int"', "str"), "type_ord": ("type_ord", "str"), "dim": ("dim", "int")})
    fn.locals = {"orders": "rows"}
    fn.loopvars = set()
    fn.result = "arr"
    body = fn.block(f.body, 2)
    return (["/-- `utils.generate_orders_horton_order(order, type_ord, dim)`; `order` is a Python `int`. -/",
             "def generateOrdersHortonOrder (order : Int) (type_ord : String) (dim : Int) : Except Err IntArr := do"]
            + body + [""])


def translate_moments():
    tree = ast.parse((SRC / "basegrid.py").read_text())
    f = _function(tree, "moments", "Grid")
    if _args(f) != ["self", "orders", "centers", "func_vals", "type_mom", "return_orders"]:
        raise Untranslatable("Grid.moments: unexpected signature")
    stmts = [s for s in f.body if not (isinstance(s, ast.Expr) and isinstance(s.value, ast.Constant))]
    cut = next((i for i, s in enumerate(stmts) if isinstance(s, ast.Assign) and ast.unparse(s.targets[0]) == "integrals"), None)
    if cut is None or not isinstance(stmts[cut + 1], ast.For) or ast.unparse(stmts[cut + 1].iter) != "centers":
        raise Untranslatable("Grid.moments: `integrals = []` followed by the loop over the centres not found")
    env = {"self.points": ("self_points", "ilist"), "centers": ("centers", "ilist"), "func_vals": ("func_vals", "ilist"),
           "orders": ("orders", "int"), "orders::type": ("orders_type", "str"), "type_mom": ("type_mom", "str")}
    fn = Fn(env, funcs={"generate_orders_horton_order": ("generateOrdersHortonOrder", ["int", "str", "int"], "arr")},
            shapes={"self.points", "centers", "func_vals"})
    fn.locals = {}
    fn.loopvars = {"all_orders"}
    fn.result = "none"
    body = fn.block(stmts[:cut], 2)
    for need in ("dim", "all_orders", "orders"):
        if need not in fn.env:
            raise Untranslatable(f"Grid.moments: `{need}` is not assigned before the loop over the centres")
    if fn.env["dim"][1] != "int" or fn.env["all_orders"][1] != "arr" or fn.env["orders"][1] != "ilist":
        raise Untranslatable("Grid.moments: unexpected types of dim / all_orders / orders")
    out = ["/-- `Grid.moments`, the statements before the loop over the centres: argument guards, the 1-D",
           "reshape guard, the list of orders `l`, `dim`, and the stacked order array. The float arrays enter",
           "through their shapes only (`self_points`, `centers`, `func_vals` are shape tuples); `orders_type`",
           "is the name of the Python type of `orders`. Result: `(dim, orders, all_orders)`. -/",
           "def momentsOrders (self_points centers func_vals : List Int) (orders : Int) (orders_type : String)",
           "    (type_mom : String) : Except Err (Int × List Int × IntArr) := do"]
    out += body
    out += [f"  return ({fn.env['dim'][0]}, {fn.env['orders'][0]}, {fn.env['all_orders'][0]})", ""]
    orders_lean = fn.env["orders"][0]

    # the loop over the centres: degree handed to solid_harmonics, and the pure-radial index block
    loop = stmts[cut + 1]
    calls = [n for n in ast.walk(loop) if isinstance(n, ast.Call) and ast.unparse(n.func) == "solid_harmonics"]
    if len(calls) != 1 or len(calls[0].args) != 2:
        raise Untranslatable("Grid.moments: exactly one call solid_harmonics(degree, points) expected")
    fn2 = Fn({"orders": ("orders", "ilist")})
    deg, tdeg = fn2.expr(calls[0].args[0])
    if tdeg != "int":
        raise Untranslatable("Grid.moments: degree of solid_harmonics is not an integer expression")
    out += ["/-- First argument of the call `solid_harmonics(…, sph_pts)` in `Grid.moments` (`orders` is the list of",
            "orders `l` returned by `momentsOrders`). -/",
            "def momentsSolidDegree (orders : List Int) : Except Err Int := do",
            f"  return {deg}", ""]

    block = None
    for n in ast.walk(loop):
        if isinstance(n, ast.If) and ast.unparse(n.test) == "type_mom == 'pure-radial'":
            if block is not None:
                raise Untranslatable("Grid.moments: several pure-radial blocks inside the loop over the centres")
            block = n.body
    if block is None:
        raise Untranslatable("Grid.moments: pure-radial block not found")
    own = {"n_princ", "l_degrees", "m_orders", "indices"}

    def targets(s):
        if isinstance(s, ast.Assign):
            ts = s.targets[0].elts if isinstance(s.targets[0], ast.Tuple) else [s.targets[0]]
        elif isinstance(s, ast.AugAssign):
            ts = [s.target]
        else:
            return None
        return {(t.value.id if isinstance(t, ast.Subscript) and isinstance(t.value, ast.Name) else ast.unparse(t)) for t in ts}

    k = 0
    while k < len(block) and targets(block[k]) is not None and targets(block[k]) <= own:
        k += 1
    idx, rest = block[:k], block[k:]
    if not idx:
        raise Untranslatable("Grid.moments: index statements of the pure-radial block not found")
    for s in rest:
        t = targets(s)
        if t is not None and t & own:
            raise Untranslatable(f"Grid.moments: line {s.lineno} changes the index variables after the index block")
    uses = [ast.unparse(n) for s in rest for n in ast.walk(s) if isinstance(n, ast.Subscript) and ast.unparse(n.value) == "solid_harm"]
    if uses != ["solid_harm[indices]"]:
        raise Untranslatable(f"Grid.moments: the solid-harmonics table must be indexed exactly once, by `indices` (found {uses})")
    pw = [ast.unparse(n) for s in rest for n in ast.walk(s) if isinstance(n, ast.BinOp) and isinstance(n.op, ast.Pow)]
    if pw != ["cent_pts_with_order ** n_princ[:, None]"]:
        raise Untranslatable(f"Grid.moments: the radial power of the pure-radial block is not `… ** n_princ[:, None]` (found {pw})")
    fn3 = Fn({"all_orders": ("all_orders", "arr")})
    fn3.locals, fn3.loopvars, fn3.result = {}, set(), "ilist"
    body = fn3.block(idx, 2)
    if "indices" not in fn3.env or fn3.env["indices"][1] != "ilist":
        raise Untranslatable("Grid.moments: `indices` is not computed by the index block")
    out += ["/-- The `(l, m) → row` index arithmetic of the pure-radial branch of `Grid.moments`: the rows of the",
            "solid-harmonics table selected by `solid_harm[indices]`. -/",
            "def momentsPureRadialIndices (all_orders : IntArr) : Except Err (List Int) := do"]
    out += body + ["  return indices", ""]
    return out, orders_lean, "\n".join(ast.unparse(x) for x in idx)


def translate():
    parts = translate_orders()
    m, _, _ = translate_moments()
    return "\n".join(parts + m)


def index_block_source():
    """Python source of the statements `momentsPureRadialIndices` was translated from (input `all_orders`,
    output `indices`); the correspondence executes it next to the translated program (translator self-check)."""
    return translate_moments()[2]


def generate():
    text = HEADER.format(name="moments", source="src/grid/utils.py (generate_orders_horton_order), src/grid/basegrid.py (Grid.moments: orders and row indices)")
    text += "import GridVerif.Model.Moments\n\nset_option linter.unusedVariables false\n\nnamespace GridVerif.Gen.Moments\nopen GridVerif.Moments\n\n"
    text += translate()
    text += "\nend GridVerif.Gen.Moments\n"
    return write_if_changed("Moments.lean", text)


if __name__ == "__main__":
    print(translate())

"""Translator: grid/onedgrid.py -> Gen/OneDFormulas.lean (AST-based, no import of the module).

What is carried over (DESIGN 2.3, C01):

* the seven variable-substitution rules (TanhSinh, ExpSinh, LogExpSinh, ExpExp, SingleTanh,
  SingleExp, SingleArcSinhExp): the element-wise `points = ...` / `weights = ...`
  (with `weights *=`, `weights /=`) expressions as generic-K functions `node k h`,
  `weight k h` of the index value `k` and the step `h`, and the index range
  (`kFirst n : Int`, `kLen n : Nat`) read off the `np.arange` line;
* `_g2, _derg2, _g3, _derg3, _gstrip, _dergstrip` (the latter as its two branches and the
  `np.isclose` mask predicate);
* of ClenshawCurtis / FejerFirst / FejerSecond: `jmed` / `nsum`, the lengths and offsets of the
  `np.arange` / `np.ones` arrays, the integer denominators and frequencies in `j`, the
  numerator constant, the `if ...: bj[idx] = c` patch of Clenshaw-Curtis, the trigonometric
  function of the series and the element-wise `theta` expression.

Semantics of the translation
  int constants  c        -> ((c : Nat) : K)
  float constants 0.5     -> exact decimal value as a quotient ((1 : Nat) : K) / ((2 : Nat) : K)
  np.pi                   -> Elem.pi
  + - * / unary -         -> the K operations, in the evaluation order of the Python expression
  e ** c (c int literal)  -> npow e c
  np.exp/log/...          -> Elem.*
  integer-valued sub-expressions (2 * np.arange(n) + 1, npoints - 1, ...) are evaluated in K:
  exact in binary64 below 2^53 and the same real number over R.
  Loop bounds are `Nat` expressions; `a - b` is truncated subtraction (equal to Python's
  whenever Python's result is non-negative, which the constructors' guards ensure; a changed
  source for which this is not the case shows up in the correspondence at the smallest n),
  `a // c` with a positive literal c is Nat division.

* the six closed-form constructors whose arrays are element-wise (UniformInteger,
  GaussChebyshevLobatto, Trapezoidal, RectangleRuleSineEndPoints, Simpson, MidPoint): the whole
  constructor.  Every assignment to an array becomes one definition `<Class>.<name><k> (n i : Nat) : K`
  of its entry `i` (SSA: `k` counts the assignments to the name; a matrix gets `(n j i : Nat)`),
  `a[::-1]` reads the previous version at `len - 1 - i`, `a[idx] /= c` and `a[lo:hi:st] *= c` become an
  `if` on the index, `b @ M` becomes `gsum`, the guards become `<Class>.rejects (npoints : Int) : Bool`,
  the lengths `<Class>.pointsLen/weightsLen`, the domain `<Class>.lo/hi`.

* round 3: ClenshawCurtis / FejerFirst / FejerSecond go through the same entry-wise translation as well
  (the whole constructor: `theta`, the reversal, `jmed` / `nsum` as `Nat` definitions `<Class>.<name><k> (n : Nat) : Nat`,
  the coefficient vector with its `if ...: bj[idx] = c` patch, `bj /= ...`, the `np.outer` matrix, `bj @ cij`, the
  post-processing of the weights, guards, lengths, domain).  The integer skeleton above is kept (the exactness
  theorems are stated over it); `Props/C01/CtorSeries.lean` proves that the entry-wise text and the list model
  assembled from the skeleton are the same rule.

Anything outside this vocabulary raises `Untranslatable` (reported by the runner as a broken
obligation)."""
import ast
from fractions import Fraction

from ..common import SRC
from .util import HEADER, write_if_changed


class Untranslatable(Exception):
    pass


SUBST = ["TanhSinh", "ExpSinh", "LogExpSinh", "ExpExp", "SingleTanh", "SingleExp", "SingleArcSinhExp"]
SERIES = ["ClenshawCurtis", "FejerFirst", "FejerSecond"]
CLOSED = ["UniformInteger", "GaussChebyshevLobatto", "Trapezoidal", "RectangleRuleSineEndPoints", "Simpson", "MidPoint"]
ELEM = {
    "exp": "exp", "log": "log", "sqrt": "sqrt", "sin": "sin", "cos": "cos", "tan": "tan", "tanh": "tanh",
    "sinh": "sinh", "cosh": "cosh", "arcsinh": "arcsinh", "arcsin": "arcsin", "arccos": "arccos",
    "fabs": "abs", "abs": "abs", "absolute": "abs",
}


def nat(c: int) -> str:
    return f"(({c} : Nat) : K)"


def const_k(node: ast.Constant, src: str) -> str:
    v = node.value
    if isinstance(v, bool) or not isinstance(v, (int, float)):
        raise Untranslatable(f"constant {v!r}")
    if isinstance(v, int):
        if v < 0:
            raise Untranslatable("negative literal")
        return nat(v)
    text = ast.get_source_segment(src, node) or repr(v)
    fr = Fraction(text)
    if float(fr) != v:
        raise Untranslatable(f"float literal {text}")
    if fr.denominator == 1:
        return nat(fr.numerator)
    return f"({nat(fr.numerator)} / {nat(fr.denominator)})"


def is_np(node, name=None):
    return (isinstance(node, ast.Attribute) and isinstance(node.value, ast.Name) and node.value.id == "np"
            and (name is None or node.attr == name))


def is_np_call(node, name):
    return isinstance(node, ast.Call) and is_np(node.func, name)


class KExpr:
    """Python expression -> Lean term of type K.  env: name -> Lean term (already parenthesised)."""

    def __init__(self, src, env, strip_subscripts=()):
        self.src = src
        self.env = env
        self.strip = set(strip_subscripts)

    def tr(self, e) -> str:
        if isinstance(e, ast.Constant):
            return const_k(e, self.src)
        if isinstance(e, ast.Name):
            if e.id not in self.env:
                raise Untranslatable(f"unknown name {e.id!r} (line {e.lineno})")
            return self.env[e.id]
        if is_np(e, "pi"):
            return "Elem.pi"
        if isinstance(e, ast.Subscript):
            if isinstance(e.slice, ast.Name) and e.slice.id in self.strip:
                return self.tr(e.value)
            raise Untranslatable(f"subscript (line {e.lineno})")
        if isinstance(e, ast.UnaryOp) and isinstance(e.op, ast.USub):
            return f"(-{self.tr(e.operand)})"
        if isinstance(e, ast.BinOp):
            if isinstance(e.op, ast.Pow):
                if isinstance(e.right, ast.Constant) and isinstance(e.right.value, int) and not isinstance(e.right.value, bool) and e.right.value >= 0:
                    return f"(npow {self.tr(e.left)} {e.right.value})"
                raise Untranslatable(f"** with a non-literal exponent (line {e.lineno})")
            ops = {ast.Add: "+", ast.Sub: "-", ast.Mult: "*", ast.Div: "/"}
            if type(e.op) not in ops:
                raise Untranslatable(f"operator {type(e.op).__name__} (line {e.lineno})")
            return f"({self.tr(e.left)} {ops[type(e.op)]} {self.tr(e.right)})"
        if isinstance(e, ast.Call) and is_np(e.func) and e.func.attr in ELEM and len(e.args) == 1 and not e.keywords:
            return f"(Elem.{ELEM[e.func.attr]} {self.tr(e.args[0])})"
        if isinstance(e, ast.Call) and is_np(e.func, "power") and len(e.args) == 2:
            return self.tr(ast.BinOp(left=e.args[0], op=ast.Pow(), right=e.args[1], lineno=e.lineno))
        raise Untranslatable(f"expression {ast.dump(e)[:80]} (line {getattr(e, 'lineno', '?')})")


class NExpr:
    """Integer Python expression -> Lean `Nat` term.  env: name -> Lean Nat term."""

    def __init__(self, env):
        self.env = env

    def tr(self, e) -> str:
        if isinstance(e, ast.Constant) and isinstance(e.value, int) and not isinstance(e.value, bool) and e.value >= 0:
            return str(e.value)
        if isinstance(e, ast.Name):
            if e.id not in self.env:
                raise Untranslatable(f"unknown integer name {e.id!r} (line {e.lineno})")
            return self.env[e.id]
        if isinstance(e, ast.BinOp):
            if isinstance(e.op, ast.FloorDiv):
                if not (isinstance(e.right, ast.Constant) and isinstance(e.right.value, int) and e.right.value > 0):
                    raise Untranslatable("// by a non-literal or non-positive divisor")
                return f"({self.tr(e.left)} / {e.right.value})"
            if isinstance(e.op, ast.Pow):
                if not (isinstance(e.right, ast.Constant) and isinstance(e.right.value, int) and e.right.value >= 0):
                    raise Untranslatable("** with a non-literal exponent")
                return f"({self.tr(e.left)} ^ {e.right.value})"
            ops = {ast.Add: "+", ast.Sub: "-", ast.Mult: "*"}
            if type(e.op) not in ops:
                raise Untranslatable(f"integer operator {type(e.op).__name__} (line {e.lineno})")
            return f"({self.tr(e.left)} {ops[type(e.op)]} {self.tr(e.right)})"
        raise Untranslatable(f"integer expression {ast.dump(e)[:80]}")


class IExpr(NExpr):
    """Integer Python expression -> Lean `Int` term (for the index ranges of the substitution rules).
    `int(a / c)` with a positive literal c is truncation towards zero = Int.tdiv."""

    def tr(self, e) -> str:
        if isinstance(e, ast.Constant) and isinstance(e.value, int) and not isinstance(e.value, bool):
            return f"({e.value} : Int)"
        if isinstance(e, ast.UnaryOp) and isinstance(e.op, ast.USub):
            return f"(-{self.tr(e.operand)})"
        if isinstance(e, ast.Call) and isinstance(e.func, ast.Name) and e.func.id == "int" and len(e.args) == 1:
            a = e.args[0]
            if (isinstance(a, ast.BinOp) and isinstance(a.op, ast.Div) and isinstance(a.right, ast.Constant)
                    and isinstance(a.right.value, int) and a.right.value > 0):
                return f"(Int.tdiv {self.tr(a.left)} {a.right.value})"
            raise Untranslatable("int(...) of something else than <int expr> / <positive literal>")
        if isinstance(e, ast.BinOp) and isinstance(e.op, (ast.FloorDiv, ast.Pow, ast.Div)):
            raise Untranslatable("operator not supported in an index-range expression")
        return super().tr(e)


def _class_init(tree, cls):
    for node in tree.body:
        if isinstance(node, ast.ClassDef) and node.name == cls:
            for f in node.body:
                if isinstance(f, ast.FunctionDef) and f.name == "__init__":
                    return f
    raise Untranslatable(f"class {cls} / __init__ not found")


def _func(tree, name):
    for node in tree.body:
        if isinstance(node, ast.FunctionDef) and node.name == name:
            return node
    raise Untranslatable(f"function {name} not found")


def _is_docstring(st):
    return isinstance(st, ast.Expr) and isinstance(st.value, ast.Constant) and isinstance(st.value.value, str)


def _is_guard(st):
    return isinstance(st, ast.If) and not st.orelse and all(isinstance(s, ast.Raise) for s in st.body)


def _is_warn(st):
    return (isinstance(st, ast.Expr) and isinstance(st.value, ast.Call) and isinstance(st.value.func, ast.Attribute)
            and st.value.func.attr == "warn")


def _is_super_init(st):
    return isinstance(st, ast.Expr) and isinstance(st.value, ast.Call) and "super" in ast.dump(st.value.func)


def _single_target(st):
    if isinstance(st, ast.Assign) and len(st.targets) == 1 and isinstance(st.targets[0], ast.Name):
        return st.targets[0].id
    return None


# ----------------------------------------------------------------------------------------------
# the seven substitution rules
# ----------------------------------------------------------------------------------------------
def subst_rule(tree, src, cls):
    f = _class_init(tree, cls)
    args = [a.arg for a in f.args.args]
    if len(args) != 3 or args[0] != "self" or args[1] != "npoints":
        raise Untranslatable(f"{cls}.__init__ signature {args}")
    hname = args[2]
    default = f.args.defaults[-1] if f.args.defaults else None
    if not (isinstance(default, ast.Constant) and isinstance(default.value, (int, float))):
        raise Untranslatable(f"{cls}: default of {hname}")
    ienv = {"npoints": "(n : Int)"}
    kenv = {hname: "h"}
    kname = None
    kfirst = klen = pyk = None
    pypre = []
    for st in f.body:
        if _is_docstring(st) or _is_guard(st) or _is_warn(st) or _is_super_init(st):
            continue
        if isinstance(st, ast.AugAssign) and isinstance(st.target, ast.Name) and st.target.id in kenv:
            ops = {ast.Mult: "*", ast.Div: "/", ast.Add: "+", ast.Sub: "-"}
            if type(st.op) not in ops:
                raise Untranslatable(f"{cls}: augmented operator (line {st.lineno})")
            kenv[st.target.id] = f"({kenv[st.target.id]} {ops[type(st.op)]} {KExpr(src, kenv).tr(st.value)})"
            continue
        name = _single_target(st)
        if name is None:
            raise Untranslatable(f"{cls}: statement at line {st.lineno}")
        v = st.value
        dump = ast.dump(v)
        if "arange" in dump:
            # k = np.arange(a, b)      or      j = <int expr> + np.arange(npoints)
            if is_np_call(v, "arange") and len(v.args) == 2:
                a, b = (IExpr(ienv).tr(x) for x in v.args)
                kfirst, klen = a, f"(Int.toNat ({b} - {a}))"
                pyk = ast.unparse(v)
            elif (isinstance(v, ast.BinOp) and isinstance(v.op, ast.Add) and is_np_call(v.right, "arange")
                  and len(v.right.args) == 1):
                kfirst = IExpr(ienv).tr(v.left)
                klen = f"(Int.toNat {IExpr(ienv).tr(v.right.args[0])})"
                pyk = ast.unparse(v)
            else:
                raise Untranslatable(f"{cls}: index range at line {st.lineno}")
            kname = name
            kenv[name] = "k"
            continue
        if kname is None:
            # integer helper before the arange line (m = int((npoints - 1) / 2))
            ienv[name] = IExpr(ienv).tr(v)
            pypre.append(ast.unparse(st))
            continue
        kenv[name] = KExpr(src, kenv).tr(v)
    if kname is None or "points" not in kenv or "weights" not in kenv:
        raise Untranslatable(f"{cls}: points / weights / index range not found")
    return dict(cls=cls, hname=hname, kname=kname, default=const_k(default, src), kfirst=kfirst, klen=klen,
                py_index="; ".join(pypre + [f"__k = {pyk}"]), py_default=default.value,
                node=kenv["points"], weight=kenv["weights"])


# ----------------------------------------------------------------------------------------------
# plain functions (_g2 ... _dergstrip)
# ----------------------------------------------------------------------------------------------
def poly_func(tree, src, name):
    f = _func(tree, name)
    body = [s for s in f.body if not _is_docstring(s)]
    if len(f.args.args) != 1 or len(body) != 1 or not isinstance(body[0], ast.Return):
        raise Untranslatable(f"{name}: expected a single return statement")
    return KExpr(src, {f.args.args[0].arg: "x"}).tr(body[0].value)


def _lets(src, stmts, env, strip=()):
    """straight-line assignments -> list of `let` lines; env is extended with the names."""
    out = []
    for st in stmts:
        name = _single_target(st)
        if name is None:
            raise Untranslatable(f"statement at line {st.lineno}")
        out.append(f"  let {name} : K := {KExpr(src, env, strip).tr(st.value)}")
        env[name] = name
    return out


def gstrip_func(tree, src):
    f = _func(tree, "_gstrip")
    params = [a.arg for a in f.args.args]
    if params != ["rho", "s"]:
        raise Untranslatable(f"_gstrip parameters {params}")
    body = [s for s in f.body if not _is_docstring(s)]
    if not isinstance(body[-1], ast.Return):
        raise Untranslatable("_gstrip: last statement is not a return")
    env = {"rho": "rho", "s": "s"}
    lets = _lets(src, body[:-1], env)
    return "\n".join(lets + ["  " + KExpr(src, env).tr(body[-1].value)])


def dergstrip_func(tree, src):
    """-> (lets of the scalar prefix, mask predicate, end branch, interior branch)"""
    f = _func(tree, "_dergstrip")
    params = [a.arg for a in f.args.args]
    if params != ["rho", "s"]:
        raise Untranslatable(f"_dergstrip parameters {params}")
    body = [s for s in f.body if not _is_docstring(s)]
    env = {"rho": "rho", "s": "s"}
    scal, mask, branches = [], None, {}
    res = None
    masks = {}
    for st in body:
        if isinstance(st, ast.Return):
            if not (isinstance(st.value, ast.Name) and st.value.id == res):
                raise Untranslatable("_dergstrip: return value")
            continue
        if isinstance(st, ast.Assign) and len(st.targets) == 1 and isinstance(st.targets[0], ast.Subscript):
            t = st.targets[0]
            if not (isinstance(t.value, ast.Name) and t.value.id == res and isinstance(t.slice, ast.Name)
                    and t.slice.id in masks):
                raise Untranslatable(f"_dergstrip: masked assignment at line {st.lineno}")
            branches[masks[t.slice.id]] = KExpr(src, env, strip_subscripts=masks.keys()).tr(st.value)
            continue
        name = _single_target(st)
        if name is None:
            raise Untranslatable(f"_dergstrip: statement at line {st.lineno}")
        v = st.value
        if is_np_call(v, "zeros"):
            res = name
            continue
        if is_np_call(v, "isclose"):
            kw = {k.arg: k.value for k in v.keywords}
            if len(v.args) != 2 or set(kw) - {"atol", "rtol"}:
                raise Untranslatable("_dergstrip: np.isclose arguments")
            tr = KExpr(src, env)
            a, b = tr.tr(v.args[0]), tr.tr(v.args[1])
            atol = tr.tr(kw["atol"]) if "atol" in kw else const_k(ast.Constant(1e-8), "1e-8")
            rtol = tr.tr(kw["rtol"]) if "rtol" in kw else f"({nat(1)} / {nat(100000)})"
            mask = f"decide (Elem.abs ({a} - {b}) ≤ {atol} + {rtol} * Elem.abs {b})"
            masks[name] = True
            continue
        if (isinstance(v, ast.Compare) and len(v.ops) == 1 and isinstance(v.ops[0], ast.Eq)
                and isinstance(v.left, ast.Name) and v.left.id in masks
                and isinstance(v.comparators[0], ast.Constant) and v.comparators[0].value == 0):
            masks[name] = not masks[v.left.id]
            continue
        scal += _lets(src, [st], env)
    if mask is None or set(branches) != {True, False}:
        raise Untranslatable("_dergstrip: mask / two branches not found")
    return scal, mask, branches[True], branches[False]


# ----------------------------------------------------------------------------------------------
# Clenshaw-Curtis, Fejer: integer skeleton of the series
# ----------------------------------------------------------------------------------------------
def series_rule(tree, src, cls):
    f = _class_init(tree, cls)
    nenv = {"npoints": "n"}
    out = dict(cls=cls, ints=[], patch=None, py={})
    jname = None
    U = ast.unparse
    for st in f.body:
        if _is_docstring(st) or _is_guard(st) or _is_super_init(st):
            continue
        # if <cond>: bj[idx] = c
        if isinstance(st, ast.If):
            if (st.orelse or len(st.body) != 1 or not isinstance(st.body[0], ast.Assign)
                    or not isinstance(st.body[0].targets[0], ast.Subscript)
                    or not isinstance(st.test, ast.Compare) or len(st.test.ops) != 1
                    or not isinstance(st.test.ops[0], ast.Eq)):
                raise Untranslatable(f"{cls}: conditional at line {st.lineno}")
            t = st.body[0].targets[0]
            if not (isinstance(t.value, ast.Name) and t.value.id == "bj" and isinstance(st.body[0].value, ast.Constant)):
                raise Untranslatable(f"{cls}: patch statement at line {st.lineno}")
            ne = NExpr(nenv)
            out["patch"] = dict(cond=f"({ne.tr(st.test.left)} == {ne.tr(st.test.comparators[0])})",
                                idx=ne.tr(t.slice), val=const_k(st.body[0].value, src))
            out["py"]["patchCond"], out["py"]["patchIdx"] = U(st.test), U(t.slice)
            continue
        if isinstance(st, ast.AugAssign):
            if isinstance(st.target, ast.Name) and st.target.id == "bj" and isinstance(st.op, ast.Div):
                out["denom"] = NExpr({**nenv, jname: "j"}).tr(st.value)
                out["py"]["denom"] = U(st.value)
                continue
            if isinstance(st.target, ast.Subscript):
                continue  # end-point halving: hand model, tied by correspondence
            raise Untranslatable(f"{cls}: augmented assignment at line {st.lineno}")
        name = _single_target(st)
        if name is None:
            raise Untranslatable(f"{cls}: statement at line {st.lineno}")
        v = st.value
        if name in ("jmed", "nsum"):
            out["ints"].append((name, NExpr(nenv).tr(v)))
            out["py"][name] = U(v)
            nenv[name] = f"({name} n)"
        elif name == "theta" and "theta_expr" not in out:
            # element-wise in i = np.arange(npoints)[i]
            class T(KExpr):
                def tr(s, e):
                    if is_np_call(e, "arange"):
                        if not (len(e.args) == 1 and isinstance(e.args[0], ast.Name) and e.args[0].id == "npoints"):
                            raise Untranslatable(f"{cls}: theta uses another arange")
                        return "(i : K)"
                    return super().tr(e)
            out["theta_expr"] = T(src, {"npoints": "(n : K)"}).tr(v)
        elif name == "j":
            jname = "j"
            if is_np_call(v, "arange") and len(v.args) == 1:
                out["jlen"], out["joff"] = NExpr(nenv).tr(v.args[0]), "0"
                out["py"]["jLen"], out["py"]["jOff"] = U(v.args[0]), "0"
            elif (isinstance(v, ast.BinOp) and isinstance(v.op, ast.Add) and is_np_call(v.left, "arange")
                  and len(v.left.args) == 1):
                out["jlen"], out["joff"] = NExpr(nenv).tr(v.left.args[0]), NExpr(nenv).tr(v.right)
                out["py"]["jLen"], out["py"]["jOff"] = U(v.left.args[0]), U(v.right)
            else:
                raise Untranslatable(f"{cls}: j at line {st.lineno}")
        elif name == "bj":
            # [c *] np.ones(len) [/ (expr in j)]
            num, den = v, None
            if isinstance(v, ast.BinOp) and isinstance(v.op, ast.Div):
                num, den = v.left, v.right
            c = None
            if isinstance(num, ast.BinOp) and isinstance(num.op, ast.Mult) and isinstance(num.left, ast.Constant):
                c, num = num.left, num.right
            if not (is_np_call(num, "ones") and len(num.args) == 1):
                raise Untranslatable(f"{cls}: bj at line {st.lineno}")
            out["bjlen"] = NExpr(nenv).tr(num.args[0])
            out["py"]["bjLen"] = U(num.args[0])
            out["bjnum"] = const_k(c, src) if c is not None else nat(1)
            if den is not None:
                if jname is None:
                    raise Untranslatable(f"{cls}: bj uses j before its definition")
                out["denom"] = NExpr({**nenv, jname: "j"}).tr(den)
                out["py"]["denom"] = U(den)
        elif name in ("cij", "sij"):
            if not (isinstance(v, ast.Call) and is_np(v.func) and v.func.attr in ("cos", "sin") and len(v.args) == 1
                    and is_np_call(v.args[0], "outer") and len(v.args[0].args) == 2
                    and isinstance(v.args[0].args[1], ast.Name) and v.args[0].args[1].id == "theta"):
                raise Untranslatable(f"{cls}: series matrix at line {st.lineno}")
            out["trig"] = v.func.attr
            out["freq"] = NExpr({**nenv, jname: "j"}).tr(v.args[0].args[0])
            out["py"]["freq"] = U(v.args[0].args[0])
        else:
            continue  # points/weights assembly, reversal: hand model, tied by correspondence
    need = {"jlen", "joff", "bjlen", "bjnum", "denom", "trig", "freq", "theta_expr"}
    if need - set(out) or not out["ints"]:
        raise Untranslatable(f"{cls}: missing {sorted(need - set(out))}")
    return out


# ----------------------------------------------------------------------------------------------
# closed-form constructors with element-wise arrays: the whole constructor
# ----------------------------------------------------------------------------------------------
class Sc:
    """scalar of type K"""
    def __init__(self, term):
        self.term = term


class It:
    """integer scalar (a Lean `Nat` term); used as a length / index, or cast to K inside an array expression"""
    def __init__(self, term):
        self.term = term


class Ar:
    """1-D array: `length` is a Lean Nat term, `at(idx)` the Lean K term of entry `idx` (a Lean Nat term)"""
    def __init__(self, length, at):
        self.length, self.at = length, at


class Mt:
    """2-D array: entry (j, i)"""
    def __init__(self, rows, cols, at):
        self.rows, self.cols, self.at = rows, cols, at


class ArrayExpr:
    """NumPy expression over scalars / 1-D / 2-D arrays -> Sc / Ar / Mt (entry-wise Lean terms)."""

    def __init__(self, src, env, nenv):
        self.src, self.env, self.nenv = src, env, nenv

    def nat(self, e):
        return NExpr(self.nenv).tr(e)

    def lift(self, f, *vals):
        """entry-wise application of the term builder f to broadcast values"""
        if any(isinstance(v, Mt) for v in vals):
            m = next(v for v in vals if isinstance(v, Mt))
            if any(isinstance(v, Ar) for v in vals):
                raise Untranslatable("broadcast of a vector against a matrix")
            for v in vals:
                if isinstance(v, Mt) and (v.rows, v.cols) != (m.rows, m.cols):
                    raise Untranslatable("matrix shapes differ")
            return Mt(m.rows, m.cols, lambda j, i: f(*[v.at(j, i) if isinstance(v, Mt) else v.term for v in vals]))
        if any(isinstance(v, Ar) for v in vals):
            a = next(v for v in vals if isinstance(v, Ar))
            for v in vals:
                if isinstance(v, Ar) and v.length != a.length:
                    raise Untranslatable(f"array lengths differ: {v.length} / {a.length}")
            return Ar(a.length, lambda i: f(*[v.at(i) if isinstance(v, Ar) else v.term for v in vals]))
        return Sc(f(*[v.term for v in vals]))

    def tr(self, e):
        if isinstance(e, ast.Constant):
            return Sc(const_k(e, self.src))
        if isinstance(e, ast.Name):
            if e.id not in self.env:
                raise Untranslatable(f"unknown name {e.id!r} (line {e.lineno})")
            v = self.env[e.id]
            return Sc(f"(({v.term} : Nat) : K)") if isinstance(v, It) else v
        if is_np(e, "pi"):
            return Sc("Elem.pi")
        if isinstance(e, ast.UnaryOp) and isinstance(e.op, ast.USub):
            return self.lift(lambda a: f"(-{a})", self.tr(e.operand))
        if isinstance(e, ast.Subscript):
            v = self.tr(e.value)
            sl = e.slice
            if (isinstance(v, Ar) and isinstance(sl, ast.Slice) and sl.lower is None and sl.upper is None
                    and isinstance(sl.step, ast.UnaryOp) and isinstance(sl.step.op, ast.USub)
                    and isinstance(sl.step.operand, ast.Constant) and sl.step.operand.value == 1):
                return Ar(v.length, lambda i, v=v: v.at(f"({v.length} - 1 - {i})"))
            raise Untranslatable(f"subscript (line {e.lineno})")
        if isinstance(e, ast.BinOp):
            if isinstance(e.op, ast.MatMult):
                a, m = self.tr(e.left), self.tr(e.right)
                if not (isinstance(a, Ar) and isinstance(m, Mt) and a.length == m.rows):
                    raise Untranslatable(f"@ of something else than vector @ matrix of matching length (line {e.lineno})")
                return Ar(m.cols, lambda i, a=a, m=m: f"(gsum {m.rows} (fun j => ({a.at('j')} * {m.at('j', i)})))")
            if isinstance(e.op, ast.Pow):
                if isinstance(e.right, ast.Constant) and isinstance(e.right.value, int) and not isinstance(e.right.value, bool) and e.right.value >= 0:
                    return self.lift(lambda a: f"(npow {a} {e.right.value})", self.tr(e.left))
                raise Untranslatable(f"** with a non-literal exponent (line {e.lineno})")
            ops = {ast.Add: "+", ast.Sub: "-", ast.Mult: "*", ast.Div: "/"}
            if type(e.op) not in ops:
                raise Untranslatable(f"operator {type(e.op).__name__} (line {e.lineno})")
            o = ops[type(e.op)]
            return self.lift(lambda a, b: f"({a} {o} {b})", self.tr(e.left), self.tr(e.right))
        if isinstance(e, ast.Call) and is_np(e.func) and not e.keywords:
            fn, args = e.func.attr, e.args
            if fn in ELEM and len(args) == 1:
                return self.lift(lambda a: f"(Elem.{ELEM[fn]} {a})", self.tr(args[0]))
            if fn == "power" and len(args) == 2:
                return self.tr(ast.BinOp(left=args[0], op=ast.Pow(), right=args[1], lineno=e.lineno))
            if fn == "ones" and len(args) == 1:
                return Ar(self.nat(args[0]), lambda i: nat(1))
            if fn == "arange":
                if len(args) == 1:
                    return Ar(self.nat(args[0]), lambda i: f"(({i} : Nat) : K)")
                if len(args) in (2, 3):
                    if len(args) == 3 and not (isinstance(args[2], ast.Constant) and args[2].value == 1):
                        raise Untranslatable(f"np.arange with a step other than 1 (line {e.lineno})")
                    if not (isinstance(args[0], ast.Constant) and isinstance(args[0].value, int) and args[0].value >= 0):
                        raise Untranslatable(f"np.arange with a non-literal start (line {e.lineno})")
                    a = args[0].value
                    return Ar(f"({self.nat(args[1])} - {a})", lambda i: f"((({a} + {i}) : Nat) : K)")
            if fn == "outer" and len(args) == 2:
                a, b = self.tr(args[0]), self.tr(args[1])
                if not (isinstance(a, Ar) and isinstance(b, Ar)):
                    raise Untranslatable(f"np.outer of non-vectors (line {e.lineno})")
                return Mt(a.length, b.length, lambda j, i, a=a, b=b: f"({a.at(j)} * {b.at(i)})")
        raise Untranslatable(f"expression {ast.dump(e)[:80]} (line {getattr(e, 'lineno', '?')})")


def _guard_cond(test, npname):
    """`npoints <= c`, `npoints < c`, `npoints % c == 0` -> Lean Bool term in `(npoints : Int)`"""
    if isinstance(test, ast.Compare) and len(test.ops) == 1 and isinstance(test.comparators[0], ast.Constant) \
            and isinstance(test.comparators[0].value, int) and not isinstance(test.comparators[0].value, bool):
        c = test.comparators[0].value
        lhs, op = test.left, test.ops[0]
        if isinstance(lhs, ast.Name) and lhs.id == npname:
            l = "npoints"
        elif (isinstance(lhs, ast.BinOp) and isinstance(lhs.op, ast.Mod) and isinstance(lhs.left, ast.Name) and lhs.left.id == npname
              and isinstance(lhs.right, ast.Constant) and isinstance(lhs.right.value, int) and lhs.right.value > 0):
            l = f"npoints % {lhs.right.value}"
        else:
            raise Untranslatable(f"guard at line {test.lineno}")
        rel = {ast.LtE: "≤", ast.Lt: "<", ast.Eq: "=", ast.Gt: ">", ast.GtE: "≥", ast.NotEq: "≠"}.get(type(op))
        if rel is None:
            raise Untranslatable(f"guard relation at line {test.lineno}")
        return f"decide ({l} {rel} ({c} : Int))"
    raise Untranslatable(f"guard at line {getattr(test, 'lineno', '?')}")


def closed_rule(tree, src, cls):
    """-> dict(cls, defs=[(name, params, term, comment)], rejects, pointsLen, weightsLen, pointAt, weightAt, lo, hi)"""
    f = _class_init(tree, cls)
    args = [a.arg for a in f.args.args]
    if args != ["self", "npoints"]:
        raise Untranslatable(f"{cls}.__init__ signature {args}")
    env = {"npoints": Sc("((n : Nat) : K)")}
    nenv = {"npoints": "n"}
    defs, guards, version = [], [], {}
    U = ast.unparse
    final = None

    def bind(name, val, comment):
        k = version.get(name, -1) + 1
        version[name] = k
        dn = f"{cls}.{name}{k}"
        if isinstance(val, It):
            defs.append((dn, "(n : Nat)", val.term, comment, "Nat"))
            env[name] = It(f"({dn} n)")
            nenv[name] = f"({dn} n)"
            return
        nenv.pop(name, None)
        if isinstance(val, Ar):
            defs.append((dn, "(n i : Nat)", val.at("i"), comment, "K"))
            env[name] = Ar(val.length, lambda i, dn=dn: f"({dn} n {i})")
        elif isinstance(val, Mt):
            defs.append((dn, "(n j i : Nat)", val.at("j", "i"), comment, "K"))
            env[name] = Mt(val.rows, val.cols, lambda j, i, dn=dn: f"({dn} n {j} {i})")
        else:
            defs.append((dn, "(n : Nat)", val.term, comment, "K"))
            env[name] = Sc(f"({dn} n)")

    def int_cond(test):
        """`<int expr> == <int expr>` (also < <= > >= !=) over npoints / integer names -> Lean Prop on Nat"""
        if not (isinstance(test, ast.Compare) and len(test.ops) == 1):
            raise Untranslatable(f"{cls}: condition at line {test.lineno}")
        rel = {ast.LtE: "≤", ast.Lt: "<", ast.Eq: "=", ast.Gt: ">", ast.GtE: "≥", ast.NotEq: "≠"}.get(type(test.ops[0]))
        if rel is None:
            raise Untranslatable(f"{cls}: relation at line {test.lineno}")
        ne = NExpr(nenv)
        return f"{ne.tr(test.left)} {rel} {ne.tr(test.comparators[0])}"

    for st in f.body:
        if _is_docstring(st):
            continue
        if _is_guard(st):
            for r in st.body:
                exc = r.exc.func.id if isinstance(r.exc, ast.Call) and isinstance(r.exc.func, ast.Name) else None
                if exc != "ValueError":
                    raise Untranslatable(f"{cls}: guard raising {exc} (line {st.lineno})")
            guards.append(_guard_cond(st.test, "npoints"))
            continue
        if _is_super_init(st):
            a = st.value.args
            if not (len(a) == 3 and all(isinstance(x, ast.Name) for x in a[:2]) and isinstance(a[2], ast.Tuple) and len(a[2].elts) == 2):
                raise Untranslatable(f"{cls}: super().__init__ arguments (line {st.lineno})")
            lo, hi = a[2].elts
            lo_t = KExpr(src, {}).tr(lo)
            hi_t = "none" if is_np(hi, "inf") else f"(some {KExpr(src, {}).tr(hi)})"
            final = (a[0].id, a[1].id, lo_t, hi_t)
            continue
        ex = ArrayExpr(src, env, nenv)
        if isinstance(st, ast.If):
            # if <integer condition>: a[idx] = <scalar>
            if (st.orelse or len(st.body) != 1 or not isinstance(st.body[0], ast.Assign) or len(st.body[0].targets) != 1
                    or not isinstance(st.body[0].targets[0], ast.Subscript)):
                raise Untranslatable(f"{cls}: conditional at line {st.lineno}")
            t = st.body[0].targets[0]
            if not (isinstance(t.value, ast.Name) and isinstance(env.get(t.value.id), Ar)) or isinstance(t.slice, ast.Slice):
                raise Untranslatable(f"{cls}: conditional assignment target at line {st.lineno}")
            cur = env[t.value.id]
            c = ex.tr(st.body[0].value)
            if not isinstance(c, Sc):
                raise Untranslatable(f"{cls}: conditional assignment of a non-scalar (line {st.lineno})")
            cond, idx = int_cond(st.test), ex.nat(t.slice)
            bind(t.value.id, Ar(cur.length, lambda i, cur=cur, c=c, cond=cond, idx=idx:
                                f"(if ({cond}) ∧ {i} = {idx} then {c.term} else {cur.at(i)})"), U(st).replace("\n", " "))
            continue
        if isinstance(st, ast.AugAssign):
            ops = {ast.Mult: "*", ast.Div: "/", ast.Add: "+", ast.Sub: "-"}
            if type(st.op) not in ops:
                raise Untranslatable(f"{cls}: augmented operator (line {st.lineno})")
            o = ops[type(st.op)]
            t = st.target
            if isinstance(t, ast.Name):
                cur = env.get(t.id)
                if cur is None:
                    raise Untranslatable(f"{cls}: augmented assignment to an unknown name (line {st.lineno})")
                bind(t.id, ex.lift(lambda a, b: f"({a} {o} {b})", cur, ex.tr(st.value)), U(st))
                continue
            if isinstance(t, ast.Subscript) and isinstance(t.value, ast.Name) and isinstance(env.get(t.value.id), Ar):
                cur = env[t.value.id]
                c = ex.tr(st.value)
                if not isinstance(c, Sc):
                    raise Untranslatable(f"{cls}: slice update by a non-scalar (line {st.lineno})")
                if isinstance(t.slice, ast.Slice):
                    sl = t.slice
                    if sl.lower is None or sl.upper is None:
                        raise Untranslatable(f"{cls}: open slice (line {st.lineno})")
                    lo_n, hi_n = ex.nat(sl.lower), ex.nat(sl.upper)
                    stp = ex.nat(sl.step) if sl.step is not None else "1"
                    cond = lambda i: f"({lo_n} ≤ {i} ∧ {i} < {hi_n} ∧ ({i} - {lo_n}) % {stp} = 0)"
                else:
                    idx = ex.nat(t.slice)
                    cond = lambda i: f"{i} = {idx}"
                bind(t.value.id, Ar(cur.length, lambda i, cur=cur, c=c, cond=cond:
                                    f"(if {cond(i)} then ({cur.at(i)} {o} {c.term}) else {cur.at(i)})"), U(st))
                continue
            raise Untranslatable(f"{cls}: augmented assignment at line {st.lineno}")
        name = _single_target(st)
        if name is None:
            raise Untranslatable(f"{cls}: statement at line {st.lineno}")
        try:
            val = It(NExpr(nenv).tr(st.value))   # an integer scalar (jmed = (npoints - 1) // 2)
        except Untranslatable:
            val = ex.tr(st.value)
        bind(name, val, U(st))
    if final is None:
        raise Untranslatable(f"{cls}: super().__init__ not found")
    pn, wn, lo_t, hi_t = final
    if not (isinstance(env.get(pn), Ar) and isinstance(env.get(wn), Ar)):
        raise Untranslatable(f"{cls}: points / weights are not 1-D arrays")
    return dict(cls=cls, defs=defs, rejects=" || ".join(guards) if guards else "false",
                pointsLen=env[pn].length, weightsLen=env[wn].length,
                pointAt=env[pn].at("i"), weightAt=env[wn].at("i"), lo=lo_t, hi=hi_t)


# ----------------------------------------------------------------------------------------------
def lean_text(path=None) -> str:
    path = path or (SRC / "onedgrid.py")
    src = path.read_text()
    tree = ast.parse(src)
    P = [HEADER.format(name="onedgrid", source="src/grid/onedgrid.py")]
    P.append("import GridVerif.Model.Elem\n\nset_option linter.unusedVariables false\n")
    P.append("namespace GridVerif.Gen.OneD\nopen GridVerif\n")
    P.append("section\nvariable {K : Type} [Add K] [Sub K] [Mul K] [Div K] [Neg K] [NatCast K] [Elem K]\n")
    P.append("/-- `Σ_{j<m} f j`, accumulated from `0` in index order (what a `b @ M` product / `np.sum` denotes). -/")
    P.append("def gsum (m : Nat) (f : Nat → K) : K :=\n  (List.range m).foldl (fun acc j => acc + f j) ((0 : Nat) : K)\n")
    for cls in SUBST:
        r = subst_rule(tree, src, cls)
        P.append(f"/-- `{cls}`: node as a function of the index value `k` (`{r['kname']}`) and the step `h` (`{r['hname']}`). -/")
        P.append(f"def {cls}.node (k h : K) : K :=\n  {r['node']}\n")
        P.append(f"/-- `{cls}`: weight as coded. -/")
        P.append(f"def {cls}.weight (k h : K) : K :=\n  {r['weight']}\n")
        P.append(f"/-- `{cls}`: default value of `{r['hname']}`. -/")
        P.append(f"def {cls}.hDefault : K := {r['default']}\n")
    for nm, lean in (("_g2", "g2"), ("_derg2", "derg2"), ("_g3", "g3"), ("_derg3", "derg3")):
        P.append(f"/-- `{nm}`. -/")
        P.append(f"def {lean} (x : K) : K :=\n  {poly_func(tree, src, nm)}\n")
    P.append("/-- `_gstrip`. -/")
    P.append(f"def gstrip (rho s : K) : K :=\n{gstrip_func(tree, src)}\n")
    scal, mask, bt, bf = dergstrip_func(tree, src)
    pre = "\n".join(scal)
    P.append("/-- `_dergstrip`, branch `gp[mask_true]` (|s| within the `np.isclose` tolerance of 1). -/")
    P.append(f"def dergstripEnd (rho s : K) : K :=\n{pre}\n  {bt}\n")
    P.append("/-- `_dergstrip`, branch `gp[mask_false]`. -/")
    P.append(f"def dergstripInterior (rho s : K) : K :=\n{pre}\n  {bf}\n")
    P.append("/-- `mask_true` of `_dergstrip` (`np.isclose(a, b, atol)` is `|a - b| <= atol + rtol * |b|`). -/")
    P.append(f"def dergstripMask [LE K] [DecidableLE K] (s : K) : Bool :=\n  {mask}\n")
    for cls in SERIES:
        r = series_rule(tree, src, cls)
        P.append(f"/-- `{cls}`: `theta[i]`. -/")
        P.append(f"def {cls}.theta (n i : Nat) : K :=\n  {r['theta_expr']}\n")
        P.append(f"/-- `{cls}`: numerator constant of `bj`. -/")
        P.append(f"def {cls}.bjNum : K := {r['bjnum']}\n")
        P.append(f"/-- `{cls}`: the function applied to `np.outer(freq j, theta)`. -/")
        P.append(f"def {cls}.trig (x : K) : K := Elem.{r['trig']} x\n")
        if r["patch"]:
            P.append(f"/-- `{cls}`: value written by `if ...: bj[...] = c`. -/")
            P.append(f"def {cls}.patchVal : K := {r['patch']['val']}\n")
    closed = [closed_rule(tree, src, cls) for cls in CLOSED + SERIES]
    for r in closed:
        cls = r["cls"]
        for dn, params, term, comment, ty in r["defs"]:
            P.append(f"/-- `{cls}`: `{comment}` -/")
            P.append(f"def {dn} {params} : {ty} :=\n  {term}\n")
        P.append(f"/-- `{cls}`: entry `i` of the `points` / `weights` handed to `OneDGrid.__init__`, and the declared domain. -/")
        P.append(f"def {cls}.pointAt (n i : Nat) : K := {r['pointAt']}")
        P.append(f"def {cls}.weightAt (n i : Nat) : K := {r['weightAt']}")
        P.append(f"def {cls}.lo : K := {r['lo']}")
        P.append(f"def {cls}.hi : Option K := {r['hi']}\n")
    P.append("end\n")
    for r in closed:
        cls = r["cls"]
        P.append(f"/-- `{cls}`: the `raise ValueError` guards, and the lengths of `points` / `weights`. -/")
        P.append(f"def {cls}.rejects (npoints : Int) : Bool := {r['rejects']}")
        P.append(f"def {cls}.pointsLen (n : Nat) : Nat := {r['pointsLen']}")
        P.append(f"def {cls}.weightsLen (n : Nat) : Nat := {r['weightsLen']}\n")
    for cls in SUBST:
        r = subst_rule(tree, src, cls)
        P.append(f"/-- `{cls}`: first index value and number of index values (from the `np.arange` line). -/")
        P.append(f"def {cls}.kFirst (n : Nat) : Int := {r['kfirst']}")
        P.append(f"def {cls}.kLen (n : Nat) : Nat := {r['klen']}\n")
    for cls in SERIES:
        r = series_rule(tree, src, cls)
        for name, expr in r["ints"]:
            P.append(f"/-- `{cls}`: `{name}`. -/")
            P.append(f"def {cls}.{name} (n : Nat) : Nat := {expr}")
        P.append(f"/-- `{cls}`: length of `j = np.arange(..)` and its offset; length of `np.ones(..)`. -/")
        P.append(f"def {cls}.jLen (n : Nat) : Nat := {r['jlen']}")
        P.append(f"def {cls}.jOff (n : Nat) : Nat := {r['joff']}")
        P.append(f"def {cls}.bjLen (n : Nat) : Nat := {r['bjlen']}")
        P.append(f"/-- `{cls}`: integer denominator of `bj` and frequency in `np.outer(.., theta)`, in the value `j`. -/")
        P.append(f"def {cls}.denom (n j : Nat) : Nat := {r['denom']}")
        P.append(f"def {cls}.freq (n j : Nat) : Nat := {r['freq']}")
        if r["patch"]:
            P.append(f"/-- `{cls}`: `if cond: bj[idx] = patchVal`. -/")
            P.append(f"def {cls}.patchCond (n : Nat) : Bool := {r['patch']['cond']}")
            P.append(f"def {cls}.patchIdx (n : Nat) : Nat := {r['patch']['idx']}")
        P.append("")
    P.append("end GridVerif.Gen.OneD\n")
    return "\n".join(P)


def generate():
    return write_if_changed("OneDFormulas.lean", lean_text())


def python_side():
    """Python source text of the translated integer expressions (used by the self-check of the
    translation in the correspondence: evaluated with `eval` and compared with the Lean `Nat`/`Int` functions)."""
    path = SRC / "onedgrid.py"
    src = path.read_text()
    tree = ast.parse(src)
    return ({c: series_rule(tree, src, c)["py"] for c in SERIES},
            {c: subst_rule(tree, src, c) for c in SUBST})

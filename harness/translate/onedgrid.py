"""Translator: grid/onedgrid.py -> Gen/OneDFormulas.lean (AST-based, no import of the module).

What is carried over (DESIGN 2.3, C01):

* the seven variable-substitution rules (TanhSinh, ExpSinh, LogExpSinh, ExpExp, SingleTanh,
  SingleExp, SingleArcSinhExp): the element-wise `points = ...` / `weights = ...`
  (with `weights *=`, `weights /=`) expressions as generic-K functions `node k h`,
  `weight k h` of the index value `k` and the step `h`, and the index range
  (`kFirst n : Int`, `kLen n : Nat`) read off the `np.arange` line;
* `_g2, _derg2, _g3, _derg3, _gstrip, _dergstrip` (the latter as its two branches and the
  `np.isclose` mask predicate);
* of ClenshawCurtis / FejerFirst / FejerSecond: `jmed` / `nsum`, the lengths and offsets of the
  `np.arange` / `np.ones` arrays, the integer denominators and frequencies in `j`, the
  numerator constant, the `if ...: bj[idx] = c` patch of Clenshaw-Curtis, the trigonometric
  function of the series and the element-wise `theta` expression.

Semantics of the translation
  int constants  c        -> ((c : Nat) : K)
  float constants 0.5     -> exact decimal value as a quotient ((1 : Nat) : K) / ((2 : Nat) : K)
  np.pi                   -> Elem.pi
  + - * / unary -         -> the K operations, in the evaluation order of the Python expression
  e ** c (c int literal)  -> npow e c
  np.exp/log/...          -> Elem.*
  integer-valued sub-expressions (2 * np.arange(n) + 1, npoints - 1, ...) are evaluated in K:
  exact in binary64 below 2^53 and the same real number over R.
  Loop bounds are `Nat` expressions; `a - b` is truncated subtraction (equal to Python's
  whenever Python's result is non-negative, which the constructors' guards ensure; a changed
  source for which this is not the case shows up in the correspondence at the smallest n),
  `a // c` with a positive literal c is Nat division.

Anything outside this vocabulary raises `Untranslatable` (reported by the runner as a broken
obligation)."""
import ast
from fractions import Fraction

from ..common import SRC
from .util import HEADER, write_if_changed


class Untranslatable(Exception):
    pass


SUBST = ["TanhSinh", "ExpSinh", "LogExpSinh", "ExpExp", "SingleTanh", "SingleExp", "SingleArcSinhExp"]
SERIES = ["ClenshawCurtis", "FejerFirst", "FejerSecond"]
ELEM = {
    "exp": "exp", "log": "log", "sqrt": "sqrt", "sin": "sin", "cos": "cos", "tan": "tan", "tanh": "tanh",
    "sinh": "sinh", "cosh": "cosh", "arcsinh": "arcsinh", "arcsin": "arcsin", "arccos": "arccos",
    "fabs": "abs", "abs": "abs", "absolute": "abs",
}


def nat(c: int) -> str:
    return f"(({c} : Nat) : K)"


def const_k(node: ast.Constant, src: str) -> str:
    v = node.value
    if isinstance(v, bool) or not isinstance(v, (int, float)):
        raise Untranslatable(f"constant {v!r}")
    if isinstance(v, int):
        if v < 0:
            raise Untranslatable("negative literal")
        return nat(v)
    text = ast.get_source_segment(src, node) or repr(v)
    fr = Fraction(text)
    if float(fr) != v:
        raise Untranslatable(f"float literal {text}")
    if fr.denominator == 1:
        return nat(fr.numerator)
    return f"({nat(fr.numerator)} / {nat(fr.denominator)})"


def is_np(node, name=None):
    return (isinstance(node, ast.Attribute) and isinstance(node.value, ast.Name) and node.value.id == "np"
            and (name is None or node.attr == name))


def is_np_call(node, name):
    return isinstance(node, ast.Call) and is_np(node.func, name)


class KExpr:
    """Python expression -> Lean term of type K.  env: name -> Lean term (already parenthesised)."""

    def __init__(self, src, env, strip_subscripts=()):
        self.src = src
        self.env = env
        self.strip = set(strip_subscripts)

    def tr(self, e) -> str:
        if isinstance(e, ast.Constant):
            return const_k(e, self.src)
        if isinstance(e, ast.Name):
            if e.id not in self.env:
                raise Untranslatable(f"unknown name {e.id!r} (line {e.lineno})")
            return self.env[e.id]
        if is_np(e, "pi"):
            return "Elem.pi"
        if isinstance(e, ast.Subscript):
            if isinstance(e.slice, ast.Name) and e.slice.id in self.strip:
                return self.tr(e.value)
            raise Untranslatable(f"subscript (line {e.lineno})")
        if isinstance(e, ast.UnaryOp) and isinstance(e.op, ast.USub):
            return f"(-{self.tr(e.operand)})"
        if isinstance(e, ast.BinOp):
            if isinstance(e.op, ast.Pow):
                if isinstance(e.right, ast.Constant) and isinstance(e.right.value, int) and not isinstance(e.right.value, bool) and e.right.value >= 0:
                    return f"(npow {self.tr(e.left)} {e.right.value})"
                raise Untranslatable(f"** with a non-literal exponent (line {e.lineno})")
            ops = {ast.Add: "+", ast.Sub: "-", ast.Mult: "*", ast.Div: "/"}
            if type(e.op) not in ops:
                raise Untranslatable(f"operator {type(e.op).__name__} (line {e.lineno})")
            return f"({self.tr(e.left)} {ops[type(e.op)]} {self.tr(e.right)})"
        if isinstance(e, ast.Call) and is_np(e.func) and e.func.attr in ELEM and len(e.args) == 1 and not e.keywords:
            return f"(Elem.{ELEM[e.func.attr]} {self.tr(e.args[0])})"
        if isinstance(e, ast.Call) and is_np(e.func, "power") and len(e.args) == 2:
            return self.tr(ast.BinOp(left=e.args[0], op=ast.Pow(), right=e.args[1], lineno=e.lineno))
        raise Untranslatable(f"expression {ast.dump(e)[:80]} (line {getattr(e, 'lineno', '?')})")


class NExpr:
    """Integer Python expression -> Lean `Nat` term.  env: name -> Lean Nat term."""

    def __init__(self, env):
        self.env = env

    def tr(self, e) -> str:
        if isinstance(e, ast.Constant) and isinstance(e.value, int) and not isinstance(e.value, bool) and e.value >= 0:
            return str(e.value)
        if isinstance(e, ast.Name):
            if e.id not in self.env:
                raise Untranslatable(f"unknown integer name {e.id!r} (line {e.lineno})")
            return self.env[e.id]
        if isinstance(e, ast.BinOp):
            if isinstance(e.op, ast.FloorDiv):
                if not (isinstance(e.right, ast.Constant) and isinstance(e.right.value, int) and e.right.value > 0):
                    raise Untranslatable("// by a non-literal or non-positive divisor")
                return f"({self.tr(e.left)} / {e.right.value})"
            if isinstance(e.op, ast.Pow):
                if not (isinstance(e.right, ast.Constant) and isinstance(e.right.value, int) and e.right.value >= 0):
                    raise Untranslatable("** with a non-literal exponent")
                return f"({self.tr(e.left)} ^ {e.right.value})"
            ops = {ast.Add: "+", ast.Sub: "-", ast.Mult: "*"}
            if type(e.op) not in ops:
                raise Untranslatable(f"integer operator {type(e.op).__name__} (line {e.lineno})")
            return f"({self.tr(e.left)} {ops[type(e.op)]} {self.tr(e.right)})"
        raise Untranslatable(f"integer expression {ast.dump(e)[:80]}")


class IExpr(NExpr):
    """Integer Python expression -> Lean `Int` term (for the index ranges of the substitution rules).
    `int(a / c)` with a positive literal c is truncation towards zero = Int.tdiv."""

    def tr(self, e) -> str:
        if isinstance(e, ast.Constant) and isinstance(e.value, int) and not isinstance(e.value, bool):
            return f"({e.value} : Int)"
        if isinstance(e, ast.UnaryOp) and isinstance(e.op, ast.USub):
            return f"(-{self.tr(e.operand)})"
        if isinstance(e, ast.Call) and isinstance(e.func, ast.Name) and e.func.id == "int" and len(e.args) == 1:
            a = e.args[0]
            if (isinstance(a, ast.BinOp) and isinstance(a.op, ast.Div) and isinstance(a.right, ast.Constant)
                    and isinstance(a.right.value, int) and a.right.value > 0):
                return f"(Int.tdiv {self.tr(a.left)} {a.right.value})"
            raise Untranslatable("int(...) of something else than <int expr> / <positive literal>")
        if isinstance(e, ast.BinOp) and isinstance(e.op, (ast.FloorDiv, ast.Pow, ast.Div)):
            raise Untranslatable("operator not supported in an index-range expression")
        return super().tr(e)


def _class_init(tree, cls):
    for node in tree.body:
        if isinstance(node, ast.ClassDef) and node.name == cls:
            for f in node.body:
                if isinstance(f, ast.FunctionDef) and f.name == "__init__":
                    return f
    raise Untranslatable(f"class {cls} / __init__ not found")


def _func(tree, name):
    for node in tree.body:
        if isinstance(node, ast.FunctionDef) and node.name == name:
            return node
    raise Untranslatable(f"function {name} not found")


def _is_docstring(st):
    return isinstance(st, ast.Expr) and isinstance(st.value, ast.Constant) and isinstance(st.value.value, str)


def _is_guard(st):
    return isinstance(st, ast.If) and not st.orelse and all(isinstance(s, ast.Raise) for s in st.body)


def _is_warn(st):
    return (isinstance(st, ast.Expr) and isinstance(st.value, ast.Call) and isinstance(st.value.func, ast.Attribute)
            and st.value.func.attr == "warn")


def _is_super_init(st):
    return isinstance(st, ast.Expr) and isinstance(st.value, ast.Call) and "super" in ast.dump(st.value.func)


def _single_target(st):
    if isinstance(st, ast.Assign) and len(st.targets) == 1 and isinstance(st.targets[0], ast.Name):
        return st.targets[0].id
    return None


# ----------------------------------------------------------------------------------------------
# the seven substitution rules
# ----------------------------------------------------------------------------------------------
def subst_rule(tree, src, cls):
    f = _class_init(tree, cls)
    args = [a.arg for a in f.args.args]
    if len(args) != 3 or args[0] != "self" or args[1] != "npoints":
        raise Untranslatable(f"{cls}.__init__ signature {args}")
    hname = args[2]
    default = f.args.defaults[-1] if f.args.defaults else None
    if not (isinstance(default, ast.Constant) and isinstance(default.value, (int, float))):
        raise Untranslatable(f"{cls}: default of {hname}")
    ienv = {"npoints": "(n : Int)"}
    kenv = {hname: "h"}
    kname = None
    kfirst = klen = pyk = None
    pypre = []
    for st in f.body:
        if _is_docstring(st) or _is_guard(st) or _is_warn(st) or _is_super_init(st):
            continue
        if isinstance(st, ast.AugAssign) and isinstance(st.target, ast.Name) and st.target.id in kenv:
            ops = {ast.Mult: "*", ast.Div: "/", ast.Add: "+", ast.Sub: "-"}
            if type(st.op) not in ops:
                raise Untranslatable(f"{cls}: augmented operator (line {st.lineno})")
            kenv[st.target.id] = f"({kenv[st.target.id]} {ops[type(st.op)]} {KExpr(src, kenv).tr(st.value)})"
            continue
        name = _single_target(st)
        if name is None:
            raise Untranslatable(f"{cls}: statement at line {st.lineno}")
        v = st.value
        dump = ast.dump(v)
        if "arange" in dump:
            # k = np.arange(a, b)      or      j = <int expr> + np.arange(npoints)
            if is_np_call(v, "arange") and len(v.args) == 2:
                a, b = (IExpr(ienv).tr(x) for x in v.args)
                kfirst, klen = a, f"(Int.toNat ({b} - {a}))"
                pyk = ast.unparse(v)
            elif (isinstance(v, ast.BinOp) and isinstance(v.op, ast.Add) and is_np_call(v.right, "arange")
                  and len(v.right.args) == 1):
                kfirst = IExpr(ienv).tr(v.left)
                klen = f"(Int.toNat {IExpr(ienv).tr(v.right.args[0])})"
                pyk = ast.unparse(v)
            else:
                raise Untranslatable(f"{cls}: index range at line {st.lineno}")
            kname = name
            kenv[name] = "k"
            continue
        if kname is None:
            # integer helper before the arange line (m = int((npoints - 1) / 2))
            ienv[name] = IExpr(ienv).tr(v)
            pypre.append(ast.unparse(st))
            continue
        kenv[name] = KExpr(src, kenv).tr(v)
    if kname is None or "points" not in kenv or "weights" not in kenv:
        raise Untranslatable(f"{cls}: points / weights / index range not found")
    return dict(cls=cls, hname=hname, kname=kname, default=const_k(default, src), kfirst=kfirst, klen=klen,
                py_index="; ".join(pypre + [f"__k = {pyk}"]), py_default=default.value,
                node=kenv["points"], weight=kenv["weights"])


# ----------------------------------------------------------------------------------------------
# plain functions (_g2 ... _dergstrip)
# ----------------------------------------------------------------------------------------------
def poly_func(tree, src, name):
    f = _func(tree, name)
    body = [s for s in f.body if not _is_docstring(s)]
    if len(f.args.args) != 1 or len(body) != 1 or not isinstance(body[0], ast.Return):
        raise Untranslatable(f"{name}: expected a single return statement")
    return KExpr(src, {f.args.args[0].arg: "x"}).tr(body[0].value)


def _lets(src, stmts, env, strip=()):
    """straight-line assignments -> list of `let` lines; env is extended with the names."""
    out = []
    for st in stmts:
        name = _single_target(st)
        if name is None:
            raise Untranslatable(f"statement at line {st.lineno}")
        out.append(f"  let {name} : K := {KExpr(src, env, strip).tr(st.value)}")
        env[name] = name
    return out


def gstrip_func(tree, src):
    f = _func(tree, "_gstrip")
    params = [a.arg for a in f.args.args]
    if params != ["rho", "s"]:
        raise Untranslatable(f"_gstrip parameters {params}")
    body = [s for s in f.body if not _is_docstring(s)]
    if not isinstance(body[-1], ast.Return):
        raise Untranslatable("_gstrip: last statement is not a return")
    env = {"rho": "rho", "s": "s"}
    lets = _lets(src, body[:-1], env)
    return "\n".join(lets + ["  " + KExpr(src, env).tr(body[-1].value)])


def dergstrip_func(tree, src):
    """-> (lets of the scalar prefix, mask predicate, end branch, interior branch)"""
    f = _func(tree, "_dergstrip")
    params = [a.arg for a in f.args.args]
    if params != ["rho", "s"]:
        raise Untranslatable(f"_dergstrip parameters {params}")
    body = [s for s in f.body if not _is_docstring(s)]
    env = {"rho": "rho", "s": "s"}
    scal, mask, branches = [], None, {}
    res = None
    masks = {}
    for st in body:
        if isinstance(st, ast.Return):
            if not (isinstance(st.value, ast.Name) and st.value.id == res):
                raise Untranslatable("_dergstrip: return value")
            continue
        if isinstance(st, ast.Assign) and len(st.targets) == 1 and isinstance(st.targets[0], ast.Subscript):
            t = st.targets[0]
            if not (isinstance(t.value, ast.Name) and t.value.id == res and isinstance(t.slice, ast.Name)
                    and t.slice.id in masks):
                raise Untranslatable(f"_dergstrip: masked assignment at line {st.lineno}")
            branches[masks[t.slice.id]] = KExpr(src, env, strip_subscripts=masks.keys()).tr(st.value)
            continue
        name = _single_target(st)
        if name is None:
            raise Untranslatable(f"_dergstrip: statement at line {st.lineno}")
        v = st.value
        if is_np_call(v, "zeros"):
            res = name
            continue
        if is_np_call(v, "isclose"):
            kw = {k.arg: k.value for k in v.keywords}
            if len(v.args) != 2 or set(kw) - {"atol", "rtol"}:
                raise Untranslatable("_dergstrip: np.isclose arguments")
            tr = KExpr(src, env)
            a, b = tr.tr(v.args[0]), tr.tr(v.args[1])
            atol = tr.tr(kw["atol"]) if "atol" in kw else const_k(ast.Constant(1e-8), "1e-8")
            rtol = tr.tr(kw["rtol"]) if "rtol" in kw else f"({nat(1)} / {nat(100000)})"
            mask = f"decide (Elem.abs ({a} - {b}) ≤ {atol} + {rtol} * Elem.abs {b})"
            masks[name] = True
            continue
        if (isinstance(v, ast.Compare) and len(v.ops) == 1 and isinstance(v.ops[0], ast.Eq)
                and isinstance(v.left, ast.Name) and v.left.id in masks
                and isinstance(v.comparators[0], ast.Constant) and v.comparators[0].value == 0):
            masks[name] = not masks[v.left.id]
            continue
        scal += _lets(src, [st], env)
    if mask is None or set(branches) != {True, False}:
        raise Untranslatable("_dergstrip: mask / two branches not found")
    return scal, mask, branches[True], branches[False]


# ----------------------------------------------------------------------------------------------
# Clenshaw-Curtis, Fejer: integer skeleton of the series
# ----------------------------------------------------------------------------------------------
def series_rule(tree, src, cls):
    f = _class_init(tree, cls)
    nenv = {"npoints": "n"}
    out = dict(cls=cls, ints=[], patch=None, py={})
    jname = None
    U = ast.unparse
    for st in f.body:
        if _is_docstring(st) or _is_guard(st) or _is_super_init(st):
            continue
        # if <cond>: bj[idx] = c
        if isinstance(st, ast.If):
            if (st.orelse or len(st.body) != 1 or not isinstance(st.body[0], ast.Assign)
                    or not isinstance(st.body[0].targets[0], ast.Subscript)
                    or not isinstance(st.test, ast.Compare) or len(st.test.ops) != 1
                    or not isinstance(st.test.ops[0], ast.Eq)):
                raise Untranslatable(f"{cls}: conditional at line {st.lineno}")
            t = st.body[0].targets[0]
            if not (isinstance(t.value, ast.Name) and t.value.id == "bj" and isinstance(st.body[0].value, ast.Constant)):
                raise Untranslatable(f"{cls}: patch statement at line {st.lineno}")
            ne = NExpr(nenv)
            out["patch"] = dict(cond=f"({ne.tr(st.test.left)} == {ne.tr(st.test.comparators[0])})",
                                idx=ne.tr(t.slice), val=const_k(st.body[0].value, src))
            out["py"]["patchCond"], out["py"]["patchIdx"] = U(st.test), U(t.slice)
            continue
        if isinstance(st, ast.AugAssign):
            if isinstance(st.target, ast.Name) and st.target.id == "bj" and isinstance(st.op, ast.Div):
                out["denom"] = NExpr({**nenv, jname: "j"}).tr(st.value)
                out["py"]["denom"] = U(st.value)
                continue
            if isinstance(st.target, ast.Subscript):
                continue  # end-point halving: hand model, tied by correspondence
            raise Untranslatable(f"{cls}: augmented assignment at line {st.lineno}")
        name = _single_target(st)
        if name is None:
            raise Untranslatable(f"{cls}: statement at line {st.lineno}")
        v = st.value
        if name in ("jmed", "nsum"):
            out["ints"].append((name, NExpr(nenv).tr(v)))
            out["py"][name] = U(v)
            nenv[name] = f"({name} n)"
        elif name == "theta" and "theta_expr" not in out:
            # element-wise in i = np.arange(npoints)[i]
            class T(KExpr):
                def tr(s, e):
                    if is_np_call(e, "arange"):
                        if not (len(e.args) == 1 and isinstance(e.args[0], ast.Name) and e.args[0].id == "npoints"):
                            raise Untranslatable(f"{cls}: theta uses another arange")
                        return "(i : K)"
                    return super().tr(e)
            out["theta_expr"] = T(src, {"npoints": "(n : K)"}).tr(v)
        elif name == "j":
            jname = "j"
            if is_np_call(v, "arange") and len(v.args) == 1:
                out["jlen"], out["joff"] = NExpr(nenv).tr(v.args[0]), "0"
                out["py"]["jLen"], out["py"]["jOff"] = U(v.args[0]), "0"
            elif (isinstance(v, ast.BinOp) and isinstance(v.op, ast.Add) and is_np_call(v.left, "arange")
                  and len(v.left.args) == 1):
                out["jlen"], out["joff"] = NExpr(nenv).tr(v.left.args[0]), NExpr(nenv).tr(v.right)
                out["py"]["jLen"], out["py"]["jOff"] = U(v.left.args[0]), U(v.right)
            else:
                raise Untranslatable(f"{cls}: j at line {st.lineno}")
        elif name == "bj":
            # [c *] np.ones(len) [/ (expr in j)]
            num, den = v, None
            if isinstance(v, ast.BinOp) and isinstance(v.op, ast.Div):
                num, den = v.left, v.right
            c = None
            if isinstance(num, ast.BinOp) and isinstance(num.op, ast.Mult) and isinstance(num.left, ast.Constant):
                c, num = num.left, num.right
            if not (is_np_call(num, "ones") and len(num.args) == 1):
                raise Untranslatable(f"{cls}: bj at line {st.lineno}")
            out["bjlen"] = NExpr(nenv).tr(num.args[0])
            out["py"]["bjLen"] = U(num.args[0])
            out["bjnum"] = const_k(c, src) if c is not None else nat(1)
            if den is not None:
                if jname is None:
                    raise Untranslatable(f"{cls}: bj uses j before its definition")
                out["denom"] = NExpr({**nenv, jname: "j"}).tr(den)
                out["py"]["denom"] = U(den)
        elif name in ("cij", "sij"):
            if not (isinstance(v, ast.Call) and is_np(v.func) and v.func.attr in ("cos", "sin") and len(v.args) == 1
                    and is_np_call(v.args[0], "outer") and len(v.args[0].args) == 2
                    and isinstance(v.args[0].args[1], ast.Name) and v.args[0].args[1].id == "theta"):
                raise Untranslatable(f"{cls}: series matrix at line {st.lineno}")
            out["trig"] = v.func.attr
            out["freq"] = NExpr({**nenv, jname: "j"}).tr(v.args[0].args[0])
            out["py"]["freq"] = U(v.args[0].args[0])
        else:
            continue  # points/weights assembly, reversal: hand model, tied by correspondence
    need = {"jlen", "joff", "bjlen", "bjnum", "denom", "trig", "freq", "theta_expr"}
    if need - set(out) or not out["ints"]:
        raise Untranslatable(f"{cls}: missing {sorted(need - set(out))}")
    return out


# ----------------------------------------------------------------------------------------------
def lean_text(path=None) -> str:
    path = path or (SRC / "onedgrid.py")
    src = path.read_text()
    tree = ast.parse(src)
    P = [HEADER.format(name="onedgrid", source="src/grid/onedgrid.py")]
    P.append("import GridVerif.Model.Elem\n\nset_option linter.unusedVariables false\n")
    P.append("namespace GridVerif.Gen.OneD\nopen GridVerif\n")
    P.append("section\nvariable {K : Type} [Add K] [Sub K] [Mul K] [Div K] [Neg K] [NatCast K] [Elem K]\n")
    for cls in SUBST:
        r = subst_rule(tree, src, cls)
        P.append(f"/-- `{cls}`: node as a function of the index value `k` (`{r['kname']}`) and the step `h` (`{r['hname']}`). -/")
        P.append(f"def {cls}.node (k h : K) : K :=\n  {r['node']}\n")
        P.append(f"/-- `{cls}`: weight as coded. -/")
        P.append(f"def {cls}.weight (k h : K) : K :=\n  {r['weight']}\n")
        P.append(f"/-- `{cls}`: default value of `{r['hname']}`. -/")
        P.append(f"def {cls}.hDefault : K := {r['default']}\n")
    for nm, lean in (("_g2", "g2"), ("_derg2", "derg2"), ("_g3", "g3"), ("_derg3", "derg3")):
        P.append(f"/-- `{nm}`. -/")
        P.append(f"def {lean} (x : K) : K :=\n  {poly_func(tree, src, nm)}\n")
    P.append("/-- `_gstrip`. -/")
    P.append(f"def gstrip (rho s : K) : K :=\n{gstrip_func(tree, src)}\n")
    scal, mask, bt, bf = dergstrip_func(tree, src)
    pre = "\n".join(scal)
    P.append("/-- `_dergstrip`, branch `gp[mask_true]` (|s| within the `np.isclose` tolerance of 1). -/")
    P.append(f"def dergstripEnd (rho s : K) : K :=\n{pre}\n  {bt}\n")
    P.append("/-- `_dergstrip`, branch `gp[mask_false]`. -/")
    P.append(f"def dergstripInterior (rho s : K) : K :=\n{pre}\n  {bf}\n")
    P.append("/-- `mask_true` of `_dergstrip` (`np.isclose(a, b, atol)` is `|a - b| <= atol + rtol * |b|`). -/")
    P.append(f"def dergstripMask [LE K] [DecidableLE K] (s : K) : Bool :=\n  {mask}\n")
    for cls in SERIES:
        r = series_rule(tree, src, cls)
        P.append(f"/-- `{cls}`: `theta[i]`. -/")
        P.append(f"def {cls}.theta (n i : Nat) : K :=\n  {r['theta_expr']}\n")
        P.append(f"/-- `{cls}`: numerator constant of `bj`. -/")
        P.append(f"def {cls}.bjNum : K := {r['bjnum']}\n")
        P.append(f"/-- `{cls}`: the function applied to `np.outer(freq j, theta)`. -/")
        P.append(f"def {cls}.trig (x : K) : K := Elem.{r['trig']} x\n")
        if r["patch"]:
            P.append(f"/-- `{cls}`: value written by `if ...: bj[...] = c`. -/")
            P.append(f"def {cls}.patchVal : K := {r['patch']['val']}\n")
    P.append("end\n")
    for cls in SUBST:
        r = subst_rule(tree, src, cls)
        P.append(f"/-- `{cls}`: first index value and number of index values (from the `np.arange` line). -/")
        P.append(f"def {cls}.kFirst (n : Nat) : Int := {r['kfirst']}")
        P.append(f"def {cls}.kLen (n : Nat) : Nat := {r['klen']}\n")
    for cls in SERIES:
        r = series_rule(tree, src, cls)
        for name, expr in r["ints"]:
            P.append(f"/-- `{cls}`: `{name}`. -/")
            P.append(f"def {cls}.{name} (n : Nat) : Nat := {expr}")
        P.append(f"/-- `{cls}`: length of `j = np.arange(..)` and its offset; length of `np.ones(..)`. -/")
        P.append(f"def {cls}.jLen (n : Nat) : Nat := {r['jlen']}")
        P.append(f"def {cls}.jOff (n : Nat) : Nat := {r['joff']}")
        P.append(f"def {cls}.bjLen (n : Nat) : Nat := {r['bjlen']}")
        P.append(f"/-- `{cls}`: integer denominator of `bj` and frequency in `np.outer(.., theta)`, in the value `j`. -/")
        P.append(f"def {cls}.denom (n j : Nat) : Nat := {r['denom']}")
        P.append(f"def {cls}.freq (n j : Nat) : Nat := {r['freq']}")
        if r["patch"]:
            P.append(f"/-- `{cls}`: `if cond: bj[idx] = patchVal`. -/")
            P.append(f"def {cls}.patchCond (n : Nat) : Bool := {r['patch']['cond']}")
            P.append(f"def {cls}.patchIdx (n : Nat) : Nat := {r['patch']['idx']}")
        P.append("")
    P.append("end GridVerif.Gen.OneD\n")
    return "\n".join(P)


def generate():
    return write_if_changed("OneDFormulas.lean", lean_text())


def python_side():
    """Python source text of the translated integer expressions (used by the self-check of the
    translation in the correspondence: evaluated with `eval` and compared with the Lean `Nat`/`Int` functions)."""
    path = SRC / "onedgrid.py"
    src = path.read_text()
    tree = ast.parse(src)
    return ({c: series_rule(tree, src, c)["py"] for c in SERIES},
            {c: subst_rule(tree, src, c) for c in SUBST})

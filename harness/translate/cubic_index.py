"""Translator: grid/cubic.py index arithmetic -> Gen/CubicIndex.lean.

AST based.  The bodies of `_HyperRectangleGrid.index_to_coordinates` and
`_HyperRectangleGrid.coordinates_to_index` are translated statement by statement into
Lean `do` blocks in the `Except PyErr` monad over the Python-semantics primitives of
`Model/CubicPy.lean` (`pyGet`, `pySet`, `pyFloorDiv`, `pyRange`, `pyEmpty`, `pyDot`).
Only integer straight-line code, `if`/early `return`, `raise ValueError` guards and
`for … in range(…)` loops assigning into an integer array are accepted; anything else
raises `Untranslatable` (treated by the check like a proof obligation that no longer
holds).  A change of the arithmetic (operands, operators, constants, loop bounds, index
offsets, branch conditions) changes the Lean text, and the theorems of `Props/C13` are
re-checked against it.
"""
import ast

from ..common import SRC
from .util import HEADER, write_if_changed


class Untranslatable(Exception):
    pass


def _fail(node, why):
    raise Untranslatable(f"cubic.py line {getattr(node, 'lineno', '?')}: {why}: {ast.unparse(node)[:120]}")


BINOPS = {ast.Add: "+", ast.Sub: "-", ast.Mult: "*"}
CMPOPS = {ast.Eq: "==", ast.NotEq: "!=", ast.GtE: "≥", ast.Gt: ">", ast.LtE: "≤", ast.Lt: "<"}


class Tr:
    """Translation of one method.  `arrays`: local names holding integer arrays."""

    def __init__(self):
        self.arrays = set()
        self.scalars = set()

    # -- expressions --------------------------------------------------------
    def expr(self, e):
        if isinstance(e, ast.Constant):
            if isinstance(e.value, bool) or not isinstance(e.value, int):
                _fail(e, "non-integer constant")
            return f"({e.value})"
        if isinstance(e, ast.Name):
            if e.id in self.scalars:
                return e.id
            _fail(e, "unknown scalar name")
        if isinstance(e, ast.Attribute):
            if ast.unparse(e) == "self.ndim":
                return "ndim"
            _fail(e, "unsupported attribute")
        if isinstance(e, ast.UnaryOp) and isinstance(e.op, ast.USub):
            return f"(-{self.expr(e.operand)})"
        if isinstance(e, ast.BinOp):
            if type(e.op) in BINOPS:
                return f"({self.expr(e.left)} {BINOPS[type(e.op)]} {self.expr(e.right)})"
            if isinstance(e.op, ast.FloorDiv):
                return f"(← pyFloorDiv {self.expr(e.left)} {self.expr(e.right)})"
            _fail(e, "unsupported operator")
        if isinstance(e, ast.Subscript):
            return f"(← pyGet {self.array(e.value)} {self.expr(e.slice)})"
        _fail(e, "unsupported expression")

    def array(self, e):
        if ast.unparse(e) == "self.shape":
            return "shape"
        if isinstance(e, ast.Name) and e.id in self.arrays:
            return e.id
        _fail(e, "unknown array")

    def cond(self, e):
        if isinstance(e, ast.UnaryOp) and isinstance(e.op, ast.Not):
            return f"!({self.cond(e.operand)})"
        if isinstance(e, ast.Compare) and len(e.ops) == 1 and type(e.ops[0]) in CMPOPS:
            op = CMPOPS[type(e.ops[0])]
            a, b = self.expr(e.left), self.expr(e.comparators[0])
            if op in ("==", "!="):
                return f"({a} {op} {b})"
            return f"decide ({a} {op} {b})"
        _fail(e, "unsupported condition")

    # -- statements ---------------------------------------------------------
    def block(self, stmts, ind):
        out = []
        for s in stmts:
            out += self.stmt(s, ind)
        return out

    def stmt(self, s, ind):
        p = " " * ind
        if isinstance(s, ast.Expr) and isinstance(s.value, ast.Constant) and isinstance(s.value.value, str):
            return []  # docstring
        if isinstance(s, ast.If):
            if s.orelse:
                _fail(s, "else branch not supported")
            body = self.block(s.body, ind + 2)
            return [f"{p}if {self.cond(s.test)} then"] + body
        if isinstance(s, ast.Raise):
            exc = s.exc
            name = exc.func.id if isinstance(exc, ast.Call) and isinstance(exc.func, ast.Name) else None
            tag = {"ValueError": "valueError", "IndexError": "indexError", "TypeError": "typeError",
                   "NotImplementedError": "notImplemented"}.get(name)
            if tag is None:
                _fail(s, "unsupported raise")
            return [f"{p}throw PyErr.{tag}"]
        if isinstance(s, ast.Return):
            v = s.value
            if isinstance(v, ast.Tuple):
                return [f"{p}return [{', '.join(self.expr(x) for x in v.elts)}]"]
            if (isinstance(v, ast.Call) and ast.unparse(v.func) == "np.dot" and len(v.args) == 2
                    and not v.keywords):
                return [f"{p}return (← pyDot {self.array(v.args[0])} {self.array(v.args[1])})"]
            _fail(s, "unsupported return value")
        if isinstance(s, ast.Assign) and len(s.targets) == 1:
            t, v = s.targets[0], s.value
            # x = np.asarray(x): identity on an integer sequence
            if (isinstance(t, ast.Name) and isinstance(v, ast.Call) and ast.unparse(v.func) == "np.asarray"
                    and len(v.args) == 1 and isinstance(v.args[0], ast.Name) and v.args[0].id == t.id
                    and t.id in self.arrays and not v.keywords):
                return [f"{p}let {t.id} := {t.id}  -- np.asarray"]
            # a = np.empty(n, dtype=int)
            if (isinstance(t, ast.Name) and isinstance(v, ast.Call) and ast.unparse(v.func) == "np.empty"
                    and len(v.args) == 1 and [k.arg for k in v.keywords] == ["dtype"]
                    and ast.unparse(v.keywords[0].value) == "int"):
                n = self.expr(v.args[0])
                self.arrays.add(t.id)
                return [f"{p}let {t.id} := pyEmpty {n} junk"]
            # a[e] = e'
            if isinstance(t, ast.Subscript):
                a = self.array(t.value)
                if a == "shape":
                    _fail(s, "assignment into self.shape")
                return [f"{p}let {a} ← pySet {a} {self.expr(t.slice)} {self.expr(v)}"]
            # tuple assignment of fresh scalars
            if isinstance(t, ast.Tuple) and isinstance(v, ast.Tuple) and len(t.elts) == len(v.elts):
                names = []
                for x in t.elts:
                    if not isinstance(x, ast.Name):
                        _fail(s, "unsupported tuple target")
                    names.append(x.id)
                used = {n.id for x in v.elts for n in ast.walk(x) if isinstance(n, ast.Name)}
                if used & set(names):
                    _fail(s, "tuple assignment reads its own targets")
                vals = [self.expr(x) for x in v.elts]
                self.scalars.update(names)
                return [f"{p}let {n} := {e}" for n, e in zip(names, vals)]
            if isinstance(t, ast.Name):
                e = self.expr(v)
                self.scalars.add(t.id)
                return [f"{p}let {t.id} := {e}"]
            _fail(s, "unsupported assignment")
        if isinstance(s, ast.For):
            if s.orelse or not isinstance(s.target, ast.Name):
                _fail(s, "unsupported loop")
            it = s.iter
            if not (isinstance(it, ast.Call) and isinstance(it.func, ast.Name) and it.func.id == "range"
                    and not it.keywords and 1 <= len(it.args) <= 3):
                _fail(s, "loop is not over range(...)")
            args = [self.expr(a) for a in it.args]
            if len(args) == 1:
                args = ["(0)", args[0], "(1)"]
            elif len(args) == 2:
                args = args + ["(1)"]
            # arrays assigned in the body are the loop state
            written = []
            for b in s.body:
                if not (isinstance(b, ast.Assign) and len(b.targets) == 1 and isinstance(b.targets[0], ast.Subscript)):
                    _fail(b, "loop body must be array assignments")
                a = self.array(b.targets[0].value)
                if a not in written:
                    written.append(a)
            if len(written) != 1:
                _fail(s, "loop must write exactly one array")
            a = written[0]
            v = s.target.id
            fresh = v not in self.scalars
            self.scalars.add(v)
            body = self.block(s.body, ind + 4)
            if fresh:
                self.scalars.discard(v)
            return ([f"{p}let {a} ← (pyRange {' '.join(args)}).foldlM (fun {a} {v} => do"]
                    + body + [f"{p}    pure {a}) {a}"])
        _fail(s, "unsupported statement")


def _method(tree, cls, name):
    for c in tree.body:
        if isinstance(c, ast.ClassDef) and c.name == cls:
            for f in c.body:
                if isinstance(f, ast.FunctionDef) and f.name == name:
                    return f
    raise Untranslatable(f"{cls}.{name} not found in cubic.py")


def translate():
    tree = ast.parse((SRC / "cubic.py").read_text())
    parts = []
    # index_to_coordinates(self, index)
    f = _method(tree, "_HyperRectangleGrid", "index_to_coordinates")
    if [a.arg for a in f.args.args] != ["self", "index"]:
        raise Untranslatable("index_to_coordinates: unexpected signature")
    tr = Tr()
    tr.scalars.add("index")
    body = tr.block(f.body, 2)
    parts.append("/-- `_HyperRectangleGrid.index_to_coordinates` (both the 3-D and the 2-D branch). -/")
    parts.append("def indexToCoordinates (ndim : Int) (shape : List Int) (index : Int) : Py (List Int) := do")
    parts += body
    parts.append("")
    # coordinates_to_index(self, indices)
    f = _method(tree, "_HyperRectangleGrid", "coordinates_to_index")
    if [a.arg for a in f.args.args] != ["self", "indices"]:
        raise Untranslatable("coordinates_to_index: unexpected signature")
    tr = Tr()
    tr.arrays.add("indices")
    body = tr.block(f.body, 2)
    parts.append("/-- `_HyperRectangleGrid.coordinates_to_index`: stride recurrence and dot product.")
    parts.append("`junk` is the content of the uninitialised `np.empty` array. -/")
    parts.append("def coordinatesToIndex (ndim : Int) (shape : List Int) (junk : Int) (indices : List Int) : Py Int := do")
    parts += body
    parts.append("")
    return "\n".join(parts)


def generate():
    text = HEADER.format(name="cubic_index", source="src/grid/cubic.py (_HyperRectangleGrid.index_to_coordinates, coordinates_to_index)")
    text += "import GridVerif.Model.CubicPy\n\nnamespace GridVerif.Gen.CubicIndex\nopen GridVerif.Cubic\n\n"
    text += translate()
    text += "\nend GridVerif.Gen.CubicIndex\n"
    return write_if_changed("CubicIndex.lean", text)


if __name__ == "__main__":
    print(translate())

"""Translator: grid/ngrid.py (MultiDomainGrid, _chunked_iterator) -> Gen/NGrid.lean.

AST based, statement by statement.  Carried: `MultiDomainGrid.__init__` (guards and the attributes it
sets), the properties `num_domains`, `size`, `weights`, `points`, the refusing methods `get_localgrid` and
`moments` (signature with every default value, and the `raise`), the method `integrate` (both the
point-by-point route with its two chunked generators and the vectorised route with the single-domain
shortcut, the repeated-grid mode and the `grid_list[:-1]` / `grid_list[-1]` split) and the generator
function `_chunked_iterator`.

Target: programs in `Except Err` over the primitives of `Model/NGrid.lean`
(`itertoolsProduct`, `itertoolsProductRepeat`, `pyIslice`, `pyZip`, `pyIndex`, `pySlice`, `npProd`,
`npSum`, `npMul`, `pyWhileTrue`, …).  Conventions of the translation:

* generators / iterators are lists; a generator expression is a `map`;
* `for a, b in zip(x, y): acc += …` is a `foldl` (a `foldlM` when the body can raise) over `pyZip x y`
  whose state is the accumulator assigned in the body;
* the integrand is a record with two fields: `integrand_function(*p)` is `.pointwise p`,
  `integrand_function(*p, x)` is `.vectorised p x`, `integrand_function(x)` is `.vectorised [] x`;
* `x[k]` on `grid_list` may raise `IndexError` (`pyIndex`), `grid.integrate(v)` may raise `ValueError`
  (`Grid.integrate` of the model = `basegrid.Grid.integrate`), `a * b` on two arrays checks the lengths (`npMul`);
* `while True:` in a generator function is `pyWhileTrue` with the bound `len(iterator) + 1` on the number
  of passes (the theorem `gen_chunked_eq_model` shows the bound is never reached);
* `isinstance` tests of parameters whose type is fixed by the translation are `pyIsInstance … = true`.

Anything outside the accepted subset (other slices, `reversed`, steps, new calls, other loop shapes) raises
`Untranslatable`, which the check treats like a proof obligation that no longer holds.
"""
import ast

from ..common import SRC
from .util import HEADER, write_if_changed


class Untranslatable(Exception):
    pass


def _fail(node, why):
    raise Untranslatable(f"ngrid.py line {getattr(node, 'lineno', '?')}: {why}: {ast.unparse(node)[:140]}")


EXTRA_ATTRS = {}                                   # attribute -> Lean type, filled by `translate` from __init__


def _attr_type(v):
    """Lean type of a further attribute set by __init__: a list with one entry per listed grid (its weights / points / size),
    possibly repeated; anything else is not carried."""
    if isinstance(v, ast.BinOp) and isinstance(v.op, ast.Mult):
        v = v.left
    if (isinstance(v, ast.ListComp) and len(v.generators) == 1 and ast.unparse(v.generators[0].iter) == "grid_list"
            and isinstance(v.elt, ast.Attribute) and isinstance(v.elt.value, ast.Name) and v.elt.value.id == v.generators[0].target.id):
        return {"weights": "List (List K)", "points": "List (List α)", "size": "List Nat"}.get(v.elt.attr)
    return None


EXC = {"ValueError": "valueError", "TypeError": "typeError", "IndexError": "indexError",
       "NotImplementedError": "notImplementedError"}
PURE_PROPS = {"num_domains"}                       # properties that cannot raise
GRID_FIELDS = {"weights", "points", "size"}        # attributes of a basegrid.Grid


def _is_none_test(e):
    """`X is not None` / `X is None` -> (X, positive?) else None"""
    if (isinstance(e, ast.Compare) and len(e.ops) == 1 and isinstance(e.ops[0], (ast.Is, ast.IsNot))
            and isinstance(e.comparators[0], ast.Constant) and e.comparators[0].value is None):
        return e.left, isinstance(e.ops[0], ast.IsNot)
    return None


class Tr:
    def __init__(self, env, optional=(), props=None, arrays=()):
        self.env = dict(env)               # python name -> lean text
        self.optional = set(optional)      # python expressions of type Optional[int]
        self.props = props or {}           # MultiDomainGrid property -> raises?
        self.arrays = set(arrays)          # local names bound to 1-D float arrays
        self.scalars = set()
        self.lambdas = set()
        self.mut = set()
        self.attrs = set(EXTRA_ATTRS)      # further attributes set by __init__ (carried as fields of the record)

    # ---- expressions ---------------------------------------------------------------------
    def is_grid(self, e):
        """expression denoting a basegrid.Grid: an element of grid_list"""
        if isinstance(e, ast.Name):
            return self.env.get(e.id, (None,))[-1] == "grid" if isinstance(self.env.get(e.id), tuple) else False
        return isinstance(e, ast.Subscript) and ast.unparse(e.value) == "self.grid_list" and not isinstance(e.slice, ast.Slice)

    def name(self, n):
        v = self.env.get(n)
        return v[0] if isinstance(v, tuple) else v

    def kind(self, e):
        """'arr' for a 1-D array of values, 'scalar' for a number, None when unknown"""
        if isinstance(e, ast.Name):
            return "arr" if e.id in self.arrays else "scalar" if e.id in self.scalars else None
        if isinstance(e, ast.Call):
            fn = ast.unparse(e.func)
            if fn == "np.array":
                return "arr"
            if fn in ("np.sum", "np.prod") or (isinstance(e.func, ast.Attribute) and e.func.attr == "integrate"):
                return "scalar"
        if isinstance(e, ast.BinOp):
            a, b = self.kind(e.left), self.kind(e.right)
            return "arr" if "arr" in (a, b) else "scalar" if a == b == "scalar" else None
        if isinstance(e, ast.Constant):
            return "scalar"
        return None

    def expr(self, e):
        if isinstance(e, ast.Constant):
            if isinstance(e.value, bool):
                return "true" if e.value else "false"
            if isinstance(e.value, int) and e.value >= 0:
                return str(e.value)
            if isinstance(e.value, int):
                return f"({e.value})"
            if isinstance(e.value, float) and e.value == 0.0:
                return "((0 : Nat) : K)"
            if isinstance(e.value, str):
                return '"' + e.value + '"'
            _fail(e, "unsupported constant")
        if isinstance(e, ast.Name):
            if e.id in self.env:
                return self.name(e.id)
            _fail(e, "unknown name")
        if isinstance(e, ast.Attribute):
            base = ast.unparse(e.value)
            if base == "self":
                if e.attr in ("grid_list", "_num_domains") or e.attr in self.attrs:
                    return f"self.{e.attr}"
                if e.attr in self.props:
                    return f"(← self.{e.attr})" if self.props[e.attr] else f"self.{e.attr}"
                _fail(e, "unknown attribute of self")
            if self.is_grid(e.value) and e.attr in GRID_FIELDS:
                return f"{self.expr(e.value)}.{e.attr}"
            _fail(e, "unsupported attribute")
        if isinstance(e, ast.Subscript):
            if ast.unparse(e.value) != "self.grid_list":
                _fail(e, "subscript of something else than self.grid_list")
            if isinstance(e.slice, ast.Slice):
                s = e.slice
                if s.step is not None:
                    _fail(e, "slice with a step")

                def bound(b):
                    if b is None:
                        return "none"
                    if isinstance(b, ast.Constant) and isinstance(b.value, int):
                        return f"(some {b.value})"
                    if isinstance(b, ast.UnaryOp) and isinstance(b.op, ast.USub) and isinstance(b.operand, ast.Constant) and isinstance(b.operand.value, int):
                        return f"(some (-{b.operand.value}))"
                    _fail(e, "slice bound is not an integer literal")
                return f"(pySlice self.grid_list {bound(s.lower)} {bound(s.upper)})"
            k = e.slice
            if isinstance(k, ast.UnaryOp) and isinstance(k.op, ast.USub) and isinstance(k.operand, ast.Constant) and isinstance(k.operand.value, int):
                return f"(← pyIndex self.grid_list (-{k.operand.value}))"
            if isinstance(k, ast.Constant) and isinstance(k.value, int):
                return f"(← pyIndex self.grid_list {k.value})"
            _fail(e, "index is not an integer literal")
        if isinstance(e, ast.BinOp):
            a, b = self.expr(e.left), self.expr(e.right)
            if isinstance(e.op, ast.Mult) and isinstance(e.left, (ast.ListComp, ast.List)):
                return f"(pyListRepeat {a} {b})"            # [..] * n
            if isinstance(e.op, ast.Mult):
                ka, kb = self.kind(e.left), self.kind(e.right)
                if ka == kb == "arr":
                    return f"(← npMul {a} {b})"
                if "arr" in (ka, kb):
                    _fail(e, "product of an array and a non-array")
                return f"({a} * {b})"
            if isinstance(e.op, ast.Add):
                return f"({a} + {b})"
            if isinstance(e.op, ast.Sub):
                return f"({a} - {b})"
            if isinstance(e.op, ast.Pow):
                return f"({a} ^ {b})"
            _fail(e, "unsupported operator")
        if isinstance(e, ast.Compare):
            nt = _is_none_test(e)
            if nt is not None:
                x, pos = nt
                key = ast.unparse(x)
                if key in self.optional:
                    t = f"{self.expr(x)}.isSome"
                elif key == "self.num_domains":
                    t = f"(pyIntIsNotNone {self.expr(x)})"
                else:
                    _fail(e, "None test of a value that is not tracked as optional")
                return t if pos else f"(!{t})"
            if len(e.ops) != 1:
                _fail(e, "chained comparison")
            a, b = self.expr(e.left), self.expr(e.comparators[0])
            op = type(e.ops[0])
            if op is ast.Eq:
                return f"({a} == {b})"
            if op is ast.NotEq:
                return f"({a} != {b})"
            if op in (ast.Lt, ast.LtE, ast.Gt, ast.GtE):
                sym = {ast.Lt: "<", ast.LtE: "≤", ast.Gt: ">", ast.GtE: "≥"}[op]
                return f"(decide ({a} {sym} {b}))"
            _fail(e, "unsupported comparison")
        if (isinstance(e, ast.BoolOp) and isinstance(e.op, ast.Or) and len(e.values) == 2 and ast.unparse(e.values[0]) in self.optional
                and isinstance(e.values[1], ast.Constant) and isinstance(e.values[1].value, int) and not isinstance(e.values[1].value, bool)):
            return f"(pyOptOr {self.expr(e.values[0])} {self.expr(e.values[1])})"        # `x or 1` for an Optional[int]
        if isinstance(e, ast.BoolOp):
            return "(" + (" && " if isinstance(e.op, ast.And) else " || ").join(self.expr(v) for v in e.values) + ")"
        if isinstance(e, ast.UnaryOp) and isinstance(e.op, ast.Not):
            return f"(!{self.expr(e.operand)})"
        if isinstance(e, ast.IfExp):
            nt = _is_none_test(e.test)
            if nt and nt[1] and ast.unparse(nt[0]) in self.optional and ast.unparse(e.body) == ast.unparse(nt[0]):
                return f"(match {self.expr(nt[0])} with | some v => v | none => {self.expr(e.orelse)})"
            _fail(e, "unsupported conditional expression")
        if isinstance(e, (ast.ListComp, ast.GeneratorExp)):
            return self.comprehension(e)
        if isinstance(e, ast.Lambda):
            if len(e.args.args) != 1 or e.args.defaults or e.args.vararg or e.args.kwarg:
                _fail(e, "unsupported lambda")
            v = e.args.args[0].arg
            saved = self.env.get(v)
            self.env[v] = v
            body = self.expr(e.body)
            self.env.pop(v) if saved is None else self.env.__setitem__(v, saved)
            if "←" in body:
                _fail(e, "raising operation inside a lambda")
            return f"(fun {v} => {body})"
        if isinstance(e, ast.Call):
            return self.call(e)
        _fail(e, "unsupported expression")

    def comprehension(self, e):
        if len(e.generators) != 1 or e.generators[0].ifs or e.generators[0].is_async or not isinstance(e.generators[0].target, ast.Name):
            _fail(e, "unsupported comprehension")
        g = e.generators[0]
        it = self.expr(g.iter)
        v = g.target.id
        saved = self.env.get(v)
        # an element of (a slice of) grid_list is a grid
        self.env[v] = (v, "grid") if ast.unparse(g.iter).startswith("self.grid_list") or ast.unparse(g.iter) == "grid_list" else v
        body = self.expr(e.elt)
        self.env.pop(v) if saved is None else self.env.__setitem__(v, saved)
        if "←" in body:
            _fail(e, "raising operation inside a comprehension")
        return f"({it}.map fun {v} => {body})"

    def call(self, e):
        fn = ast.unparse(e.func)
        args, kws = e.args, {k.arg: k.value for k in e.keywords}
        if fn == "len" and len(args) == 1 and not kws:
            return f"(pyLen {self.expr(args[0])})"
        if fn == "isinstance" and len(args) == 2 and not kws:
            return f'(pyIsInstance {self.expr(args[0])} "{ast.unparse(args[1])}")'
        if fn == "all" and len(args) == 1 and isinstance(args[0], ast.GeneratorExp) and not kws:
            return f"({self.comprehension(args[0])}.all id)"
        if fn == "itertools.product":
            if len(args) == 1 and isinstance(args[0], ast.Starred) and not kws:
                return f"(itertoolsProduct {self.expr(args[0].value)})"
            if len(args) == 1 and not isinstance(args[0], ast.Starred) and list(kws) == ["repeat"]:
                return f"(itertoolsProductRepeat {self.expr(args[0])} {self.expr(kws['repeat'])})"
            _fail(e, "unsupported form of itertools.product")
        simple = {"np.prod": "npProd", "np.sum": "npSum", "np.array": "npArray", "list": "pyList", "iter": "pyIter"}
        if fn in simple and len(args) == 1 and not kws and not isinstance(args[0], ast.Starred):
            return f"({simple[fn]} {self.expr(args[0])})"
        if fn == "zip" and len(args) == 2 and not kws:
            return f"(pyZip {self.expr(args[0])} {self.expr(args[1])})"
        if fn == "_chunked_iterator" and len(args) == 2 and not kws:
            return f"(← chunkedIterator {self.expr(args[0])} {self.expr(args[1])})"
        if fn == "integrand_function" and not kws and fn in self.env:
            f = self.name(fn)
            if len(args) == 1 and isinstance(args[0], ast.Starred):
                return f"({f}.pointwise {self.expr(args[0].value)})"
            if len(args) == 2 and isinstance(args[0], ast.Starred) and not isinstance(args[1], ast.Starred):
                return f"({f}.vectorised {self.expr(args[0].value)} {self.expr(args[1])})"
            if len(args) == 1:
                return f"({f}.vectorised [] {self.expr(args[0])})"
            _fail(e, "unsupported way of calling the integrand")
        if isinstance(e.func, ast.Name) and e.func.id in self.lambdas and len(args) == 1 and not kws:
            return f"({e.func.id} {self.expr(args[0])})"
        if isinstance(e.func, ast.Attribute) and e.func.attr == "integrate" and self.is_grid(e.func.value) and len(args) == 1 and not kws:
            return f"(← {self.expr(e.func.value)}.integrate {self.expr(args[0])})"
        _fail(e, "unsupported call")

    # ---- statements ----------------------------------------------------------------------
    def block(self, stmts, ind):
        out = []
        for s in stmts:
            out += self.stmt(s, ind)
        return out

    def assigned(self, stmts):
        names = []
        for s in stmts:
            for n in ast.walk(s):
                t = None
                if isinstance(n, ast.Assign) and len(n.targets) == 1 and isinstance(n.targets[0], ast.Name):
                    t = n.targets[0].id
                elif isinstance(n, ast.AugAssign) and isinstance(n.target, ast.Name):
                    t = n.target.id
                if t and t not in names:
                    names.append(t)
        return names

    def bind(self, name, text, ind, node):
        p = " " * ind
        if name in self.mut:
            return [f"{p}{name} := {text}"]
        if name in self.env:
            _fail(node, "re-assignment of an immutable binding")
        self.env[name] = name
        return [f"{p}let {name} := {text}"]

    def stmt(self, s, ind):
        p = " " * ind
        if isinstance(s, ast.Expr) and isinstance(s.value, ast.Constant) and isinstance(s.value.value, str):
            return []
        if isinstance(s, ast.Raise):
            name = s.exc.func.id if isinstance(s.exc, ast.Call) and isinstance(s.exc.func, ast.Name) else None
            if name not in EXC:
                _fail(s, "unsupported raise")
            return [f"{p}throw Err.{EXC[name]}"]
        if isinstance(s, ast.Return):
            return [f"{p}return {self.expr(s.value)}"]
        if isinstance(s, ast.If):
            nt = _is_none_test(s.test)
            if nt and nt[1] and isinstance(nt[0], ast.Name) and nt[0].id in self.optional:
                # `if x is not None: body` on an Optional[int] parameter: inside the body x is an int
                x = nt[0].id
                self.optional.discard(x)
                old = self.env[x]
                self.env[x] = f"{x}_v"
                body = self.block(s.body, ind + 4)
                self.env[x] = old
                self.optional.add(x)
                orelse = self.block(s.orelse, ind + 4) if s.orelse else [f"{p}    pure ()"]
                return [f"{p}match {old} with", f"{p}| some {x}_v =>"] + body + [f"{p}| none =>"] + orelse
            c = self.expr(s.test)
            # both branches only assign the same variables: one tuple binding
            ba, oa = self.assigned(s.body), self.assigned(s.orelse)
            if (s.orelse and ba == oa and ba and all(isinstance(x, ast.Assign) for x in s.body + s.orelse)
                    and len(s.body) == len(ba) == len(s.orelse) and not any(n in self.env for n in ba)):
                def branch(stmts):
                    vals = {x.targets[0].id: self.expr(x.value) for x in stmts}
                    return ", ".join(vals[n] for n in ba)
                tup = ", ".join(ba)
                out = [f"{p}let ({tup}) ←" if len(ba) > 1 else f"{p}let {tup} ←",
                       f"{p}  if {c} then do", f"{p}    pure ({branch(s.body)})",
                       f"{p}  else do", f"{p}    pure ({branch(s.orelse)})"]
                for n in ba:
                    self.env[n] = n
                return out
            # names bound inside a branch are local to it (a later use outside is an unknown name -> Untranslatable)
            saved = (dict(self.env), set(self.arrays), set(self.scalars), set(self.lambdas))
            out = [f"{p}if {c} then"] + self.block(s.body, ind + 2)
            self.env, self.arrays, self.scalars, self.lambdas = (dict(saved[0]), set(saved[1]), set(saved[2]), set(saved[3]))
            if s.orelse:
                out += [f"{p}else"] + self.block(s.orelse, ind + 2)
                self.env, self.arrays, self.scalars, self.lambdas = saved
            return out
        if isinstance(s, ast.Assign) and len(s.targets) == 1:
            t, v = s.targets[0], s.value
            if isinstance(t, ast.Attribute) and ast.unparse(t.value) == "self":
                self.fields.append((t.attr, self.expr(v)))
                return []
            if not isinstance(t, ast.Name):
                _fail(s, "unsupported assignment target")
            if isinstance(v, ast.Lambda):
                self.lambdas.add(t.id)
            k = self.kind(v)
            text = self.expr(v)
            if k == "arr":
                self.arrays.add(t.id)
            elif k == "scalar":
                self.scalars.add(t.id)
            if t.id in self.mutnames and t.id not in self.env:
                self.env[t.id] = t.id
                self.mut.add(t.id)
                return [f"{p}let mut {t.id} : K := {text}"]
            return self.bind(t.id, text, ind, s)
        if isinstance(s, ast.AugAssign) and isinstance(s.op, ast.Add) and isinstance(s.target, ast.Name) and s.target.id in self.mut:
            return [f"{p}{s.target.id} := ({s.target.id} + {self.expr(s.value)})"]
        if isinstance(s, ast.For):
            return self.loop(s, ind)
        _fail(s, "unsupported statement")

    def loop(self, s, ind):
        """for a, b in zip(x, y): <lets>; acc += e   ->  acc ← (pyZip x y).foldlM (fun acc item => do …) acc"""
        p = " " * ind
        if s.orelse:
            _fail(s, "for … else")
        it = self.expr(s.iter)
        state = [n for n in self.assigned(s.body) if n in self.mut]
        if len(state) != 1:
            _fail(s, "loop body must update exactly one accumulator declared before the loop")
        acc = state[0]
        saved_env, saved_arr, saved_sc, saved_l = dict(self.env), set(self.arrays), set(self.scalars), set(self.lambdas)
        lines = []
        if isinstance(s.target, ast.Tuple) and len(s.target.elts) == 2 and all(isinstance(x, ast.Name) for x in s.target.elts):
            a, b = (x.id for x in s.target.elts)
            lines += [f"{p}    let {a} := item.1", f"{p}    let {b} := item.2"]
            self.env[a], self.env[b] = a, b
        elif isinstance(s.target, ast.Name):
            lines += [f"{p}    let {s.target.id} := item"]
            self.env[s.target.id] = s.target.id
        else:
            _fail(s, "unsupported loop target")
        self.mut.discard(acc)
        for b in s.body:
            if isinstance(b, ast.AugAssign) and isinstance(b.op, ast.Add) and isinstance(b.target, ast.Name) and b.target.id == acc:
                lines.append(f"{p}    let {acc} := ({acc} + {self.expr(b.value)})")
            elif isinstance(b, ast.Assign) and len(b.targets) == 1 and isinstance(b.targets[0], ast.Name) and b.targets[0].id != acc:
                t = b.targets[0].id
                if isinstance(b.value, ast.Lambda):
                    self.lambdas.add(t)
                k = self.kind(b.value)
                text = self.expr(b.value)
                if k == "arr":
                    self.arrays.add(t)
                self.env[t] = t
                lines.append(f"{p}    let {t} := {text}")
            else:
                _fail(b, "unsupported statement in a loop body")
        self.mut.add(acc)
        self.env, self.arrays, self.scalars, self.lambdas = saved_env, saved_arr, saved_sc, saved_l
        return ([f"{p}{acc} ← {it}.foldlM (fun {acc} item => do"] + lines + [f"{p}    pure {acc}) {acc}"])


def _class(tree, name):
    for c in tree.body:
        if isinstance(c, ast.ClassDef) and c.name == name:
            return c
    raise Untranslatable(f"class {name} not found in ngrid.py")


def _method(cls, name, prop=False):
    found = [f for f in cls.body if isinstance(f, ast.FunctionDef) and f.name == name]
    if len(found) != 1:
        raise Untranslatable(f"MultiDomainGrid.{name}: expected exactly one definition")
    f = found[0]
    is_prop = any(ast.unparse(d) == "property" for d in f.decorator_list)
    if prop != is_prop or (f.decorator_list and not is_prop):
        raise Untranslatable(f"MultiDomainGrid.{name}: unexpected decorators")
    return f


def _argnames(f):
    return [a.arg for a in f.args.args]


def translate_generator(tree):
    f = next((x for x in tree.body if isinstance(x, ast.FunctionDef) and x.name == "_chunked_iterator"), None)
    if f is None or _argnames(f) != ["iterator", "size"]:
        raise Untranslatable("_chunked_iterator(iterator, size) not found")
    body = [s for s in f.body if not (isinstance(s, ast.Expr) and isinstance(s.value, ast.Constant))]
    if (len(body) != 2 or ast.unparse(body[0]) != "iterator = iter(iterator)" or not isinstance(body[1], ast.While)
            or ast.unparse(body[1].test) != "True" or body[1].orelse):
        raise Untranslatable("_chunked_iterator: expected `iterator = iter(iterator)` followed by `while True:`")
    out = ["/-- `_chunked_iterator(iterator, size)`: the generator, collected. The loop state of `while True:` is the",
           "iterator; the bound on the number of passes is `len(iterator) + 1`. -/",
           "def chunkedIterator {β : Type} (iterator : List β) (size : Nat) : Except Err (List (List β)) :=",
           "  let iterator := (pyIter iterator)",
           "  pyWhileTrue (pyLen iterator + 1) iterator (fun iterator =>"]
    ind = 4
    known = {"iterator", "size"}
    stmts = body[1].body
    for i, s in enumerate(stmts):
        p = " " * ind
        src = ast.unparse(s)
        if (isinstance(s, ast.Assign) and len(s.targets) == 1 and isinstance(s.targets[0], ast.Name) and isinstance(s.value, ast.Call)
                and ast.unparse(s.value.func) == "list" and len(s.value.args) == 1 and isinstance(s.value.args[0], ast.Call)
                and ast.unparse(s.value.args[0].func) == "islice" and len(s.value.args[0].args) == 2 and not s.value.args[0].keywords):
            it, n = s.value.args[0].args
            if not (isinstance(it, ast.Name) and it.id == "iterator" and isinstance(n, ast.Name) and n.id == "size"):
                _fail(s, "islice must consume `iterator` by `size` items")
            t = s.targets[0].id
            known.add(t)
            out.append(f"{p}let ({t}, iterator) := pyIslice iterator size")
        elif (isinstance(s, ast.If) and not s.orelse and len(s.body) == 1 and isinstance(s.body[0], ast.Break)
              and isinstance(s.test, ast.UnaryOp) and isinstance(s.test.op, ast.Not) and isinstance(s.test.operand, ast.Name)
              and s.test.operand.id in known):
            out.append(f"{p}if (pyNot {s.test.operand.id}) then GenStep.brk else")
        elif isinstance(s, ast.Expr) and isinstance(s.value, ast.Yield) and isinstance(s.value.value, ast.Name) and s.value.value.id in known:
            if i != len(stmts) - 1:
                _fail(s, "`yield` must be the last statement of the loop body")
            out.append(f"{p}GenStep.yield {s.value.value.id} iterator)")
        else:
            _fail(s, "unsupported statement in the generator loop")
    if not out[-1].lstrip().startswith("GenStep.yield"):
        raise Untranslatable("_chunked_iterator: the loop body does not end in `yield`")
    return out + [""]


ANNOT = {"int": "Int", "str": "String", "bool": "Bool", "float": "K"}


def translate_refusing(cls, name):
    """A method whose whole body is `raise E(...)` (`get_localgrid`, `moments`): the signature is carried
    (parameter names and order, the annotations `int` / `str` / `bool`, every default value as a Lean default
    argument), the body statement by statement through `Tr`.  A parameter without annotation, or annotated
    `np.ndarray`, gets a type variable of its own (the method never looks at it); the result type is a type
    variable too (nothing is returned).  Any other statement in the body -- the method does something now --
    is outside the carried subset."""
    f = _method(cls, name)
    a = f.args
    if a.vararg or a.kwarg or a.kwonlyargs or a.posonlyargs or not a.args or a.args[0].arg != "self":
        raise Untranslatable(f"MultiDomainGrid.{name}: unsupported signature")
    params = a.args[1:]
    defaults = [None] * (len(params) - len(a.defaults)) + list(a.defaults)
    binders, tyvars, sig = [], [], []
    for prm, d in zip(params, defaults):
        ann = ast.unparse(prm.annotation) if prm.annotation is not None else None
        if ann in ANNOT:
            ty = ANNOT[ann]
        elif ann in (None, "np.ndarray"):
            ty = f"τ_{prm.arg}"
            tyvars.append(ty)
        else:
            _fail(prm, "unsupported annotation")
        dv = ""
        if d is not None:
            if not isinstance(d, ast.Constant) or isinstance(d.value, float) or d.value is None:
                _fail(d, "unsupported default value")
            if ty.startswith("τ_"):
                _fail(d, "default value of a parameter without a carried type")
            if {"Int": int, "String": str, "Bool": bool}.get(ty) is not type(d.value):
                _fail(d, "default value does not match the annotation")
            dv = " := " + Tr({}).expr(d)
        binders.append(f"({prm.arg} : {ty}{dv})")
        sig.append(prm.arg + (": " + ann if ann else "") + (" = " + ast.unparse(d) if d is not None else ""))
    body = [s for s in f.body if not (isinstance(s, ast.Expr) and isinstance(s.value, ast.Constant) and isinstance(s.value.value, str))]
    if len(body) != 1 or not isinstance(body[0], ast.Raise):
        raise Untranslatable(f"MultiDomainGrid.{name}: the body is no longer a single `raise` (line {f.lineno}); "
                             "a method that does something is outside the carried subset")
    tr = Tr({"self": "self", **{prm.arg: prm.arg for prm in params}})
    tr.fields, tr.mutnames = [], set()
    lines = tr.block(body, 2)
    tv = " ".join(tyvars + ["ρ"])
    out = [f"/-- `MultiDomainGrid.{name}({', '.join(sig)})`: refuses. -/",
           f"def MultiDomainGrid.{name} {{{tv} : Type}} (self : MultiDomainGrid α K)"]
    line = "   "
    for b in binders:
        if len(line) + len(b) > 108:
            out.append(line)
            line = "   "
        line += " " + b
    out.append(line + " :")
    out.append("    Except Err ρ := do")
    return out + lines + [""]


def translate():
    tree = ast.parse((SRC / "ngrid.py").read_text())
    imports = sorted(ast.unparse(x) for x in tree.body if isinstance(x, (ast.Import, ast.ImportFrom)))
    if "from itertools import islice" not in imports or "import itertools" not in imports:
        raise Untranslatable("ngrid.py no longer imports itertools / islice as before")
    cls = _class(tree, "MultiDomainGrid")
    out = []

    # __init__
    f = _method(cls, "__init__")
    if _argnames(f) != ["self", "grid_list", "num_domains"] or [ast.unparse(d) for d in f.args.defaults] != ["None", "None"]:
        raise Untranslatable("MultiDomainGrid.__init__: unexpected signature")
    tr = Tr({"grid_list": "grid_list", "num_domains": "num_domains"}, optional={"num_domains"})
    tr.fields, tr.mutnames = [], set()
    EXTRA_ATTRS.clear()
    for n in ast.walk(f):
        if (isinstance(n, ast.Assign) and len(n.targets) == 1 and isinstance(n.targets[0], ast.Attribute) and ast.unparse(n.targets[0].value) == "self"
                and n.targets[0].attr not in ("grid_list", "_num_domains")):
            ty = _attr_type(n.value)
            if ty is None:
                _fail(n, "__init__ sets a further attribute whose value is not a per-grid list of weights / points / sizes")
            EXTRA_ATTRS[n.targets[0].attr] = ty
    body = tr.block(f.body, 2)
    if [n for n, _ in tr.fields][:2] != ["grid_list", "_num_domains"] or [n for n, _ in tr.fields][2:] != list(EXTRA_ATTRS):
        raise Untranslatable(f"MultiDomainGrid.__init__ sets the attributes {[n for n, _ in tr.fields]}, expected grid_list, _num_domains (and carried further ones)")
    out += ["/-- The attributes set by `MultiDomainGrid.__init__`. -/",
            "structure MultiDomainGrid (α K : Type) where",
            "  grid_list : List (Grid α K)",
            "  _num_domains : Option Nat"] + [f"  {n} : {ty}" for n, ty in EXTRA_ATTRS.items()] + ["",
            "/-- `MultiDomainGrid.__init__(grid_list, num_domains)`. -/",
            "def MultiDomainGrid.init (grid_list : List (Grid α K)) (num_domains : Option Nat) :",
            "    Except Err (MultiDomainGrid α K) := do"]
    out += body
    out += ["  return { " + ", ".join(f"{n} := {v}" for n, v in tr.fields) + " }", ""]

    # properties
    props = {}
    sigs = {"num_domains": ("Nat", ""), "size": ("Nat", ""), "weights": ("List K", "[Mul K] [NatCast K] "),
            "points": ("List (List α)", "")}
    for name in ("num_domains", "size", "weights", "points"):
        f = _method(cls, name, prop=True)
        if _argnames(f) != ["self"]:
            raise Untranslatable(f"property {name}: unexpected signature")
        tr = Tr({"self": "self"}, optional={"self._num_domains"}, props=props)
        tr.fields, tr.mutnames = [], set()
        body = tr.block(f.body, 2)
        raises = any("←" in l or "throw" in l for l in body)
        if name in PURE_PROPS and raises:
            raise Untranslatable(f"property {name} can raise now")
        ty, inst = sigs[name]
        out.append(f"/-- property `MultiDomainGrid.{name}`. -/")
        if raises:
            out.append(f"def MultiDomainGrid.{name} {inst}(self : MultiDomainGrid α K) : Except Err ({ty}) := do")
            out += body
        else:
            if not body or not body[-1].strip().startswith("return ") or not all(l.strip().startswith("let ") for l in body[:-1]):
                raise Untranslatable(f"property {name}: expected bindings followed by a return")
            out.append(f"def MultiDomainGrid.{name} {inst}(self : MultiDomainGrid α K) : {ty} :=")
            out += ["  " + l.strip() for l in body[:-1]]
            out.append("  " + body[-1].strip()[len("return "):])
        out.append("")
        props[name] = raises

    # integrate
    f = _method(cls, "integrate")
    if (_argnames(f) != ["self", "integrand_function", "non_vectorized", "integration_chunk_size"]
            or [ast.unparse(d) for d in f.args.defaults] != ["False", "6000"]):
        raise Untranslatable("MultiDomainGrid.integrate: unexpected signature or defaults")
    tr = Tr({"self": "self", "integrand_function": "integrand_function", "non_vectorized": "non_vectorized",
             "integration_chunk_size": "integration_chunk_size"}, optional={"self._num_domains"}, props=props)
    tr.fields = []
    tr.mutnames = {n.target.id for n in ast.walk(f) if isinstance(n, ast.AugAssign) and isinstance(n.target, ast.Name)}
    body = tr.block(f.body, 2)
    out += ["/-- `MultiDomainGrid.integrate(integrand_function, non_vectorized, integration_chunk_size)`;",
            "defaults of the code: `non_vectorized = False`, `integration_chunk_size = 6000`. -/",
            "def MultiDomainGrid.integrate [Add K] [Mul K] [NatCast K] (self : MultiDomainGrid α K)",
            "    (integrand_function : Integrand α K) (non_vectorized : Bool) (integration_chunk_size : Nat) :",
            "    Except Err K := do"]
    out += body + [""]
    for name in ("get_localgrid", "moments"):
        out += translate_refusing(cls, name)
    gen = translate_generator(tree)
    return "\n".join(gen + out)


def generate():
    text = HEADER.format(name="ngrid", source="src/grid/ngrid.py (MultiDomainGrid.__init__, num_domains, size, weights, points, integrate, get_localgrid, moments; _chunked_iterator)")
    text += ("import GridVerif.Model.NGrid\n\nset_option linter.unusedVariables false\n\nnamespace GridVerif.Gen.NGrid\n"
             "open GridVerif.NGrid\n\nvariable {α K : Type}\n\n")
    text += translate()
    text += "\nend GridVerif.Gen.NGrid\n"
    return write_if_changed("NGrid.lean", text)


if __name__ == "__main__":
    print(translate())

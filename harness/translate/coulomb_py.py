"""Statement-by-statement translation of the two *procedural* functions of grid/coulomb.py:

    coulomb_potential            -> Gen/CoulombPotential.lean   (a `do` block in `Except Err`)
    load_atomic_gaussian_params  -> Gen/CoulombLoader.lean      (a `do` block in `LoadM`:
                                                                  exceptions + the module-level cache)

Called from `coulomb.generate()`.  Python has no types; the typing context the translator assumes
is `POT_SIG` / `LOAD_SIG` below (array arguments are `NdArg K` = shape + data after
`np.asarray(., dtype=float)`, optional ones `Option (NdArg K)`, `element` a `PyObj`), and every
expression is given one of the types of `T_*`; the named primitives live in
`lean/GridVerif/Model/CoulombPy.lean`.  What is generated text (and therefore changes when the
source changes): the order and operands of every statement, every guard and the exception class it
raises, which closed form is called in which loop with which arguments (calls of module-level
functions are resolved against the callee's *signature*: positional, keyword, default), the order
of the `zip` variables, the accumulation, the `isinstance` class tuples, the string methods, the
dictionary keys and the order of the returned tuple.

    x = <expr>                                   let x := <expr>     /  let x ← <action>
    if <t>: raise E(...)                         if <t> then throw Err.e
    if/elif/else assigning v1..vn                let (v1, .., vn) ← (if .. then do ..; pure (..) else ..)
    for a, b, c in zip(A, B, C): body            let S ← (pyZip3 (← A.iter) ..).foldlM (fun S (a, b, c) => do ..; pure S) S
    V += e                                       let V ← npIAdd V e
    try: body  except C [as e]: handler          pyTry (do body) ExcClass.c (do handler)
    with p.open("r", encoding="utf-8") as f: ..  let f ← pyOpen env p ; ..
    global G ; G = e ; .. G ..                   setCache (some e) ; (← getCache)
    `a or b`, `a and b`                          `||`, `&&`, or `pyOr a (do pure b)` when `b` can raise
    return e                                     pure e

Anything else raises `Unsupported` (treated by the check like a proof obligation that broke).
Exception messages (f-strings) and `from e` causes carry no semantics and are dropped.
"""
from __future__ import annotations

import ast

LEAN_KEYWORDS = {"at", "from", "fun", "let", "do", "if", "then", "else", "match", "with", "in", "end", "open", "by", "have",
                 "show", "for", "return", "where", "def", "theorem", "instance", "structure", "class", "namespace", "section",
                 "variable", "import", "mut", "unless", "try", "catch", "finally", "throw", "pure", "env", "Type", "Prop", "Sort"}


class Unsupported(ValueError):
    pass


def _fail(node, why):
    raise Unsupported(f"coulomb.py line {getattr(node, 'lineno', '?')}: {why}: {ast.unparse(node)[:160]}")


def _unparse1(node):
    s = ast.unparse(node).splitlines()[0]
    if not s.isascii():
        s = s.encode("ascii", "replace").decode()
    return s.replace("-/", "- /")[:150]


def _strip_arrow(t: str):
    """'(← X)' -> 'X' if the whole term is one lifted action, else None."""
    t = t.strip()
    if not t.startswith("(← ") or not t.endswith(")"):
        return None
    depth = 0
    for k, ch in enumerate(t):
        depth += ch == "("
        depth -= ch == ")"
        if depth == 0 and k < len(t) - 1:
            return None
    return t[3:-1]


LEAN_TYPE = {
    "Nd": "NdArg K", "OptNd": "Option (NdArg K)", "Bool": "Bool", "Nat": "Nat", "ListOptNd": "List (Option (NdArg K))",
    "Obj": "PyObj", "Str": "String", "OptStr": "Option String", "Int": "Int", "Cache": "Cache", "Entry": "JsonEntry",
    "DecList": "List Dec", "Json": "JsonTable", "ResPath": "ResPath", "DecPair": "List Dec × List Dec",
}
# join of two types at a control-flow merge, and the coercion into the join
JOIN = {("Nd", "OptNd"): "OptNd", ("OptNd", "Nd"): "OptNd", ("Str", "OptStr"): "OptStr", ("OptStr", "Str"): "OptStr"}
ERRS = {"ValueError": "Err.valueError", "TypeError": "Err.typeError", "IndexError": "Err.indexError", "KeyError": "Err.keyError"}
EXC_CLASS = {"Exception": "ExcClass.exception", "KeyError": "ExcClass.keyError", "ValueError": "ExcClass.valueError",
             "TypeError": "ExcClass.typeError"}
PYTYPES = {"str": "PyType.str", "int": "PyType.int", "np.integer": "PyType.npInteger", "float": "PyType.float",
           "bool": "PyType.bool"}

POT_SIG = [("points", "Nd", None), ("centers_s", "Nd", None), ("coeffs_s", "Nd", None), ("alphas_s", "Nd", None),
           ("centers_p", "OptNd", "None"), ("coeffs_p", "OptNd", "None"), ("alphas_p", "OptNd", "None"),
           ("normalized", "Bool", "True")]
LOAD_SIG = [("element", "Obj", None)]
# module-level closed forms that may be called on arrays: python name -> (lean function, lean guard)
CLOSED_FORMS = {"coulomb_gaussian_s": ("coulombGaussianS", "coulombGaussianSRejects"),
                "coulomb_gaussian_p": ("coulombGaussianP", "coulombGaussianPRejects")}


def coerce(term, t, want, node):
    if t == want:
        return term
    if (t, want) in (("Nd", "OptNd"), ("Str", "OptStr")):
        return f"(some {term})"
    _fail(node, f"type {t} where {want} is expected")


class Fn:
    """Translation of one function body."""

    def __init__(self, fn: ast.FunctionDef, sig, ret, monad, module):
        self.fn, self.sig, self.ret, self.monad, self.module = fn, sig, ret, monad, module
        self.globals_declared: set[str] = set()
        self.bound_log: list[str] = []  # every (re)binding of a local name, in translation order

    # ------------------------------------------------------------------ expressions
    def ex(self, e, sc) -> tuple[str, str]:
        """-> (lean term, type).  A term containing `(← …)` has an effect."""
        if isinstance(e, ast.Name):
            if e.id in self.globals_declared:
                return "(← getCache)", "Cache"
            if e.id in sc:
                return sc[e.id]
            if e.id in self.module["imports"] and e.id in ("sym2num", "num2sym") and self.monad == "LoadM":
                return f"env.{e.id}", {"sym2num": "DictSymNum", "num2sym": "DictNumSym"}[e.id]
            if e.id in self.module["cache_cells"] and self.monad == "LoadM":
                if self.assigns_name(e.id):
                    _fail(e, "module-level cell assigned in the function without a `global` declaration")
                return "(← getCache)", "Cache"
            _fail(e, "unknown name")
        if isinstance(e, ast.Constant):
            v = e.value
            if isinstance(v, bool):
                return ("true" if v else "false"), "Bool"
            if isinstance(v, int) and v >= 0:
                return str(v), "Nat"
            if isinstance(v, str):
                return _lean_str(v), "Str"
            _fail(e, "unsupported constant")
        if isinstance(e, ast.Tuple):
            vals = [self.ex(x, sc) for x in e.elts]
            if vals and all(t in ("OptNd", "Nd") for _, t in vals):
                return "[" + ", ".join(coerce(v, t, "OptNd", e) for v, t in vals) + "]", "ListOptNd"
            if [t for _, t in vals] == ["DecList", "DecList"]:
                return "(" + ", ".join(v for v, _ in vals) + ")", "DecPair"
            _fail(e, "unsupported tuple")
        if isinstance(e, ast.Attribute):
            base, t = self.ex(e.value, sc)
            if t == "OptNd":
                base, t = f"(← pyArr {base})", "Nd"
            if t == "Nd" and e.attr == "ndim":
                return f"{base}.ndim", "Nat"
            _fail(e, "unsupported attribute")
        if isinstance(e, ast.Subscript):
            return self.subscript(e, sc)
        if isinstance(e, ast.UnaryOp) and isinstance(e.op, ast.Not):
            t, ty = self.ex(e.operand, sc)
            if ty != "Bool":
                _fail(e, "`not` of a non-boolean")
            return f"!({t})", "Bool"
        if isinstance(e, ast.BoolOp):
            return self.boolop(e, sc)
        if isinstance(e, ast.Compare):
            return self.compare(e, sc)
        if isinstance(e, ast.BinOp):
            l, tl = self.ex(e.left, sc)
            r, tr = self.ex(e.right, sc)
            if tl == "OptNd":
                l, tl = f"(← pyArr {l})", "Nd"
            if tr == "OptNd":
                r, tr = f"(← pyArr {r})", "Nd"
            if (tl, tr) == ("Nd", "Nd"):
                if isinstance(e.op, ast.Sub):
                    return f"(← npSub {l} {r})", "Nd"
                if isinstance(e.op, ast.Mult):
                    return f"(← npMul {l} {r})", "Nd"
            _fail(e, f"unsupported operator on {tl} and {tr}")
        if isinstance(e, ast.Call):
            return self.call(e, sc)
        _fail(e, "unsupported expression")

    def subscript(self, e, sc):
        # X.shape[i]
        if isinstance(e.value, ast.Attribute) and e.value.attr == "shape":
            base, t = self.ex(e.value.value, sc)
            if t == "OptNd":
                base, t = f"(← pyArr {base})", "Nd"
            if t == "Nd" and isinstance(e.slice, ast.Constant) and isinstance(e.slice.value, int) \
                    and not isinstance(e.slice.value, bool) and e.slice.value >= 0:
                return f"(← {base}.shapeAt {e.slice.value})", "Nat"
            _fail(e, "unsupported shape subscript")
        base, t = self.ex(e.value, sc)
        key, tk = self.ex(e.slice, sc)
        if t == "Cache":
            return f"(← pyCacheGetItem {base} {coerce(key, tk, 'OptStr', e)})", "Entry"
        if t == "Entry":
            return f"(← pyGetItem {base} {coerce(key, tk, 'OptStr', e)})", "DecList"
        _fail(e, f"unsupported subscript of {t}")

    def boolop(self, e, sc):
        vals = [self.ex(v, sc) for v in e.values]
        if any(t != "Bool" for _, t in vals):
            _fail(e, "non-boolean operand")
        is_or = isinstance(e.op, ast.Or)
        acc = vals[-1][0]
        acc_eff = "←" in acc
        for v, _ in reversed(vals[:-1]):
            if acc_eff:
                # the later operand can raise: it must only be evaluated when Python evaluates it
                acc = f"(← {'pyOr' if is_or else 'pyAnd'} {_atom(v)} (do pure {_atom(acc)}))"
            else:
                acc = f"{_atom(v)} {'||' if is_or else '&&'} {_atom(acc)}"
                acc_eff = "←" in v
            acc_eff = acc_eff or "←" in v
        return acc, "Bool"

    def compare(self, e, sc):
        if len(e.ops) != 1:
            _fail(e, "chained comparison")
        op, a, b = e.ops[0], e.left, e.comparators[0]
        if isinstance(op, (ast.Is, ast.IsNot)):
            if not (isinstance(b, ast.Constant) and b.value is None):
                _fail(e, "identity test against something else than None")
            x, t = self.ex(a, sc)
            if t in ("OptNd", "OptStr", "Cache"):
                return (f"{_atom(x)}.isNone" if isinstance(op, ast.Is) else f"{_atom(x)}.isSome"), "Bool"
            _fail(e, f"`is None` on a value of type {t} (never None in the typing context)")
        if isinstance(op, (ast.In, ast.NotIn)):
            k, tk = self.ex(a, sc)
            d, td = self.ex(b, sc)
            if td == "DictSymNum" and tk in ("Str", "OptStr"):
                t = f"pyIn {_atom(coerce(k, tk, 'OptStr', e))} {d}"
                return (f"!({t})" if isinstance(op, ast.NotIn) else t), "Bool"
            _fail(e, f"membership test of {tk} in {td}")
        if isinstance(op, (ast.Eq, ast.NotEq)):
            x, tx = self.ex(a, sc)
            y, ty = self.ex(b, sc)
            if (tx, ty) == ("Nat", "Nat"):
                return f"decide ({x} {'=' if isinstance(op, ast.Eq) else '≠'} {y})", "Bool"
            _fail(e, f"comparison of {tx} and {ty}")
        _fail(e, "unsupported comparison")

    def kwargs(self, e):
        kw = {}
        for k in e.keywords:
            if k.arg is None:
                _fail(e, "** arguments")
            kw[k.arg] = k.value
        if any(isinstance(a, ast.Starred) for a in e.args):
            _fail(e, "* arguments")
        return kw

    def call(self, e, sc):
        f = ast.unparse(e.func)
        kw = self.kwargs(e)
        # ---- module-level closed forms, resolved against the callee's signature -----------------
        if f in CLOSED_FORMS:
            callee = self.module["functions"].get(f)
            if callee is None:
                _fail(e, "callee not found in the module")
            names = [a.arg for a in callee.args.args]
            if names != ["r", "alpha", "normalized"] or callee.args.vararg or callee.args.kwarg or callee.args.kwonlyargs \
                    or callee.args.posonlyargs:
                _fail(e, f"callee signature {names}")
            defaults = dict(zip(names[len(names) - len(callee.args.defaults):], callee.args.defaults))
            if len(e.args) > len(names):
                _fail(e, "too many positional arguments")
            bound = dict(zip(names, e.args))
            for k, v in kw.items():
                if k not in names or k in bound:
                    _fail(e, f"unexpected / duplicate argument {k}")
                bound[k] = v
            args = []
            for n, want in zip(names, ("Nd", "Nd", "Bool")):
                v = bound.get(n, defaults.get(n))
                if v is None:
                    _fail(e, f"argument {n} missing and without default")
                t, ty = self.ex(v, sc) if n in bound else self.ex(v, {})  # a default is evaluated in the callee's module scope
                args.append(_atom(coerce(t, ty, want, v)))
            lean, rej = CLOSED_FORMS[f]
            return f"(← callArr {lean} {rej} {' '.join(args)})", "Nd"
        # ---- builtins ------------------------------------------------------------------------
        if f == "isinstance" and len(e.args) == 2 and not kw:
            x, t = self.ex(e.args[0], sc)
            c = e.args[1]
            names = [ast.unparse(v) for v in c.elts] if isinstance(c, ast.Tuple) else [ast.unparse(c)]
            if t != "Obj" or any(n not in PYTYPES for n in names):
                _fail(e, "unsupported isinstance test")
            return f"pyIsInstance {x} [" + ", ".join(PYTYPES[n] for n in names) + "]", "Bool"
        if f in ("any", "all") and len(e.args) == 1 and not kw and isinstance(e.args[0], ast.GeneratorExp):
            g = e.args[0]
            if len(g.generators) != 1 or g.generators[0].ifs or g.generators[0].is_async or not isinstance(g.generators[0].target, ast.Name):
                _fail(e, "unsupported generator expression")
            xs, t = self.ex(g.generators[0].iter, sc)
            if t != "ListOptNd":
                _fail(e, f"{f}() over {t}")
            var = _ident(g.generators[0].target.id, e)
            inner = dict(sc)
            inner[var] = (var, "OptNd")
            body, tb = self.ex(g.elt, inner)
            if tb != "Bool" or "←" in body:
                _fail(e, "generator element is not a pure boolean")
            return f"({xs}.{f} fun {var} => {body})", "Bool"
        if f == "int" and len(e.args) == 1 and not kw:
            x, t = self.ex(e.args[0], sc)
            if t != "Obj":
                _fail(e, f"int() of {t}")
            return f"(← pyIntOf {x})", "Int"
        # ---- NumPy ---------------------------------------------------------------------------
        if f == "np.asarray" and len(e.args) == 1 and {k: ast.unparse(v) for k, v in kw.items()} == {"dtype": "float"}:
            x, t = self.ex(e.args[0], sc)
            if t == "Nd":
                return f"npAsarrayFloat {_atom(x)}", "Nd"
            if t == "OptNd":
                return f"(← npAsarrayFloatObj {_atom(x)})", "Nd"
            if t == "DecList":
                return f"npAsarrayFloatList {_atom(x)}", "DecList"
            _fail(e, f"np.asarray of {t}")
        if f == "np.zeros" and len(e.args) == 1 and set(kw) == {"dtype"}:
            d = kw["dtype"]
            ok = ast.unparse(d) == "float"
            if isinstance(d, ast.Attribute) and d.attr == "dtype" and isinstance(d.value, ast.Name) and sc.get(d.value.id, ("", ""))[1] == "Nd":
                ok = True  # dtype of an array that went through asarray(dtype=float)
            n, t = self.ex(e.args[0], sc)
            if not ok or t != "Nat":
                _fail(e, "np.zeros form")
            return f"npZeros1 {_atom(n)}", "Nd"
        if f == "np.linalg.norm" and len(e.args) == 1 and {k: ast.unparse(v) for k, v in kw.items()} == {"axis": "-1"}:
            x, t = self.ex(e.args[0], sc)
            if t != "Nd":
                _fail(e, f"norm of {t}")
            return f"(← npNormLastAxis {_atom(x)})", "Nd"
        if f == "np.isclose" and len(e.args) == 2 and not kw and isinstance(e.args[1], ast.Constant) \
                and isinstance(e.args[1].value, (int, float)) and not isinstance(e.args[1].value, bool) and e.args[1].value == 0:
            # round 6: `np.isclose(c, 0.0)` with NumPy's default tolerances (|c| <= atol = 1e-8)
            x, t = self.ex(e.args[0], sc)
            if t != "Nd":
                _fail(e, f"np.isclose of {t}")
            return f"(← npIscloseZero {_atom(x)})", "Bool"
        # ---- methods -------------------------------------------------------------------------
        if isinstance(e.func, ast.Attribute):
            m = e.func.attr
            if m in ("strip", "title") and not e.args and not kw:
                x, t = self.ex(e.func.value, sc)
                if t == "Obj":
                    x, t = f"(← pyStr {x})", "Str"
                if t != "Str":
                    _fail(e, f".{m}() of {t}")
                return f"{'pyStrip' if m == 'strip' else 'pyTitle'} {_atom(x)}", "Str"
            if m == "get" and len(e.args) == 1 and not kw:
                d, td = self.ex(e.func.value, sc)
                k, tk = self.ex(e.args[0], sc)
                if td == "DictNumSym" and tk == "Int":
                    return f"pyDictGetInt {d} {_atom(k)}", "OptStr"
                _fail(e, f".get on {td} with {tk}")
            if m == "joinpath" and len(e.args) == 1 and not kw:
                p, tp = self.ex(e.func.value, sc)
                k, tk = self.ex(e.args[0], sc)
                if tp == "ResPath" and tk == "Str":
                    return f"({p}.joinpath {k})", "ResPath"
                _fail(e, "joinpath form")
        if f == "files" and len(e.args) == 1 and not kw and "files" in self.module["imports"] \
                and self.module["imports"]["files"] == "importlib.resources":
            k, tk = self.ex(e.args[0], sc)
            if tk == "Str":
                return f"(pyFiles {k})", "ResPath"
        if f == "json.load" and len(e.args) == 1 and not kw and "json" in self.module["imports"]:
            x, t = self.ex(e.args[0], sc)
            if t == "Json":
                return f"(← jsonLoad {_atom(x)})", "Json"
        _fail(e, "unsupported call")

    # ------------------------------------------------------------------ statements
    def assigns_name(self, name):
        for n in ast.walk(self.fn):
            if isinstance(n, (ast.Assign, ast.AugAssign, ast.AnnAssign)):
                tg = n.targets if isinstance(n, ast.Assign) else [n.target]
                if any(isinstance(t, ast.Name) and t.id == name for t in tg):
                    return True
        return False

    def bind(self, name, term, ty, pad, sc):
        """`name = <term>` as a let; -> lines"""
        inner = _strip_arrow(term)
        sc[name] = (name, ty)
        self.bound_log.append(name)
        if inner is not None:
            return [f"{pad}let {name} ← {inner}"]
        return [f"{pad}let {name} := {term}"]

    def block(self, stmts, ind, sc, in_loop=False):
        """-> (lines, falls_through).  `sc` is updated in place."""
        out = []
        for k, s in enumerate(stmts):
            lines, falls = self.stmt(s, ind, sc, in_loop)
            out += lines
            if not falls:
                if k != len(stmts) - 1:
                    _fail(stmts[k + 1], "statement after raise/return")
                return out, False
        return out, True

    def stmt(self, s, ind, sc, in_loop):
        pad = "  " * ind
        com = f"{pad}-- {_unparse1(s)}"
        if isinstance(s, ast.Expr) and isinstance(s.value, ast.Constant) and isinstance(s.value.value, str):
            return [], True
        if isinstance(s, ast.Global):
            for n in s.names:
                if n not in self.module["cache_cells"] or self.monad != "LoadM":
                    _fail(s, "global other than the module-level parameter cache")
                self.globals_declared.add(n)
            return [com], True
        if isinstance(s, ast.Raise):
            exc = s.exc
            if not (isinstance(exc, ast.Call) and isinstance(exc.func, ast.Name) and exc.func.id in ERRS):
                _fail(s, "unsupported raise")
            return [com, f"{pad}throw {ERRS[exc.func.id]}"], False
        if isinstance(s, ast.Return):
            if in_loop or s.value is None:
                _fail(s, "return inside a loop / without a value")
            t, ty = self.ex(s.value, sc)
            if ty != self.ret:
                _fail(s, f"returns {ty}, expected {self.ret}")
            self.returned = True
            return [com, f"{pad}pure {_atom(t)}"], False
        if isinstance(s, ast.Assign):
            if len(s.targets) != 1 or not isinstance(s.targets[0], ast.Name):
                _fail(s, "unsupported assignment target")
            name = s.targets[0].id
            if name in self.globals_declared:
                t, ty = self.ex(s.value, sc)
                if ty != "Json":
                    _fail(s, f"the cache is assigned a value of type {ty}")
                return [com, f"{pad}setCache (some {_atom(t)})"], True
            if name in self.module["cache_cells"] or name in self.module["imports"]:
                _fail(s, "assignment to a module-level name without `global`")
            name = _ident(name, s)
            t, ty = self.ex(s.value, sc)
            return [com] + self.bind(name, t, ty, pad, sc), True
        if isinstance(s, ast.AugAssign):
            if not (isinstance(s.target, ast.Name) and isinstance(s.op, ast.Add) and s.target.id in sc):
                _fail(s, "unsupported augmented assignment")
            name = s.target.id
            v, tv = sc[name]
            t, ty = self.ex(s.value, sc)
            if (tv, ty) != ("Nd", "Nd"):
                _fail(s, f"+= on {tv} and {ty}")
            return [com] + self.bind(name, f"(← npIAdd {v} {_atom(t)})", "Nd", pad, sc), True
        if isinstance(s, ast.If):
            return self.if_stmt(s, ind, sc, in_loop)
        if isinstance(s, ast.For):
            return self.for_stmt(s, ind, sc)
        if isinstance(s, ast.Try):
            return self.try_stmt(s, ind, sc, in_loop)
        if isinstance(s, ast.With):
            return self.with_stmt(s, ind, sc, in_loop)
        _fail(s, "unsupported statement")

    # -- control flow with exported variables ------------------------------------------------
    def used_after(self, name, line):
        """is the local `name` read anywhere in the function after source line `line`?"""
        return any(isinstance(n, ast.Name) and n.id == name and isinstance(n.ctx, ast.Load) and n.lineno > line
                   for n in ast.walk(self.fn))

    def branches(self, bodies, ind, sc, in_loop, implicit_else, end_line):
        """Translate alternative blocks; -> (list of (lines, falls, scope)), exported [(name, type)].
        Exported = bound in a continuing block, bound on every continuing path, and read later."""
        res = []
        names = []
        for b in bodies:
            bsc = dict(sc)
            mark = len(self.bound_log)
            lines, falls = self.block(b, ind, bsc, in_loop)
            res.append((lines, falls, bsc))
            if falls:
                for n in self.bound_log[mark:]:
                    if n in bsc and n not in names:
                        names.append(n)
            del self.bound_log[mark:]
        live = [r for r in res if r[1]]
        scopes = [r[2] for r in live] + ([sc] if implicit_else else [])
        exported = []
        for n in names:
            if not all(n in s for s in scopes):
                continue  # not bound on every path that continues: local to its branch
            if not self.used_after(n, end_line):
                continue
            ty = None
            for s_ in scopes:
                t = s_[n][1]
                ty = t if ty is None or ty == t else JOIN.get((ty, t))
                if ty is None:
                    raise Unsupported(f"variable {n} has incompatible types at a merge")
            exported.append((n, ty))
        return res, exported

    def export_term(self, exported, bsc, node):
        vals = [coerce(bsc[n][0], bsc[n][1], ty, node) for n, ty in exported]
        return vals[0] if len(vals) == 1 else "(" + ", ".join(vals) + ")"

    def export_pat(self, exported):
        return exported[0][0] if len(exported) == 1 else "(" + ", ".join(n for n, _ in exported) + ")"

    def if_stmt(self, s, ind, sc, in_loop):
        pad = "  " * ind
        # flatten the elif chain
        tests, bodies, cur = [], [], s
        while True:
            tests.append(cur.test)
            bodies.append(cur.body)
            if len(cur.orelse) == 1 and isinstance(cur.orelse[0], ast.If):
                cur = cur.orelse[0]
                continue
            else_body = cur.orelse
            break
        conds = []
        for t in tests:
            c, ty = self.ex(t, sc)
            if ty != "Bool":
                _fail(t, "non-boolean test")
            if conds and "←" in c:
                _fail(t, "elif test with an effect")
            conds.append(c)
        allb = bodies + ([else_body] if else_body else [])
        res, exported = self.branches(allb, ind + 2, sc, in_loop, not else_body, s.end_lineno)
        # simple guard: nothing exported
        if not exported:
            res, _ = self.branches(allb, ind + 1, sc, in_loop, not else_body, s.end_lineno)
            out = []
            for k, (c, (lines, falls, _)) in enumerate(zip(conds, res)):
                kw = "if" if k == 0 else "else if"
                out.append(f"{pad}-- {'if' if k == 0 else 'elif'} {_unparse1(tests[k])}:")
                out.append(f"{pad}{kw} {c} then" + (" do" if k > 0 or len(conds) > 1 or else_body else ""))
                body = lines if any(not ln.strip().startswith("--") for ln in lines) else lines + [f"{pad}  pure ()"]
                out += body
            if else_body:
                lines, falls, _ = res[-1]
                out.append(f"{pad}-- else:")
                out.append(f"{pad}else do")
                out += lines if any(not ln.strip().startswith("--") for ln in lines) else lines + [f"{pad}  pure ()"]
            falls_any = any(r[1] for r in res) or not else_body
            return out, falls_any
        out = [f"{pad}-- {'if'} {_unparse1(tests[0])}:"]
        pat = self.export_pat(exported)
        for k, c in enumerate(conds):
            lines, falls, bsc = res[k]
            head = f"{pad}let {pat} ← (if {c} then do" if k == 0 else f"{pad}  else if {c} then do"
            if k > 0:
                out.append(f"{pad}    -- elif {_unparse1(tests[k])}:")
            out.append(head)
            out += lines
            if falls:
                out.append(f"{pad}    pure {_atom(self.export_term(exported, bsc, s))}")
        if else_body:
            lines, falls, bsc = res[-1]
            out.append(f"{pad}    -- else:")
            out.append(f"{pad}  else do")
            out += lines
            if falls:
                out.append(f"{pad}    pure {_atom(self.export_term(exported, bsc, s))}")
            out[-1] += ")"
        else:
            out.append(f"{pad}  else pure {_atom(self.export_term(exported, sc, s))})")
        for n, ty in exported:
            sc[n] = (n, ty)
            self.bound_log.append(n)
        # names bound in a branch only are not visible afterwards
        return out, True

    def for_stmt(self, s, ind, sc):
        pad = "  " * ind
        if s.orelse:
            _fail(s, "for-else")
        it = s.iter
        if not (isinstance(it, ast.Call) and ast.unparse(it.func) == "zip" and len(it.args) == 3 and not it.keywords):
            _fail(s, "loop over something else than zip(a, b, c)")
        if not (isinstance(s.target, ast.Tuple) and len(s.target.elts) == 3 and all(isinstance(x, ast.Name) for x in s.target.elts)):
            _fail(s, "loop target is not a triple of names")
        iters = []
        for a in it.args:
            x, t = self.ex(a, sc)
            if t == "OptNd":
                x, t = f"(← pyArr {x})", "Nd"
            if t != "Nd":
                _fail(a, f"iteration over {t}")
            iters.append(f"(← {x}.iter)")
        tvars = [_ident(x.id, s) for x in s.target.elts]
        if len(set(tvars)) != 3:
            _fail(s, "repeated loop variable")
        bsc = dict(sc)
        for v in tvars:
            bsc[v] = (v, "Nd")
        mark = len(self.bound_log)
        # round 6: leading `if <test>: continue` statements of the body are carried as guards of the fold step
        body, guards = list(s.body), []
        while body and isinstance(body[0], ast.If) and not body[0].orelse and len(body[0].body) == 1 and isinstance(body[0].body[0], ast.Continue):
            g, tg = self.ex(body[0].test, bsc)
            if tg != "Bool":
                _fail(body[0], f"loop guard of type {tg}")
            guards.append((body[0], g))
            body = body[1:]
        if not body:
            _fail(s, "loop body consists of `continue` guards only")
        lines, falls = self.block(body, ind + 2 + len(guards), bsc, in_loop=True)
        carried = []
        for n in self.bound_log[mark:]:
            if n in sc and n not in tvars and n not in [c_[0] for c_ in carried]:
                carried.append((n, bsc[n][1]))
        del self.bound_log[mark:]
        for n, ty in carried:
            if sc[n][1] != ty:
                _fail(s, f"loop changes the type of {n}")
        if any(v in sc for v in tvars):
            _fail(s, "loop variable shadows an existing name")
        if not carried:
            _fail(s, "loop without an accumulated variable")
        if not falls:
            _fail(s, "loop body always raises")
        pat = self.export_pat(carried)
        init = self.export_term(carried, sc, s)
        out = [f"{pad}-- {_unparse1(s)}".rstrip(":") + ":",
               f"{pad}let {pat} ← (pyZip3 {' '.join(iters)}).foldlM (fun {pat} ({', '.join(tvars)}) => do"]
        for k, (node, g) in enumerate(guards):
            gp = pad + "    " + "  " * k
            out.append(f"{gp}-- {_unparse1(node)} continue")
            out.append(f"{gp}if {g} then pure {_atom(self.export_term(carried, sc, s))} else do")
        out += lines
        out.append(f"{pad}    {'  ' * len(guards)}pure {_atom(self.export_term(carried, bsc, s))}) {_atom(init)}")
        for n, ty in carried:
            sc[n] = (n, ty)
            self.bound_log.append(n)
        return out, True

    def try_stmt(self, s, ind, sc, in_loop):
        pad = "  " * ind
        if self.monad != "LoadM":
            _fail(s, "try outside the loader")
        if s.orelse or s.finalbody or len(s.handlers) != 1:
            _fail(s, "try with else/finally/several handlers")
        h = s.handlers[0]
        if not (isinstance(h.type, ast.Name) and h.type.id in EXC_CLASS):
            _fail(s, "unsupported exception class in except")
        res, exported = self.branches([s.body, h.body], ind + 2, sc, in_loop, False, s.end_lineno)
        (bl, bf, bsc), (hl, hf, hsc) = res
        if h.name:
            # the caught exception may only be used inside a `raise` (message / cause: both dropped)
            inside = {id(n) for st in h.body for r in ast.walk(st) if isinstance(r, ast.Raise) for n in ast.walk(r)}
            if any(isinstance(n, ast.Name) and n.id == h.name and id(n) not in inside for st in h.body for n in ast.walk(st)):
                _fail(s, "the caught exception is used")
        pat = self.export_pat(exported) if exported else None
        head = f"{pad}let {pat} ← pyTry (do" if exported else f"{pad}pyTry (do"
        out = [f"{pad}-- try:", head]
        out += bl
        if bf:
            out.append(f"{pad}    pure {_atom(self.export_term(exported, bsc, s)) if exported else '()'}")
        out[-1] += f") {EXC_CLASS[h.type.id]} (do"
        out.append(f"{pad}    -- except {h.type.id}" + (f" as {h.name}" if h.name else "") + ":")
        out += hl
        if hf:
            out.append(f"{pad}    pure {_atom(self.export_term(exported, hsc, s)) if exported else '()'}")
        out[-1] += ")"
        for n, ty in exported:
            sc[n] = (n, ty)
            self.bound_log.append(n)
        return out, bf or hf

    def with_stmt(self, s, ind, sc, in_loop):
        pad = "  " * ind
        if self.monad != "LoadM" or len(s.items) != 1:
            _fail(s, "unsupported with")
        item = s.items[0]
        c = item.context_expr
        if not (isinstance(c, ast.Call) and isinstance(c.func, ast.Attribute) and c.func.attr == "open"
                and [ast.unparse(a) for a in c.args] == ["'r'"]
                and {k.arg: ast.unparse(k.value) for k in c.keywords} == {"encoding": "'utf-8'"}
                and isinstance(item.optional_vars, ast.Name)):
            _fail(s, "with-statement other than `with <resource>.open('r', encoding='utf-8') as f`")
        p, tp = self.ex(c.func.value, sc)
        if tp != "ResPath":
            _fail(s, f"open() of {tp}")
        f = _ident(item.optional_vars.id, s)
        before = set(sc)
        sc[f] = (f, "Json")
        out = [f"{pad}-- {_unparse1(s)}", f"{pad}let {f} ← pyOpen env {_atom(p)}"]
        lines, falls = self.block(s.body, ind, sc, in_loop)
        out += lines
        return out, falls

    # ------------------------------------------------------------------ whole function
    def translate(self, lean_name, extra_params, doc):
        a = self.fn.args
        if a.vararg or a.kwarg or a.posonlyargs or a.kwonlyargs or self.fn.decorator_list:
            raise Unsupported(f"{self.fn.name}: star/keyword-only parameters or decorators")
        got = [x.arg for x in a.args]
        if got != [n for n, _, _ in self.sig]:
            raise Unsupported(f"{self.fn.name}: parameters {got}, expected {[n for n, _, _ in self.sig]}")
        defaults = dict(zip(got[len(got) - len(a.defaults):], (ast.unparse(d) for d in a.defaults)))
        for n, _, d in self.sig:
            if defaults.get(n) != d:
                raise Unsupported(f"{self.fn.name}: default of {n} is {defaults.get(n)}, expected {d}")
        sc = {n: (n, t) for n, t, _ in self.sig}
        self.returned = False
        lines, falls = self.block(self.fn.body, 1, sc)
        if falls or not self.returned:
            raise Unsupported(f"{self.fn.name}: can fall off the end (returns None)")
        ps = " ".join(extra_params + [f"({n} : {LEAN_TYPE[t]})" for n, t, _ in self.sig])
        m = "Except Err" if self.monad == "Except" else "LoadM"
        head = f"def {lean_name} {ps} : {m} ({LEAN_TYPE[self.ret]}) := do"
        return [f"/-- {doc} (coulomb.py line {self.fn.lineno}) -/", head] + lines


def _atom(t):
    t = t.strip()
    if all(c.isalnum() or c in "._'" for c in t) or (t[0] in "([" and _balanced(t)) or (t.startswith('"') and t.endswith('"') and t.count('"') == 2):
        return t
    return f"({t})"


def _balanced(t):
    depth = 0
    for k, c in enumerate(t):
        depth += c in "(["
        depth -= c in ")]"
        if depth == 0 and k < len(t) - 1:
            return False
    return depth == 0


def _ident(name, node):
    if name in LEAN_KEYWORDS or not name.isidentifier() or not name.isascii() or name.startswith("_"):
        _fail(node, f"identifier {name!r} cannot be used in the generated text")
    return name


def _lean_str(v: str) -> str:
    if not v.isascii() or any(ord(c) < 32 or c in '"\\' for c in v):
        raise Unsupported(f"string constant {v!r}")
    return '"' + v + '"'


def module_info(tree: ast.Module):
    imports, cells, fns = {}, set(), {}
    for st in tree.body:
        if isinstance(st, ast.ImportFrom):
            for al in st.names:
                imports[al.asname or al.name] = st.module
        elif isinstance(st, ast.Import):
            for al in st.names:
                imports[al.asname or al.name] = al.name
        elif isinstance(st, ast.FunctionDef):
            if st.name in fns:
                raise Unsupported(f"{st.name} defined twice")
            fns[st.name] = st
        elif isinstance(st, ast.AnnAssign) and isinstance(st.target, ast.Name) and isinstance(st.value, ast.Constant) \
                and st.value.value is None:
            cells.add(st.target.id)
        elif isinstance(st, ast.Assign) and len(st.targets) == 1 and isinstance(st.targets[0], ast.Name) \
                and isinstance(st.value, ast.Constant) and st.value.value is None:
            cells.add(st.targets[0].id)
    # the cache cell must not be touched by module-level code other than its initialisation
    return {"imports": imports, "cache_cells": cells, "functions": fns}


def check_module_level(tree: ast.Module, allowed_fns):
    """Module-level statements other than imports, docstring, `__all__`, constants, the cache
    cell and the known function definitions (e.g. a decorator, a wrapper re-binding a public
    name, a module-level memo) change what the public names mean: refuse."""
    for st in tree.body:
        if isinstance(st, (ast.Import, ast.ImportFrom)):
            continue
        if isinstance(st, ast.Expr) and isinstance(st.value, ast.Constant) and isinstance(st.value.value, str):
            continue
        if isinstance(st, ast.FunctionDef):
            if st.name not in allowed_fns:
                raise Unsupported(f"coulomb.py line {st.lineno}: unknown module-level function {st.name}")
            if st.decorator_list:
                raise Unsupported(f"coulomb.py line {st.lineno}: decorated function {st.name}")
            continue
        if isinstance(st, ast.Assign) and len(st.targets) == 1 and isinstance(st.targets[0], ast.Name):
            n = st.targets[0].id
            if n == "__all__" or (isinstance(st.value, ast.Constant) and n not in allowed_fns):
                continue
        if isinstance(st, ast.AnnAssign) and isinstance(st.target, ast.Name) and isinstance(st.value, ast.Constant) \
                and st.target.id not in allowed_fns:
            continue
        raise Unsupported(f"coulomb.py line {st.lineno}: unsupported module-level statement: {ast.unparse(st)[:120]}")


def translate_potential(tree: ast.Module) -> str:
    mod = module_info(tree)
    fn = mod["functions"].get("coulomb_potential")
    if fn is None:
        raise Unsupported("coulomb_potential not found")
    tr = Fn(fn, POT_SIG, "Nd", "Except", mod)
    return "\n".join(tr.translate("coulomb_potential", [], "`coulomb_potential(points, centers_s, coeffs_s, alphas_s, centers_p, "
                                                              "coeffs_p, alphas_p, normalized)`, statement by statement"))


def translate_loader(tree: ast.Module) -> tuple[str, list[str]]:
    mod = module_info(tree)
    fn = mod["functions"].get("load_atomic_gaussian_params")
    if fn is None:
        raise Unsupported("load_atomic_gaussian_params not found")
    for n in ("num2sym", "sym2num"):
        if mod["imports"].get(n) != "grid.utils":
            raise Unsupported(f"{n} is not imported from grid.utils")
    tr = Fn(fn, LOAD_SIG, "DecPair", "LoadM", mod)
    text = "\n".join(tr.translate("load_atomic_gaussian_params", ["(env : LoaderEnv)"],
                                  "`load_atomic_gaussian_params(element)`, statement by statement; the module-level cache is the state of `LoadM`"))
    if len(tr.globals_declared) != 1:
        raise Unsupported("the loader does not declare exactly one global (the parameter cache)")
    return text, sorted(tr.globals_declared)

"""Translator: unit handling of the cube-file reader / writer -> Gen/CubicCube.lean.

`UniformGrid.from_cube` is walked statement by statement along each of the four paths given by the two
booleans that decide about units and about the early return

    return_data               (parameter;  `if not return_data: return cls(...)`)
    coordinates_in_angstrom   (local flag; `if coordinates_in_angstrom: axes *= …; origin *= …`)

and every path becomes an ordered list of *effects* (`Eff`): assignments (targets, source text of the
right-hand side), augmented assignments (target, operator, operand — the unit conversions), calls of the
constructor `cls(...)` (argument source texts), returns (plain / with the data dictionary and the
dictionary's entries), and entry/exit markers of loops and of conditionals on anything else.  A conditional
whose test is one of the two path variables (or its negation) is resolved on the path.  `generate_cube` is
a single path (no path variable).  Nothing is interpreted further here: the statements of Props/C13/CubeUnits
are decided by evaluation on these lists (which conversion is applied to which quantity, before or after
the constructor call / the early return, on which path).

Anything the walker does not know (a new path-variable assignment, `try`, `match`, …) raises.
"""
import ast
import json

from ..common import SRC
from .util import HEADER, write_if_changed


class Untranslatable(Exception):
    pass


def _fail(node, why):
    raise Untranslatable(f"cubic.py line {getattr(node, 'lineno', '?')}: {why}: {ast.unparse(node)[:120]}")


def lstr(s: str) -> str:
    """Lean string literal."""
    out = json.dumps(s, ensure_ascii=False)
    return out


def llist(items) -> str:
    return "[" + ", ".join(items) + "]"


AUG = {ast.Mult: "*", ast.Div: "/", ast.Add: "+", ast.Sub: "-", ast.Pow: "**", ast.FloorDiv: "//", ast.Mod: "%"}


class Walker:
    def __init__(self, pathvars):
        self.pathvars = pathvars        # name -> bool
        self.eff = []
        self.done = False

    def test_value(self, t):
        """truth value of a test that is a path variable or its negation, else None"""
        if isinstance(t, ast.Name) and t.id in self.pathvars:
            return self.pathvars[t.id]
        if isinstance(t, ast.UnaryOp) and isinstance(t.op, ast.Not):
            v = self.test_value(t.operand)
            return None if v is None else (not v)
        return None

    def names(self, t):
        if isinstance(t, ast.Name):
            return [t.id]
        if isinstance(t, ast.Starred):
            return ["*" + x for x in self.names(t.value)]
        if isinstance(t, (ast.Tuple, ast.List)):
            return [n for x in t.elts for n in self.names(x)]
        return [ast.unparse(t)]

    def walk(self, stmts):
        for s in stmts:
            if self.done:
                return
            self.stmt(s)

    def returns(self, v):
        """effects of `return v`"""
        def cons(c):
            self.eff.append(f".construct {llist(lstr(ast.unparse(a)) for a in c.args)}")
        if isinstance(v, ast.Call) and ast.unparse(v.func) == "cls":
            cons(v)
            self.eff.append(".ret false []")
        elif isinstance(v, ast.Tuple) and len(v.elts) == 2 and isinstance(v.elts[0], ast.Call) \
                and ast.unparse(v.elts[0].func) == "cls" and isinstance(v.elts[1], ast.Name):
            cons(v.elts[0])
            d = self.dicts.get(v.elts[1].id)
            if d is None:
                _fail(v, "second return value is not a dictionary built in this function")
            self.eff.append(f".ret true {llist(f'({lstr(k)}, {lstr(x)})' for k, x in d)}")
        elif v is None:
            self.eff.append(".ret false []")
        else:
            _fail(v, "unsupported return value")
        self.done = True

    dicts = None

    def stmt(self, s):
        if self.dicts is None:
            self.dicts = {}
        if isinstance(s, ast.Expr):
            if isinstance(s.value, ast.Constant):
                return
            self.eff.append(f".call {lstr(ast.unparse(s.value))}")
            return
        if isinstance(s, ast.FunctionDef):
            # helpers that parse one line: no assignment to an outer name, no conversion
            for n in ast.walk(s):
                if isinstance(n, (ast.AugAssign, ast.Global, ast.Nonlocal)):
                    _fail(s, "nested helper with side effects")
            self.eff.append(f".helper {lstr(s.name)} {lstr(ast.unparse(s.body[-1]))}")
            return
        if isinstance(s, ast.Assign):
            tg = [n for t in s.targets for n in self.names(t)]
            for n in tg:
                if n in self.pathvars and n != "coordinates_in_angstrom":
                    _fail(s, "assignment to a path variable")
            if "coordinates_in_angstrom" in tg and len(tg) != 1:
                _fail(s, "unexpected definition of the unit flag")
            if isinstance(s.value, ast.Dict) and len(tg) == 1:
                ent = []
                for k, v in zip(s.value.keys, s.value.values):
                    if not (isinstance(k, ast.Constant) and isinstance(k.value, str)):
                        _fail(s, "dictionary key is not a string literal")
                    ent.append((k.value, ast.unparse(v)))
                self.dicts[tg[0]] = ent
            self.eff.append(f".assign {llist(lstr(n) for n in tg)} {lstr(ast.unparse(s.value))}")
            return
        if isinstance(s, ast.AugAssign):
            if type(s.op) not in AUG:
                _fail(s, "unsupported augmented assignment")
            self.eff.append(f".aug {lstr(ast.unparse(s.target))} {lstr(AUG[type(s.op)])} {lstr(ast.unparse(s.value))}")
            return
        if isinstance(s, ast.If):
            v = self.test_value(s.test)
            if v is not None:
                self.walk(s.body if v else s.orelse)
                return
            for n in ast.walk(s.test):
                if isinstance(n, ast.Name) and n.id in self.pathvars:
                    _fail(s, "condition mixes a path variable with something else")
            self.eff.append(f".enter \"if\" {lstr(ast.unparse(s.test))}")
            self.block_no_return(s.body, s)
            if s.orelse:
                self.eff.append(".enter \"else\" \"\"")
                self.block_no_return(s.orelse, s)
                self.eff.append(".leave")
            self.eff.append(".leave")
            return
        if isinstance(s, (ast.For, ast.While)):
            src = (ast.unparse(s.target) + " in " + ast.unparse(s.iter)) if isinstance(s, ast.For) else ast.unparse(s.test)
            self.eff.append(f".enter {lstr('for' if isinstance(s, ast.For) else 'while')} {lstr(src)}")
            self.block_no_return(s.body, s)
            self.eff.append(".leave")
            return
        if isinstance(s, ast.With):
            self.eff.append(f".enter \"with\" {lstr(', '.join(ast.unparse(i) for i in s.items))}")
            self.walk(s.body)
            if not self.done:
                self.eff.append(".leave")
            return
        if isinstance(s, ast.Return):
            self.returns(s.value)
            return
        if isinstance(s, ast.Raise):
            self.eff.append(f".raise {lstr(ast.unparse(s.exc) if s.exc else '')}")
            self.done = True
            return
        if isinstance(s, (ast.Break, ast.Continue, ast.Pass)):
            self.eff.append(f".call {lstr(type(s).__name__.lower())}")
            return
        _fail(s, "unsupported statement")

    def block_no_return(self, stmts, where):
        """body of a loop / of a conditional on something else: walked once, must not return
        (raising is fine) and must not test a path variable"""
        for b in stmts:
            for n in ast.walk(b):
                if isinstance(n, ast.Return):
                    _fail(where, "return inside a loop or a data-dependent conditional")
        saved_done = self.done
        for b in stmts:
            self.stmt(b)
            if self.done:        # a raise: the rest of this block is dead, the outer path continues
                self.done = saved_done
                break


def _method(tree, cls, name):
    for c in tree.body:
        if isinstance(c, ast.ClassDef) and c.name == cls:
            for f in c.body:
                if isinstance(f, ast.FunctionDef) and f.name == name:
                    return f
    raise Untranslatable(f"{cls}.{name} not found in cubic.py")


def translate():
    tree = ast.parse((SRC / "cubic.py").read_text())
    out = []
    # --- from_cube -------------------------------------------------------------
    f = _method(tree, "UniformGrid", "from_cube")
    if [a.arg for a in f.args.args] != ["cls", "fname", "weight", "return_data"]:
        raise Untranslatable("from_cube: unexpected signature")
    if [ast.unparse(d) for d in f.args.defaults] != ["'Trapezoid'", "False"]:
        raise Untranslatable("from_cube: defaults changed")
    flagdefs = [s for s in ast.walk(f) if isinstance(s, ast.Assign)
                and any(isinstance(t, ast.Name) and t.id == "coordinates_in_angstrom" for t in s.targets)]
    if len(flagdefs) != 1:
        raise Untranslatable("from_cube: the unit flag `coordinates_in_angstrom` must be assigned exactly once")
    paths = []
    for rd in (False, True):
        for ang in (False, True):
            w = Walker({"return_data": rd, "coordinates_in_angstrom": ang})
            w.walk(f.body)
            if not w.done:
                w.eff.append(".ret false []  -- falls off the end")
            paths.append((rd, ang, w.eff))
    out.append("/-- `UniformGrid.from_cube`: the four paths (`return_data`, file in angstrom) as ordered effect lists. -/")
    out.append("def fromCubePaths : List Path := [")
    items = []
    for rd, ang, eff in paths:
        items.append(f"  {{ returnData := {str(rd).lower()}, angstrom := {str(ang).lower()}, effects := [\n      "
                     + ",\n      ".join(eff) + "] }")
    out.append(",\n".join(items) + "]")
    out.append("")
    out.append("/-- source text that defines the unit flag of `from_cube`. -/")
    out.append(f"def unitFlagDefinition : String := {lstr(ast.unparse(flagdefs[0].value))}")
    out.append("")
    # --- generate_cube ---------------------------------------------------------
    g = _method(tree, "UniformGrid", "generate_cube")
    if [a.arg for a in g.args.args] != ["self", "fname", "data", "atcoords", "atnums", "pseudo_numbers"]:
        raise Untranslatable("generate_cube: unexpected signature")
    w = Walker({})
    w.walk(g.body)
    if not w.done:
        w.eff.append(".ret false []")
    out.append("/-- `UniformGrid.generate_cube`: its single path. -/")
    out.append("def generateCubeEffects : List Eff := [\n    " + ",\n    ".join(w.eff) + "]")
    out.append("")
    return "\n".join(out)


PRELUDE = """namespace GridVerif.Gen.CubicCube

/-- One effect of a statement of the cube reader / writer (source texts are kept verbatim). -/
inductive Eff
  | assign (targets : List String) (rhs : String)      -- `targets = rhs`
  | aug (target op operand : String)                   -- `target op= operand`  (unit conversions)
  | construct (args : List String)                     -- `cls(args…)`
  | ret (withData : Bool) (dict : List (String × String))   -- `return grid` / `return grid, dict`
  | call (src : String)                                -- expression statement (`f.readline()`, `print`, `f.write`)
  | helper (name lastStmt : String)                    -- nested line-parsing helper
  | enter (kind src : String)                          -- loop / `with` / conditional on data
  | leave
  | raise (src : String)
  deriving DecidableEq, Repr

structure Path where
  returnData : Bool
  angstrom : Bool
  effects : List Eff
  deriving DecidableEq, Repr

"""

EPILOG = """
/-- the augmented assignments of an effect list, in order. -/
def augs : List Eff → List (String × String × String)
  | [] => []
  | .aug t o x :: r => (t, o, x) :: augs r
  | _ :: r => augs r

/-- the effects before the first constructor call, and the arguments of that call. -/
def beforeConstruct : List Eff → Option (List Eff × List String)
  | [] => none
  | .construct a :: _ => some ([], a)
  | e :: r => (beforeConstruct r).map fun (p, a) => (e :: p, a)

def pathOf (rd ang : Bool) : Option Path := fromCubePaths.find? fun p => p.returnData == rd && p.angstrom == ang

/-- conversions applied before the grid is constructed on the path `(return_data, angstrom)`,
and the constructor arguments. -/
def conversionsBeforeConstruct (rd ang : Bool) : Option (List (String × String × String) × List String) :=
  (pathOf rd ang).bind fun p => (beforeConstruct p.effects).map fun (e, a) => (augs e, a)

/-- one line per path for the driver (`C13.cube_units`). -/
def summary : String :=
  String.intercalate " | " (fromCubePaths.map fun p =>
    s!"rd={p.returnData} ang={p.angstrom}: " ++
      String.intercalate "," ((augs p.effects).map fun (t, o, x) => t ++ o ++ "=" ++ x))

end GridVerif.Gen.CubicCube
"""


def generate():
    text = HEADER.format(name="cubic_cube", source="src/grid/cubic.py (UniformGrid.from_cube, generate_cube: unit handling)")
    text += PRELUDE + translate() + EPILOG
    return write_if_changed("CubicCube.lean", text)


if __name__ == "__main__":
    print(translate())

"""Translator: grid/coulomb.py + data/atomic_gauss_params.json
   -> Gen/Coulomb.lean (closed forms), Gen/CoulombParams.lean (parameter table),
      Gen/CoulombPotential.lean (`coulomb_potential`) and Gen/CoulombLoader.lean
      (`load_atomic_gaussian_params`); the last two are translated statement by statement by
      `coulomb_py.py` (see its docstring), all four are written by `generate()` below.

`coulomb_gaussian_s` / `coulomb_gaussian_p` are *parsed* (ast) and every statement is
carried over one by one into a generic-`K` Lean `def`:

    name = <expr>                       ->  let name := <expr>
    out = np.empty_like(r)              ->  let out := uninit          (never read when the masks are complementary)
    t = np.zeros_like(r)                ->  let t := 0
    np.divide(a, b, out=X, where=c)     ->  let X := if c then a / b else X
    X[c] = e                            ->  let X := if c then e else X
    if normalized: return e  ; rest     ->  if normalized then e else rest
    if <test>: raise ValueError(...)    ->  a guard of `…Rejects`
    return e                            ->  e

Array code is elementwise in `r`, so the scalar function of one radius is its meaning.
Numbers are taken from the source text as exact decimals (`4.0` -> 4, `1.5` -> 3/2,
`1e-12` -> 1/10^12) and emitted as `((n : Nat) : K)` quotients, so the same text is a
`Float` program in the driver and a real expression in the theorems.  `**` with an
integer literal becomes `npow`, with anything else `Elem.rpow`.  Anything outside this
repertoire raises `Unsupported` (reported as a broken proof obligation).

The JSON table is dumped with exact decimals `(mantissa, exponent10)`; the element
table `grid.utils.num2sym` is dumped next to it (the loader consults both).
"""
from __future__ import annotations

import ast
import importlib
import json
from decimal import Decimal
from fractions import Fraction

from ..common import SRC
from . import coulomb_py
from .util import HEADER, write_if_changed


Unsupported = coulomb_py.Unsupported


FUNCS = [("coulomb_gaussian_s", "coulombGaussianS"), ("coulomb_gaussian_p", "coulombGaussianP")]
ELEM_CALLS = {"sqrt": "Elem.sqrt", "exp": "Elem.exp", "erf": "Elem.erf"}


def _nat(n: int) -> str:
    return f"(({n} : Nat) : K)"


def _lit(text: str | None, value) -> str:
    if isinstance(value, bool) or not isinstance(value, (int, float)):
        raise Unsupported(f"constant {value!r}")
    try:
        q = Fraction(Decimal(text)) if text is not None else Fraction(Decimal(repr(value)))
    except Exception:
        q = Fraction(Decimal(repr(value)))
    if q < 0 or q.numerator >= 2**53 or q.denominator >= 2**53:
        raise Unsupported(f"literal {text or value!r} not exactly a quotient of two doubles")
    if q.denominator == 1:
        return _nat(q.numerator)
    return f"({_nat(q.numerator)} / {_nat(q.denominator)})"


class Tr:
    """Expression / statement translation of one function."""

    def __init__(self, src: str, consts: dict[str, str], params: list[str]):
        self.src = src
        self.consts = consts
        self.scope = set(params)

    # -- expressions ----------------------------------------------------------
    def name_of_call(self, f) -> str:
        if isinstance(f, ast.Attribute) and isinstance(f.value, ast.Name) and f.value.id == "np":
            return "np." + f.attr
        if isinstance(f, ast.Name):
            return f.id
        raise Unsupported(ast.dump(f))

    def e(self, n) -> str:
        if isinstance(n, ast.Constant):
            return _lit(ast.get_source_segment(self.src, n), n.value)
        if isinstance(n, ast.Name):
            if n.id in self.consts:
                return self.consts[n.id]
            if n.id in self.scope:
                return n.id
            raise Unsupported(f"unknown name {n.id}")
        if isinstance(n, ast.Attribute):
            if isinstance(n.value, ast.Name) and n.value.id == "np" and n.attr == "pi":
                return "Elem.pi"
            raise Unsupported(ast.dump(n))
        if isinstance(n, ast.UnaryOp) and isinstance(n.op, ast.USub):
            return f"(-{self.e(n.operand)})"
        if isinstance(n, ast.BinOp):
            if isinstance(n.op, ast.Pow):
                ex = n.right
                if isinstance(ex, ast.Constant) and isinstance(ex.value, int) and not isinstance(ex.value, bool) and ex.value >= 0:
                    return f"(npow {self.e(n.left)} {ex.value})"
                return f"(Elem.rpow {self.e(n.left)} {self.e(ex)})"
            ops = {ast.Add: "+", ast.Sub: "-", ast.Mult: "*", ast.Div: "/"}
            if type(n.op) not in ops:
                raise Unsupported(ast.dump(n.op))
            return f"({self.e(n.left)} {ops[type(n.op)]} {self.e(n.right)})"
        if isinstance(n, ast.Call):
            f = self.name_of_call(n.func)
            key = f[3:] if f.startswith("np.") else f
            if key in ELEM_CALLS and len(n.args) == 1 and not n.keywords:
                return f"({ELEM_CALLS[key]} {self.e(n.args[0])})"
            raise Unsupported(f"call {f}")
        raise Unsupported(ast.dump(n))

    def cond(self, n) -> str:
        """A comparison of two scalars -> a decidable Lean proposition."""
        if isinstance(n, ast.Call) and self.name_of_call(n.func) == "np.any" and len(n.args) == 1:
            return self.cond(n.args[0])  # one radius at a time
        if isinstance(n, ast.Compare) and len(n.ops) == 1:
            a, b = self.e(n.left), self.e(n.comparators[0])
            op = type(n.ops[0])
            if op is ast.Lt:
                return f"{a} < {b}"
            if op is ast.LtE:
                return f"{a} ≤ {b}"
            if op is ast.Gt:
                return f"{b} < {a}"
            if op is ast.GtE:
                return f"{b} ≤ {a}"
        raise Unsupported("condition " + ast.dump(n))

    # -- statements -----------------------------------------------------------
    def is_identity_coercion(self, st) -> bool:
        # r = np.atleast_1d(np.asarray(r, dtype=float))
        if not (isinstance(st, ast.Assign) and len(st.targets) == 1 and isinstance(st.targets[0], ast.Name)):
            return False
        v = st.value
        try:
            if isinstance(v, ast.Call) and self.name_of_call(v.func) == "np.atleast_1d":
                v = v.args[0]
            else:
                return False
            if isinstance(v, ast.Call) and self.name_of_call(v.func) == "np.asarray":
                return isinstance(v.args[0], ast.Name) and v.args[0].id == st.targets[0].id
        except Unsupported:
            return False
        return False

    def body(self, stmts, guards: list[str], indent="  ") -> list[str]:
        out: list[str] = []
        i = 0
        while i < len(stmts):
            st = stmts[i]
            i += 1
            if isinstance(st, ast.Expr) and isinstance(st.value, ast.Constant) and isinstance(st.value.value, str):
                continue  # docstring
            if isinstance(st, ast.If) and len(st.body) == 1 and isinstance(st.body[0], ast.Raise) and not st.orelse:
                exc = st.body[0].exc
                if not (isinstance(exc, ast.Call) and isinstance(exc.func, ast.Name) and exc.func.id == "ValueError"):
                    raise Unsupported("raise of something else than ValueError")
                if out:
                    raise Unsupported("guard after computation started")
                guards.append(self.cond(st.test))
                continue
            if self.is_identity_coercion(st):
                continue
            if isinstance(st, ast.Assign) and len(st.targets) == 1:
                tgt = st.targets[0]
                if isinstance(tgt, ast.Name):
                    v = st.value
                    if isinstance(v, ast.Call):
                        f = self.name_of_call(v.func)
                        if f == "np.empty_like":
                            out.append(f"{indent}let {tgt.id} : K := uninit")
                            self.scope.add(tgt.id)
                            continue
                        if f == "np.zeros_like":
                            out.append(f"{indent}let {tgt.id} : K := {_nat(0)}")
                            self.scope.add(tgt.id)
                            continue
                    rhs = self.e(v)
                    out.append(f"{indent}let {tgt.id} : K := {rhs}")
                    self.scope.add(tgt.id)
                    continue
                if isinstance(tgt, ast.Subscript) and isinstance(tgt.value, ast.Name) and tgt.value.id in self.scope:
                    x = tgt.value.id
                    out.append(f"{indent}let {x} : K := if {self.cond(tgt.slice)} then {self.e(st.value)} else {x}")
                    continue
                raise Unsupported(ast.dump(st))
            if isinstance(st, ast.Expr) and isinstance(st.value, ast.Call) and self.name_of_call(st.value.func) == "np.divide":
                c = st.value
                kw = {k.arg: k.value for k in c.keywords}
                if len(c.args) != 2 or set(kw) != {"out", "where"} or not isinstance(kw["out"], ast.Name):
                    raise Unsupported("np.divide form")
                x = kw["out"].id
                if x not in self.scope:
                    raise Unsupported(f"np.divide out={x} not defined")
                out.append(
                    f"{indent}let {x} : K := if {self.cond(kw['where'])} then {self.e(c.args[0])} / {self.e(c.args[1])} else {x}"
                )
                continue
            if isinstance(st, ast.If) and isinstance(st.test, ast.Name) and st.test.id == "normalized" and not st.orelse:
                if len(st.body) != 1 or not isinstance(st.body[0], ast.Return):
                    raise Unsupported("if normalized: body")
                out.append(f"{indent}if normalized then {self.e(st.body[0].value)} else")
                out += self.body(stmts[i:], guards, indent)
                return out
            if isinstance(st, ast.Return):
                out.append(f"{indent}{self.e(st.value)}")
                if i != len(stmts):
                    raise Unsupported("code after return")
                return out
            raise Unsupported(ast.dump(st)[:200])
        raise Unsupported("function does not end with return")


def translate_source(src: str) -> str:
    tree = ast.parse(src)
    consts_def: list[str] = []
    consts: dict[str, str] = {}
    for st in tree.body:
        if isinstance(st, ast.Assign) and len(st.targets) == 1 and isinstance(st.targets[0], ast.Name) \
                and isinstance(st.value, ast.Constant) and isinstance(st.value.value, (int, float)) \
                and not isinstance(st.value.value, bool):
            nm = st.targets[0].id
            lean = {"_R_ZERO_THRESHOLD": "rZeroThreshold"}.get(nm)
            if lean is None:
                continue
            consts[nm] = f"({lean} : K)"
            consts_def.append(f"/-- `{nm} = {ast.get_source_segment(src, st.value)}` -/")
            consts_def.append(f"def {lean} : K := {_lit(ast.get_source_segment(src, st.value), st.value.value)}\n")
    fns = {n.name: n for n in tree.body if isinstance(n, ast.FunctionDef)}
    parts = list(consts_def)
    parts.append("/-- contents of `np.empty_like`: unspecified; read only if the masks of the\n"
                 "masked assignments do not cover the input (never for a real `r ≥ 0`). -/")
    parts.append(f"def uninit : K := {_nat(0)}\n")
    for py, lean in FUNCS:
        if py not in fns:
            raise Unsupported(f"{py} not found")
        fn = fns[py]
        params = [a.arg for a in fn.args.args]
        if params != ["r", "alpha", "normalized"]:
            raise Unsupported(f"{py}: parameters {params}")
        dflt = fn.args.defaults
        if len(dflt) != 1 or not (isinstance(dflt[0], ast.Constant) and dflt[0].value is True):
            raise Unsupported(f"{py}: default of normalized")
        tr = Tr(src, consts, params)
        guards: list[str] = []
        lines = tr.body(fn.body, guards)
        parts.append(f"/-- `{py}(r, alpha, normalized)` for one radius, statement by statement. -/")
        parts.append(f"def {lean} (r alpha : K) (normalized : Bool) : K :=")
        parts += lines
        parts.append("")
        parts.append(f"/-- the `raise ValueError` guards of `{py}`, in order. -/")
        g = " || ".join(f"decide ({c})" for c in guards) if guards else "false"
        parts.append(f"def {lean}Rejects (r alpha : K) : Bool := {g}\n")
    return "\n".join(parts)


KEYS = ("coeffs_s", "alphas_s")  # keys of one JSON entry, in the order of the triple `(symbol, ·, ·)` of `table`


def _dec(d: Decimal) -> tuple[int, int]:
    if not isinstance(d, Decimal) or not d.is_finite():
        raise Unsupported(f"table entry {d!r} is not a finite decimal")
    sign, digits, exp = d.as_tuple()
    m = int("".join(map(str, digits))) if digits else 0
    while m != 0 and m % 10 == 0:
        m //= 10
        exp += 1
    return (-m if sign else m), (0 if m == 0 else exp)


def params_table():
    with open(SRC / "data" / "atomic_gauss_params.json", encoding="utf-8") as f:
        data = json.load(f, parse_float=Decimal, parse_int=Decimal)
    if not isinstance(data, dict):
        raise Unsupported("JSON root is not an object")
    rows = []
    for sym, ent in data.items():
        if not isinstance(ent, dict) or list(ent) != list(KEYS):
            raise Unsupported(f"entry {sym}: keys {list(ent) if isinstance(ent, dict) else ent!r}, expected {list(KEYS)}")
        rows.append((sym, [_dec(x) for x in ent[KEYS[0]]], [_dec(x) for x in ent[KEYS[1]]]))
    return rows


def _pairs(ps) -> str:
    return "[" + ", ".join(f"({m}, {e})" for m, e in ps) + "]"


def generate():
    src = (SRC / "coulomb.py").read_text()
    body = translate_source(src)
    t1 = (
        HEADER.format(name="coulomb", source="src/grid/coulomb.py (coulomb_gaussian_s, coulomb_gaussian_p, _R_ZERO_THRESHOLD)")
        + "import GridVerif.Model.Elem\n\nnamespace GridVerif.Gen.Coulomb\n\n"
        + "variable {K : Type} [Add K] [Sub K] [Mul K] [Div K] [Neg K] [NatCast K] [Elem K]\n"
        + "  [LT K] [LE K] [DecidableLT K] [DecidableLE K]\n\n"
        + body
        + "\nend GridVerif.Gen.Coulomb\n"
    )
    c1, d1 = write_if_changed("Coulomb.lean", t1)

    rows = params_table()
    utils = importlib.import_module("grid.utils")
    elems = [(int(k), str(v)) for k, v in utils.num2sym.items()]
    if {v: k for k, v in utils.num2sym.items()} != dict(utils.sym2num):
        raise Unsupported("sym2num is not the inverse of num2sym")
    p = [HEADER.format(name="coulomb", source="src/grid/data/atomic_gauss_params.json, grid.utils.num2sym")]
    p.append("namespace GridVerif.Gen.CoulombParams\n")
    p.append("/-- `(symbol, coeffs_s, alphas_s)` per JSON entry, in file order; a number is the exact\n"
             "decimal of the file, `(m, e)` meaning `m × 10^e` (trailing zeros of `m` removed). -/")
    p.append("def table : List (String × List (Int × Int) × List (Int × Int)) := [")
    p.append(",\n".join(f"  ({json.dumps(s)},\n    {_pairs(c)},\n    {_pairs(a)})" for s, c, a in rows))
    p.append("]\n")
    p.append("/-- `grid.utils.num2sym` (atomic number ↦ symbol), insertion order; `sym2num` is its inverse. -/")
    items = [f"({k}, {json.dumps(v)})" for k, v in elems]
    lines, cur = [], "  "
    for it in items:
        if len(cur) + len(it) > 96:
            lines.append(cur.rstrip())
            cur = "  "
        cur += it + ", "
    lines.append(cur.rstrip().rstrip(","))
    p.append("def elements : List (Nat × String) := [\n" + "\n".join(lines) + "]\n")
    p.append("/-- The file as `json.load` returns it: symbol ↦ (key ↦ list of numbers), keys in file order. -/")
    p.append("def json : List (String × List (String × List (Int × Int))) :=\n"
             "  table.map fun e => (e.1, [(" + json.dumps(KEYS[0]) + ", e.2.1), (" + json.dumps(KEYS[1]) + ", e.2.2)])\n")
    p.append("end GridVerif.Gen.CoulombParams\n")
    c2, d2 = write_if_changed("CoulombParams.lean", "\n".join(p))

    tree = ast.parse(src)
    coulomb_py.check_module_level(tree, {py for py, _ in FUNCS} | {"coulomb_potential", "load_atomic_gaussian_params"})
    t3 = (
        HEADER.format(name="coulomb", source="src/grid/coulomb.py (coulomb_potential)")
        + "import GridVerif.Model.CoulombPy\nimport GridVerif.Gen.Coulomb\n\n"
        + "set_option linter.unusedVariables false\n\n"
        + "namespace GridVerif.Gen.CoulombPotential\nopen GridVerif GridVerif.Coulomb GridVerif.Gen.Coulomb\n\n"
        + "variable {K : Type} [Add K] [Sub K] [Mul K] [Div K] [Neg K] [NatCast K] [Elem K]\n"
        + "  [LT K] [LE K] [DecidableLT K] [DecidableLE K]\n\n"
        + coulomb_py.translate_potential(tree)
        + "\n\nend GridVerif.Gen.CoulombPotential\n"
    )
    c3, d3 = write_if_changed("CoulombPotential.lean", t3)

    loader, cells = coulomb_py.translate_loader(tree)
    t4 = (
        HEADER.format(name="coulomb", source="src/grid/coulomb.py (load_atomic_gaussian_params, " + ", ".join(cells) + ")")
        + "import GridVerif.Model.CoulombPy\nimport GridVerif.Gen.CoulombParams\n\n"
        + "set_option linter.unusedVariables false\n\n"
        + "namespace GridVerif.Gen.CoulombLoader\nopen GridVerif GridVerif.Coulomb\n\n"
        + loader
        + "\n\n/-- The outside world as the translator found it: `sym2num`/`num2sym` of `grid.utils` (checked to be\n"
        + "inverse to each other) and the one resource it dumped into `Gen/CoulombParams.lean`. -/\n"
        + "def env : LoaderEnv where\n"
        + "  sym2num := CoulombParams.elements.map fun e => (e.2, e.1)\n"
        + "  num2sym := CoulombParams.elements\n"
        + "  readJson := fun pkg name =>\n"
        + "    if pkg == \"grid.data\" && name == \"atomic_gauss_params.json\" then some CoulombParams.json else none\n"
        + "\nend GridVerif.Gen.CoulombLoader\n"
    )
    c4, d4 = write_if_changed("CoulombLoader.lean", t4)
    return (c1 or c2 or c3 or c4), (d1 + d2 + d3 + d4)[:6000]

"""Translator: grid/molgrid.py per-atom argument selection -> Gen/MolGrid.lean.

AST based.  Of the three convenience constructors `MolGrid.from_preset`, `from_size`,
`from_pruned` the following is carried into Lean:

* every `if isinstance(arg, C): tgt = … elif … else: raise TypeError` chain inside the
  per-atom loop (radial grid of all three, preset of `from_preset`) becomes one Lean function
  by pattern matching on `PyArg` (`OneDGrid`/`str` -> `.obj`, `list` -> `.list`, `dict` ->
  `.dict`, `is None` -> `.none`, final `raise TypeError` -> the catch-all).  Inside a branch only
  `name = expr` statements with `expr` among: the argument itself, `arg[i]` (list branch:
  `pyGet`), `arg[key]` (dict branch: `pyLookup`), `atnums[i]`, a loop variable bound by
  `enumerate(atnums)` / `zip(atnums, atcoords)`, `_generate_default_rgrid(e)` are accepted.
  An `else: tgt = arg` (from_size: anything that is not None goes to `AtomGrid(...)`) becomes
  `.obj v => v` and `TypeError` for the rest (AtomGrid accepts a OneDGrid only).
* the loop headers, the argument lists of the `AtomGrid…(…)` calls and of the final
  `cls(…)`, the pre-loop checks / normalisation statements are carried as *text* (`ast.unparse`),
  so that `Props/C07` can pin them (`decide`): the hand model of `Model/MolGrid.lean` was written
  against exactly these call sites.

Anything else raises `Untranslatable` (treated by the check like a proof obligation that no
longer holds).
"""
import ast

from ..common import SRC
from .util import HEADER, write_if_changed


class Untranslatable(Exception):
    pass


def _fail(node, why):
    raise Untranslatable(f"molgrid.py line {getattr(node, 'lineno', '?')}: {why}: {ast.unparse(node)[:140]}")


CLASS_KIND = {"OneDGrid": "obj", "str": "obj", "list": "list", "dict": "dict"}


def _lean_str(s: str) -> str:
    if not s.isascii():
        raise Untranslatable(f"non-ASCII source text: {s[:60]!r}")
    return '"' + s.replace("\\", "\\\\").replace('"', '\\"').replace("\n", "\\n") + '"'


class Chain:
    """One isinstance chain selecting `target` from argument `arg`."""

    def __init__(self, arg, target, env):
        self.arg = arg
        self.target = target
        self.env0 = dict(env)  # python name -> Lean term of type Nat
        self.branches = []  # (ctor, [lean lines])
        self.default = None

    # -- expressions -----------------------------------------------------------
    def nat(self, e, env):
        """Lean term of type Nat (an atomic number)."""
        if isinstance(e, ast.Name) and e.id in env:
            return env[e.id]
        if (isinstance(e, ast.Subscript) and isinstance(e.value, ast.Name) and e.value.id == "atnums"
                and isinstance(e.slice, ast.Name) and e.slice.id == "i"):
            return "(← pyGet atnums i)"
        _fail(e, "unsupported key / atomic-number expression")

    def value(self, e, kind, env):
        if isinstance(e, ast.Name) and e.id == self.arg:
            if kind != "obj":
                _fail(e, f"the {kind} argument itself used as the per-atom value")
            return "v"
        if isinstance(e, ast.Subscript) and isinstance(e.value, ast.Name) and e.value.id == self.arg:
            if kind == "list":
                if not (isinstance(e.slice, ast.Name) and e.slice.id == "i"):
                    _fail(e, "list argument not indexed by the loop counter i")
                return "(← pyGet v i)"
            if kind == "dict":
                return f"(← pyLookup v {self.nat(e.slice, env)})"
            _fail(e, f"subscript of a {kind} argument")
        if (isinstance(e, ast.Call) and isinstance(e.func, ast.Name) and e.func.id == "_generate_default_rgrid"
                and len(e.args) == 1 and not e.keywords):
            return f"(← generate_default_rgrid {self.nat(e.args[0], env)})"
        _fail(e, "unsupported value expression")

    def body(self, stmts, kind):
        env = dict(self.env0)
        lines = []
        for k, s in enumerate(stmts):
            if not (isinstance(s, ast.Assign) and len(s.targets) == 1 and isinstance(s.targets[0], ast.Name)):
                _fail(s, "only `name = expr` is supported inside a selection branch")
            name = s.targets[0].id
            if name == self.target:
                if k != len(stmts) - 1:
                    _fail(s, "statements after the selection")
                lines.append(f"pure {self.value(s.value, kind, env)}")
                return lines
            lines.append(f"let {name} ← (pure {self.nat(s.value, env)} : Py Nat)")
            env[name] = name
        _fail(stmts[-1], f"branch does not assign {self.target}")

    # -- the chain ---------------------------------------------------------------
    def test(self, t):
        if (isinstance(t, ast.Call) and isinstance(t.func, ast.Name) and t.func.id == "isinstance"
                and len(t.args) == 2 and isinstance(t.args[0], ast.Name) and t.args[0].id == self.arg
                and isinstance(t.args[1], ast.Name) and t.args[1].id in CLASS_KIND):
            return CLASS_KIND[t.args[1].id]
        if (isinstance(t, ast.Compare) and isinstance(t.left, ast.Name) and t.left.id == self.arg
                and len(t.ops) == 1 and isinstance(t.ops[0], ast.Is)
                and isinstance(t.comparators[0], ast.Constant) and t.comparators[0].value is None):
            return "none"
        _fail(t, "unsupported branch test")

    def walk(self, node):
        if not isinstance(node, ast.If):
            _fail(node, "not an if-chain")
        kind = self.test(node.test)
        if kind in [k for k, _ in self.branches]:
            _fail(node.test, f"second branch for {kind}")
        self.branches.append((kind, self.body(node.body, kind)))
        oe = node.orelse
        if len(oe) == 1 and isinstance(oe[0], ast.If):
            return self.walk(oe[0])
        if (len(oe) == 1 and isinstance(oe[0], ast.Raise) and isinstance(oe[0].exc, ast.Call)
                and isinstance(oe[0].exc.func, ast.Name) and oe[0].exc.func.id == "TypeError"):
            self.default = "typeError  -- else: raise TypeError"
            return
        if (len(oe) == 1 and isinstance(oe[0], ast.Assign) and len(oe[0].targets) == 1
                and isinstance(oe[0].targets[0], ast.Name) and oe[0].targets[0].id == self.target
                and isinstance(oe[0].value, ast.Name) and oe[0].value.id == self.arg):
            if "obj" in [k for k, _ in self.branches]:
                _fail(oe[0], "pass-through else after an explicit class branch")
            self.branches.append(("obj", ["pure v  -- else: handed to AtomGrid(...) as it is"]))
            self.default = "typeError  -- AtomGrid(...) accepts a OneDGrid only"
            return
        _fail(node, "chain must end in `else: raise TypeError(...)` or `else: target = arg`")

    def lean(self, name, doc, params):
        out = [f"/-- {doc} -/", f"def {name} {{α : Type}} (generate_default_rgrid : Nat → Py α) "
               f"({self.arg} : PyArg α) {params} : Py α :=", f"  match {self.arg} with"]
        for kind, lines in self.branches:
            pat = ".none" if kind == "none" else f".{kind} v"
            out.append(f"  | {pat} => do")
            out += ["    " + ln for ln in lines]
        out.append(f"  | _ => throw PyErr.{self.default}")
        return out


def _classmethod(tree, name):
    for c in tree.body:
        if isinstance(c, ast.ClassDef) and c.name == "MolGrid":
            for f in c.body:
                if isinstance(f, ast.FunctionDef) and f.name == name:
                    return f
    raise Untranslatable(f"MolGrid.{name} not found in molgrid.py")


def _strip_doc(body):
    if body and isinstance(body[0], ast.Expr) and isinstance(body[0].value, ast.Constant) and isinstance(body[0].value.value, str):
        return body[1:]
    return body


def _call_args(call):
    if any(isinstance(a, ast.Starred) for a in call.args) or any(k.arg is None for k in call.keywords):
        _fail(call, "star arguments")
    items = [("func", ast.unparse(call.func))]
    items += [(str(k), ast.unparse(a)) for k, a in enumerate(call.args)]
    items += [(k.arg, ast.unparse(k.value)) for k in call.keywords]
    return items


def _pairs(name, doc, items):
    body = ",\n   ".join(f"({_lean_str(a)}, {_lean_str(b)})" for a, b in items)
    return [f"/-- {doc} -/", f"def {name} : List (String × String) :=", f"  [{body}]", ""]


def _strs(name, doc, items):
    body = ",\n   ".join(_lean_str(a) for a in items)
    return [f"/-- {doc} -/", f"def {name} : List String :=", f"  [{body}]", ""]


def _unparse_short(s):
    """Statement text with the message of a `raise X("…")` dropped (messages are not semantics)."""
    if isinstance(s, ast.If):
        head = f"if {ast.unparse(s.test)}: " + "; ".join(_unparse_short(b) for b in s.body)
        if s.orelse:
            head += " else: " + "; ".join(_unparse_short(b) for b in s.orelse)
        return head
    if isinstance(s, ast.Raise) and isinstance(s.exc, ast.Call) and isinstance(s.exc.func, ast.Name):
        return f"raise {s.exc.func.id}"
    return ast.unparse(s)


def _one_method(tree, fname, lean_prefix):
    """-> (lean lines) for one constructor."""
    f = _classmethod(tree, fname)
    body = _strip_doc(f.body)
    loops = [s for s in body if isinstance(s, ast.For)]
    if len(loops) != 1:
        raise Untranslatable(f"MolGrid.{fname}: expected exactly one per-atom loop, found {len(loops)}")
    loop = loops[0]
    k = body.index(loop)
    pre, post = body[:k], body[k + 1:]
    out = []
    sig = [a.arg for a in f.args.args] + ["*"] * bool(f.args.kwonlyargs) + [a.arg for a in f.args.kwonlyargs]
    out += _strs(f"{lean_prefix}_signature", f"`MolGrid.{fname}`: parameter names in order (`*` = keyword-only from here).", sig)
    out += _strs(f"{lean_prefix}_prelude", f"`MolGrid.{fname}`: the statements before the per-atom loop (exception messages dropped).",
                 [_unparse_short(s) for s in pre])
    out += _strs(f"{lean_prefix}_loop", f"`MolGrid.{fname}`: the loop header `for <target> in <iter>`.",
                 [ast.unparse(loop.target), ast.unparse(loop.iter)])
    # environment of loop variables usable as atomic numbers
    env = {}
    header = (ast.unparse(loop.target), ast.unparse(loop.iter))
    if header == ("i", "range(total_atm)"):
        if "total_atm = len(atnums)" not in [ast.unparse(s) for s in pre]:
            _fail(loop, "range(total_atm) without total_atm = len(atnums)")
        mode = "index"
    elif header == ("(i, atnum)", "enumerate(atnums)"):
        env["atnum"] = "(← pyGet atnums i)"
        mode = "index"
    elif header == ("(atnum, atcoord)", "zip(atnums, atcoords)"):
        env["atnum"] = "atnum"
        mode = "zip"
    else:
        _fail(loop, "unsupported per-atom loop header")
    params = "(atnums : List Nat) (i : Nat)" if mode == "index" else "(atnum : Nat)"
    # loop body: chains, then exactly one AtomGrid call (assigned and appended, or appended)
    calls, appended = [], []
    for s in loop.body:
        if isinstance(s, ast.If):
            # which argument / target?
            first = s.test
            arg = None
            for n in ast.walk(first):
                if isinstance(n, ast.Name) and n.id in ("rgrid", "preset"):
                    arg = n.id
                    break
            if arg is None:
                _fail(s, "selection chain on an unknown argument")
            tgt = None
            for n in ast.walk(s):
                if isinstance(n, ast.Assign) and isinstance(n.targets[0], ast.Name) and n.targets[0].id not in ("atnum",):
                    tgt = n.targets[0].id
                    break
            ch = Chain(arg, tgt, env)
            ch.walk(s)
            out += ch.lean(f"{lean_prefix}_{tgt}",
                           f"`MolGrid.{fname}`, line {s.lineno}: selection of `{tgt}` from `{arg}` for one atom.", params)
            out.append("")
            continue
        call = None
        if isinstance(s, ast.Assign) and isinstance(s.value, ast.Call):
            call = s.value
            calls.append((ast.unparse(s.targets[0]), call))
            continue
        if (isinstance(s, ast.Expr) and isinstance(s.value, ast.Call) and isinstance(s.value.func, ast.Attribute)
                and s.value.func.attr == "append" and len(s.value.args) == 1):
            a = s.value.args[0]
            lst = ast.unparse(s.value.func.value)
            if isinstance(a, ast.Call):
                calls.append((None, a))
                appended.append(lst)
            elif isinstance(a, ast.Name) and calls and calls[-1][0] == a.id:
                appended.append(lst)
            else:
                _fail(s, "unsupported append")
            continue
        _fail(s, "unsupported statement in the per-atom loop")
    if len(calls) != 1 or len(appended) != 1:
        _fail(loop, "expected exactly one AtomGrid construction appended per atom")
    out += _pairs(f"{lean_prefix}_call", f"`MolGrid.{fname}`: the per-atom `AtomGrid` construction, `(keyword-or-position, argument text)`.",
                  _call_args(calls[0][1]))
    # after the loop: return cls(atnums, <the list>, aim_weights, store=store)
    if not (len(post) == 1 and isinstance(post[0], ast.Return) and isinstance(post[0].value, ast.Call)):
        _fail(post[0] if post else loop, "expected `return cls(...)` right after the loop")
    ret = _call_args(post[0].value)
    ret = [(k, "<per-atom list>" if v == appended[0] else v) for k, v in ret]
    out += _pairs(f"{lean_prefix}_return", f"`MolGrid.{fname}`: the final constructor call.", ret)
    return out


def translate():
    tree = ast.parse((SRC / "molgrid.py").read_text())
    parts = []
    for fname, pre in (("from_preset", "fromPreset"), ("from_size", "fromSize"), ("from_pruned", "fromPruned")):
        parts += _one_method(tree, fname, pre)
    # _generate_default_rgrid: key set and sizes of the table it reads (the module is imported)
    fn = [s for s in tree.body if isinstance(s, ast.FunctionDef) and s.name == "_generate_default_rgrid"]
    if len(fn) != 1:
        raise Untranslatable("_generate_default_rgrid not found")
    parts += _strs("defaultRgrid_body", "`_generate_default_rgrid`: its statements (exception message dropped).",
                   [_unparse_short(s) for s in _strip_doc(fn[0].body)])
    utree = ast.parse((SRC / "utils.py").read_text())
    table = None
    for s in utree.body:
        if isinstance(s, ast.Assign) and ast.unparse(s.targets[0]) == "_DEFAULT_POWER_RTRANSFORM_PARAMS":
            table = ast.literal_eval(s.value)
    if table is None:
        raise Untranslatable("_DEFAULT_POWER_RTRANSFORM_PARAMS not found in utils.py")
    rows = []
    for z, v in table.items():
        if not (isinstance(z, int) and len(v) == 3 and isinstance(v[2], int)):
            raise Untranslatable(f"unexpected table row {z}: {v}")
        rows.append(f"({z}, {v[2]})")
    parts.append("/-- `_DEFAULT_POWER_RTRANSFORM_PARAMS`: `(atomic number, npt)` in dict order. -/")
    parts.append("def defaultRgridNpt : List (Nat × Nat) :=")
    lines, cur = [], "  ["
    for r in rows:
        if len(cur) + len(r) > 96:
            lines.append(cur.rstrip())
            cur = "   "
        cur += r + ", "
    lines.append(cur.rstrip().rstrip(",") + "]")
    parts += lines
    parts.append("")
    return "\n".join(parts)


def generate():
    text = HEADER.format(name="molgrid", source="src/grid/molgrid.py (MolGrid.from_preset, from_size, from_pruned, _generate_default_rgrid), src/grid/utils.py (_DEFAULT_POWER_RTRANSFORM_PARAMS keys)")
    text += ("import GridVerif.Model.MolGrid\n\nset_option linter.unusedVariables false\n\n"
             "namespace GridVerif.Gen.MolGrid\nopen GridVerif.MolGrid\n\n")
    text += translate()
    text += "\nend GridVerif.Gen.MolGrid\n"
    return write_if_changed("MolGrid.lean", text)


if __name__ == "__main__":
    print(translate())

"""Translator: grid/molgrid.py per-atom argument selection -> Gen/MolGrid.lean.

AST based.  Of the three convenience constructors `MolGrid.from_preset`, `from_size`,
`from_pruned` the following is carried into Lean:

* every `if isinstance(arg, C): tgt = … elif … else: raise TypeError` chain inside the
  per-atom loop (radial grid of all three, preset of `from_preset`) becomes one Lean function
  by pattern matching on `PyArg` (`OneDGrid`/`str` -> `.obj`, `list` -> `.list`, `dict` ->
  `.dict`, `is None` -> `.none`, final `raise TypeError` -> the catch-all).  Inside a branch only
  `name = expr` statements with `expr` among: the argument itself, `arg[i]` (list branch:
  `pyGet`), `arg[key]` (dict branch: `pyLookup`), `atnums[i]`, a loop variable bound by
  `enumerate(atnums)` / `zip(atnums, atcoords)`, `_generate_default_rgrid(e)` are accepted.
  An `else: tgt = arg` (from_size: anything that is not None goes to `AtomGrid(...)`) becomes
  `.obj v => v` and `TypeError` for the rest (AtomGrid accepts a OneDGrid only).
* the loop headers, the argument lists of the `AtomGrid…(…)` calls and of the final
  `cls(…)`, the pre-loop checks / normalisation statements are carried as *text* (`ast.unparse`),
  so that `Props/C07` can pin them (`decide`): the hand model of `Model/MolGrid.lean` was written
  against exactly these call sites.

* round 2: `MolGrid.__init__`, `MolGrid.get_atomic_grid`, `MolGrid.__getitem__` are translated
  *statement by statement* (class `Body` below) into `do` blocks in `Py := Except PyErr` over the
  hand-written list primitives of `Model/MolGrid.lean` (`npZeros`, `npSum`, `pySetItem`,
  `pySetSlice`, `pyForEnum`, `pyGet`, `pySlice`, `mulBroadcast`, `mkLocalGrid`):
  `Gen.MolGrid.init_loop`, `init`, `getAtomicGrid`, `getItem`.  Vocabulary: `self._x = np.zeros(shape
  [, dtype=int])`, `self._x = a if flag else None`, `n = np.sum([g.size for g in gs])`,
  `for i, g in enumerate(gs)` whose body consists of `self._x[i] = e`, `self._x[i] += e`,
  `a, b = e1, e2`, `self._x[a:b] = e`; the `callable(...)` / `isinstance(..., np.ndarray)` / `else:
  raise` dispatch with `if <comparison>: raise` guards; `super().__init__(self.points, a * b)`;
  in the two accessors `if <comparison>: raise X`, `if self._atgrids is [not] None: ... return`,
  `name = expr`, `return self._atgrids[index]`, `return LocalGrid(p, w, c)`; expressions: names,
  `self.attr`, `g.attr`, `x[i]`, `x[a:b]`, `len(x)`, `+` on integers, one comparison.  The
  properties `Grid.points` / `Grid.weights` are checked (in basegrid.py) to be `return self._points`
  / `return self._weights`.

* round 3: the *defaults* of the three classmethod signatures (`fromX_defaults` as text, integer / boolean
  defaults also as typed definitions `fromX_default_<param>`); `MolGrid.interpolate` and its inner
  `interpolate_low` statement by statement (`Gen.MolGrid.interpolate`, `interpolate_low`: the `atgrids is None`
  guard, `func_vals * self.aim_weights` -> `npMul1`, the `range(len(self.atcoords))` loop with its two index
  look-ups, `self[i]` -> the generated `getItem`, `.interpolate(slice)` -> `subInterpolate`, `.append`; the inner
  function as a definition of its own taking the captured list first, its defaults as Lean default arguments,
  `fs[0](...)`, `for f in fs[1:]: output += f(...)` -> `pyForEach` / `npIAdd`); the properties of `MolGrid`
  (`atgrids`, `indices`, `aim_weights`, `atcoords`, `atweights`) are checked to be `return self._<name>`;
  `_generate_default_rgrid` statement by statement (`Gen.MolGrid.generate_default_rgrid`: `in` / `[int(atnum)]` on
  the table, the two unit conversions with `scipy.constants.angstrom` and `scipy.constants.value('atomic unit of
  length')` as the parameters `angstrom`, `bohr`, `UniformInteger(npt)`, `PowerRTransform(rmin,
  rmax).transform_1d_grid(onedgrid)` as given components); every row of `_DEFAULT_POWER_RTRANSFORM_PARAMS`
  (utils.py) with `rmin`, `rmax` as the *exact decimals of the literal text* (`Dec`: mantissa, scale) ->
  `defaultRgridParams`.

Anything else raises `Untranslatable` (treated by the check like a proof obligation that no
longer holds).
"""
import decimal
import ast

from ..common import SRC
from .util import HEADER, write_if_changed


class Untranslatable(Exception):
    pass


def _fail(node, why):
    raise Untranslatable(f"molgrid.py line {getattr(node, 'lineno', '?')}: {why}: {ast.unparse(node)[:140]}")


CLASS_KIND = {"OneDGrid": "obj", "str": "obj", "list": "list", "dict": "dict"}


def _lean_str(s: str) -> str:
    if not s.isascii():
        raise Untranslatable(f"non-ASCII source text: {s[:60]!r}")
    return '"' + s.replace("\\", "\\\\").replace('"', '\\"').replace("\n", "\\n") + '"'


class Chain:
    """One isinstance chain selecting `target` from argument `arg`."""

    def __init__(self, arg, target, env):
        self.arg = arg
        self.target = target
        self.env0 = dict(env)  # python name -> Lean term of type Nat
        self.branches = []  # (ctor, [lean lines])
        self.default = None

    # -- expressions -----------------------------------------------------------
    def nat(self, e, env):
        """Lean term of type Nat (an atomic number)."""
        if isinstance(e, ast.Name) and e.id in env:
            return env[e.id]
        if (isinstance(e, ast.Subscript) and isinstance(e.value, ast.Name) and e.value.id == "atnums"
                and isinstance(e.slice, ast.Name) and e.slice.id == "i"):
            return "(← pyGet atnums i)"
        _fail(e, "unsupported key / atomic-number expression")

    def value(self, e, kind, env):
        if isinstance(e, ast.Name) and e.id == self.arg:
            if kind != "obj":
                _fail(e, f"the {kind} argument itself used as the per-atom value")
            return "v"
        if isinstance(e, ast.Subscript) and isinstance(e.value, ast.Name) and e.value.id == self.arg:
            if kind == "list":
                if not (isinstance(e.slice, ast.Name) and e.slice.id == "i"):
                    _fail(e, "list argument not indexed by the loop counter i")
                return "(← pyGet v i)"
            if kind == "dict":
                return f"(← pyLookup v {self.nat(e.slice, env)})"
            _fail(e, f"subscript of a {kind} argument")
        if (isinstance(e, ast.Call) and isinstance(e.func, ast.Name) and e.func.id == "_generate_default_rgrid"
                and len(e.args) == 1 and not e.keywords):
            return f"(← generate_default_rgrid {self.nat(e.args[0], env)})"
        _fail(e, "unsupported value expression")

    def body(self, stmts, kind):
        env = dict(self.env0)
        lines = []
        for k, s in enumerate(stmts):
            if not (isinstance(s, ast.Assign) and len(s.targets) == 1 and isinstance(s.targets[0], ast.Name)):
                _fail(s, "only `name = expr` is supported inside a selection branch")
            name = s.targets[0].id
            if name == self.target:
                if k != len(stmts) - 1:
                    _fail(s, "statements after the selection")
                lines.append(f"pure {self.value(s.value, kind, env)}")
                return lines
            lines.append(f"let {name} ← (pure {self.nat(s.value, env)} : Py Nat)")
            env[name] = name
        _fail(stmts[-1], f"branch does not assign {self.target}")

    # -- the chain ---------------------------------------------------------------
    def test(self, t):
        if (isinstance(t, ast.Call) and isinstance(t.func, ast.Name) and t.func.id == "isinstance"
                and len(t.args) == 2 and isinstance(t.args[0], ast.Name) and t.args[0].id == self.arg
                and isinstance(t.args[1], ast.Name) and t.args[1].id in CLASS_KIND):
            return CLASS_KIND[t.args[1].id]
        if (isinstance(t, ast.Compare) and isinstance(t.left, ast.Name) and t.left.id == self.arg
                and len(t.ops) == 1 and isinstance(t.ops[0], ast.Is)
                and isinstance(t.comparators[0], ast.Constant) and t.comparators[0].value is None):
            return "none"
        _fail(t, "unsupported branch test")

    def walk(self, node):
        if not isinstance(node, ast.If):
            _fail(node, "not an if-chain")
        kind = self.test(node.test)
        if kind in [k for k, _ in self.branches]:
            _fail(node.test, f"second branch for {kind}")
        self.branches.append((kind, self.body(node.body, kind)))
        oe = node.orelse
        if len(oe) == 1 and isinstance(oe[0], ast.If):
            return self.walk(oe[0])
        if (len(oe) == 1 and isinstance(oe[0], ast.Raise) and isinstance(oe[0].exc, ast.Call)
                and isinstance(oe[0].exc.func, ast.Name) and oe[0].exc.func.id == "TypeError"):
            self.default = "typeError  -- else: raise TypeError"
            return
        if (len(oe) == 1 and isinstance(oe[0], ast.Assign) and len(oe[0].targets) == 1
                and isinstance(oe[0].targets[0], ast.Name) and oe[0].targets[0].id == self.target
                and isinstance(oe[0].value, ast.Name) and oe[0].value.id == self.arg):
            if "obj" in [k for k, _ in self.branches]:
                _fail(oe[0], "pass-through else after an explicit class branch")
            self.branches.append(("obj", ["pure v  -- else: handed to AtomGrid(...) as it is"]))
            self.default = "typeError  -- AtomGrid(...) accepts a OneDGrid only"
            return
        _fail(node, "chain must end in `else: raise TypeError(...)` or `else: target = arg`")

    def lean(self, name, doc, params):
        out = [f"/-- {doc} -/", f"def {name} {{α : Type}} (generate_default_rgrid : Nat → Py α) "
               f"({self.arg} : PyArg α) {params} : Py α :=", f"  match {self.arg} with"]
        for kind, lines in self.branches:
            pat = ".none" if kind == "none" else f".{kind} v"
            out.append(f"  | {pat} => do")
            out += ["    " + ln for ln in lines]
        out.append(f"  | _ => throw PyErr.{self.default}")
        return out


def _classmethod(tree, name):
    for c in tree.body:
        if isinstance(c, ast.ClassDef) and c.name == "MolGrid":
            for f in c.body:
                if isinstance(f, ast.FunctionDef) and f.name == name:
                    return f
    raise Untranslatable(f"MolGrid.{name} not found in molgrid.py")


def _strip_doc(body):
    if body and isinstance(body[0], ast.Expr) and isinstance(body[0].value, ast.Constant) and isinstance(body[0].value.value, str):
        return body[1:]
    return body


def _call_args(call):
    if any(isinstance(a, ast.Starred) for a in call.args) or any(k.arg is None for k in call.keywords):
        _fail(call, "star arguments")
    items = [("func", ast.unparse(call.func))]
    items += [(str(k), ast.unparse(a)) for k, a in enumerate(call.args)]
    items += [(k.arg, ast.unparse(k.value)) for k in call.keywords]
    return items


def _pairs(name, doc, items):
    body = ",\n   ".join(f"({_lean_str(a)}, {_lean_str(b)})" for a, b in items)
    return [f"/-- {doc} -/", f"def {name} : List (String × String) :=", f"  [{body}]", ""]


def _strs(name, doc, items):
    body = ",\n   ".join(_lean_str(a) for a in items)
    return [f"/-- {doc} -/", f"def {name} : List String :=", f"  [{body}]", ""]


def _unparse_short(s):
    """Statement text with the message of a `raise X("…")` dropped (messages are not semantics)."""
    if isinstance(s, ast.If):
        head = f"if {ast.unparse(s.test)}: " + "; ".join(_unparse_short(b) for b in s.body)
        if s.orelse:
            head += " else: " + "; ".join(_unparse_short(b) for b in s.orelse)
        return head
    if isinstance(s, ast.Raise) and isinstance(s.exc, ast.Call) and isinstance(s.exc.func, ast.Name):
        return f"raise {s.exc.func.id}"
    return ast.unparse(s)


def _defaults(f, fname, lean_prefix):
    """The defaults of a signature: as text, and typed for integer / boolean literals."""
    a = f.args
    if a.vararg or a.kwarg or a.posonlyargs:
        _fail(f, "unsupported signature")
    pos = a.args[len(a.args) - len(a.defaults):]
    pairs = list(zip(pos, a.defaults)) + [(p, d) for p, d in zip(a.kwonlyargs, a.kw_defaults) if d is not None]
    if len([d for d in a.kw_defaults if d is None]):
        _fail(f, "keyword-only parameter without default")
    out = _pairs(f"{lean_prefix}_defaults", f"`MolGrid.{fname}`: the defaults of the signature, `(parameter, default text)`.",
                 [(p.arg, ast.unparse(d)) for p, d in pairs])
    for p, d in pairs:
        if isinstance(d, ast.Constant) and type(d.value) is bool:
            out += [f"/-- `MolGrid.{fname}`: default of `{p.arg}`. -/",
                    f"def {lean_prefix}_default_{_lname(p.arg)} : Bool := {'true' if d.value else 'false'}", ""]
        elif isinstance(d, ast.Constant) and type(d.value) is int and d.value >= 0:
            out += [f"/-- `MolGrid.{fname}`: default of `{p.arg}`. -/",
                    f"def {lean_prefix}_default_{_lname(p.arg)} : Nat := {d.value}", ""]
        elif isinstance(d, ast.Constant) and d.value is None:
            pass
        else:
            _fail(d, f"unsupported default of {p.arg}")
    return out



def _aim_test(t):
    """a test on `aim_weights` -> Lean Bool term"""
    if isinstance(t, ast.Compare) and isinstance(t.left, ast.Name) and t.left.id == "aim_weights" and len(t.ops) == 1 \
            and isinstance(t.comparators[0], ast.Constant) and t.comparators[0].value is None and isinstance(t.ops[0], (ast.Is, ast.IsNot)):
        return "pyIsNone aim_weights" if isinstance(t.ops[0], ast.Is) else "!(pyIsNone aim_weights)"
    if isinstance(t, ast.Call) and isinstance(t.func, ast.Name) and len(t.args) >= 1 and isinstance(t.args[0], ast.Name) and t.args[0].id == "aim_weights" and not t.keywords:
        if t.func.id == "callable" and len(t.args) == 1:
            return "pyAimCallable aim_weights"
        if t.func.id == "isinstance" and len(t.args) == 2 and ast.unparse(t.args[1]) == "np.ndarray":
            return "pyAimIsArray aim_weights"
    if isinstance(t, ast.UnaryOp) and isinstance(t.op, ast.Not):
        return f"!({_aim_test(t.operand)})"
    if isinstance(t, ast.BoolOp):
        op = " && " if isinstance(t.op, ast.And) else " || "
        return "(" + op.join(_aim_test(v) for v in t.values) + ")"
    _fail(t, "unsupported test on aim_weights")


def _aim_default(pre, fname, lean_prefix):
    """round 6: the statements of the prelude that (re)bind `aim_weights`, as a definition: which object reaches `cls(...)`"""
    hits = [s for s in pre if any(isinstance(n, ast.Name) and n.id == "aim_weights" and isinstance(n.ctx, ast.Store) for n in ast.walk(s))]
    lines, order = [], None
    expr = "pyAimKeep aim_weights"
    if len(hits) > 1:
        _fail(hits[1], "aim_weights is re-bound more than once before the loop")
    if hits:
        s = hits[0]
        if not (isinstance(s, ast.If) and not s.orelse and len(s.body) == 1 and isinstance(s.body[0], ast.Assign) and len(s.body[0].targets) == 1
                and isinstance(s.body[0].targets[0], ast.Name) and s.body[0].targets[0].id == "aim_weights"):
            _fail(s, "unsupported re-binding of aim_weights")
        v = s.body[0].value
        if not (isinstance(v, ast.Call) and isinstance(v.func, ast.Name) and v.func.id == "BeckeWeights" and not v.args and len(v.keywords) == 1
                and v.keywords[0].arg == "order" and isinstance(v.keywords[0].value, ast.Constant) and type(v.keywords[0].value.value) is int):
            _fail(v, "the default aim weights are not BeckeWeights(order=<int>)")
        order = v.keywords[0].value.value
        lines.append(f"  -- if {ast.unparse(s.test)}: aim_weights = {ast.unparse(v)}")
        expr = f"if {_aim_test(s.test)} then becke {order} else pyAimKeep aim_weights"
    return [f"/-- `MolGrid.{fname}`: the aim weights that reach `cls(atnums, <grids>, aim_weights, store=store)`; `becke k` is",
            "`BeckeWeights(order=k)`, `none` the argument `None`. -/",
            f"def {lean_prefix}_aim {{P K : Type}} (becke : Nat → AimArg P K) (aim_weights : Option (AimArg P K)) : AimArg P K :="] + lines + ["  " + expr, ""]


def _one_method(tree, fname, lean_prefix):
    """-> (lean lines) for one constructor."""
    f = _classmethod(tree, fname)
    body = _strip_doc(f.body)
    loops = [s for s in body if isinstance(s, ast.For)]
    if len(loops) != 1:
        raise Untranslatable(f"MolGrid.{fname}: expected exactly one per-atom loop, found {len(loops)}")
    loop = loops[0]
    k = body.index(loop)
    pre, post = body[:k], body[k + 1:]
    out = []
    sig = [a.arg for a in f.args.args] + ["*"] * bool(f.args.kwonlyargs) + [a.arg for a in f.args.kwonlyargs]
    out += _strs(f"{lean_prefix}_signature", f"`MolGrid.{fname}`: parameter names in order (`*` = keyword-only from here).", sig)
    out += _defaults(f, fname, lean_prefix)
    out += _strs(f"{lean_prefix}_prelude", f"`MolGrid.{fname}`: the statements before the per-atom loop (exception messages dropped).",
                 [_unparse_short(s) for s in pre])
    out += _aim_default(pre, fname, lean_prefix)
    out += _strs(f"{lean_prefix}_loop", f"`MolGrid.{fname}`: the loop header `for <target> in <iter>`.",
                 [ast.unparse(loop.target), ast.unparse(loop.iter)])
    # environment of loop variables usable as atomic numbers
    env = {}
    header = (ast.unparse(loop.target), ast.unparse(loop.iter))
    if header == ("i", "range(total_atm)"):
        if "total_atm = len(atnums)" not in [ast.unparse(s) for s in pre]:
            _fail(loop, "range(total_atm) without total_atm = len(atnums)")
        mode = "index"
    elif header == ("(i, atnum)", "enumerate(atnums)"):
        env["atnum"] = "(← pyGet atnums i)"
        mode = "index"
    elif header == ("(atnum, atcoord)", "zip(atnums, atcoords)"):
        env["atnum"] = "atnum"
        mode = "zip"
    else:
        _fail(loop, "unsupported per-atom loop header")
    params = "(atnums : List Nat) (i : Nat)" if mode == "index" else "(atnum : Nat)"
    # loop body: chains, then exactly one AtomGrid call (assigned and appended, or appended)
    calls, appended = [], []
    for s in loop.body:
        if isinstance(s, ast.If):
            # which argument / target?
            first = s.test
            arg = None
            for n in ast.walk(first):
                if isinstance(n, ast.Name) and n.id in ("rgrid", "preset"):
                    arg = n.id
                    break
            if arg is None:
                _fail(s, "selection chain on an unknown argument")
            tgt = None
            for n in ast.walk(s):
                if isinstance(n, ast.Assign) and isinstance(n.targets[0], ast.Name) and n.targets[0].id not in ("atnum",):
                    tgt = n.targets[0].id
                    break
            ch = Chain(arg, tgt, env)
            ch.walk(s)
            out += ch.lean(f"{lean_prefix}_{tgt}",
                           f"`MolGrid.{fname}`, line {s.lineno}: selection of `{tgt}` from `{arg}` for one atom.", params)
            out.append("")
            continue
        call = None
        if isinstance(s, ast.Assign) and isinstance(s.value, ast.Call):
            call = s.value
            calls.append((ast.unparse(s.targets[0]), call))
            continue
        if (isinstance(s, ast.Expr) and isinstance(s.value, ast.Call) and isinstance(s.value.func, ast.Attribute)
                and s.value.func.attr == "append" and len(s.value.args) == 1):
            a = s.value.args[0]
            lst = ast.unparse(s.value.func.value)
            if isinstance(a, ast.Call):
                calls.append((None, a))
                appended.append(lst)
            elif isinstance(a, ast.Name) and calls and calls[-1][0] == a.id:
                appended.append(lst)
            else:
                _fail(s, "unsupported append")
            continue
        _fail(s, "unsupported statement in the per-atom loop")
    if len(calls) != 1 or len(appended) != 1:
        _fail(loop, "expected exactly one AtomGrid construction appended per atom")
    out += _pairs(f"{lean_prefix}_call", f"`MolGrid.{fname}`: the per-atom `AtomGrid` construction, `(keyword-or-position, argument text)`.",
                  _call_args(calls[0][1]))
    # after the loop: return cls(atnums, <the list>, aim_weights, store=store)
    if not (len(post) == 1 and isinstance(post[0], ast.Return) and isinstance(post[0].value, ast.Call)):
        _fail(post[0] if post else loop, "expected `return cls(...)` right after the loop")
    ret = _call_args(post[0].value)
    ret = [(k, "<per-atom list>" if v == appended[0] else v) for k, v in ret]
    out += _pairs(f"{lean_prefix}_return", f"`MolGrid.{fname}`: the final constructor call.", ret)
    return out


# ==========================================================================================
# round 2: statement-by-statement translation of __init__, get_atomic_grid, __getitem__
# ==========================================================================================
LEAN_KEYWORDS = {
    "end", "from", "at", "in", "do", "then", "else", "if", "fun", "let", "have", "show", "with", "match", "open",
    "section", "namespace", "where", "instance", "structure", "def", "theorem", "import", "prefix", "local", "private",
    "protected", "mutual", "by", "calc", "deriving", "class", "universe", "variable", "example", "axiom", "abbrev",
    "inductive", "Type", "Prop", "Sort", "for", "unless", "return", "try", "catch", "finally", "mut", "nomatch", "nofun",
    "using", "export", "extends", "noncomputable", "partial", "unsafe", "opaque", "macro", "syntax", "notation", "infix",
    "infixl", "infixr", "postfix", "elab", "omit", "include", "public", "meta", "module", "this", "self_", "suffices",
    "obtain", "true", "false", "some", "none", "pure", "throw", "bind",
}

# element kind of each array kind
ELEM = {"listP": "point", "listK": "scalar", "listNat": "nat", "atgrids": "atgrid"}
LEAN_TYPE = {"listP": "List P", "listK": "List K", "listNat": "List Nat"}
ATGRID_ATTR = {"center": "point", "size": "nat", "points": "listP", "weights": "listK"}
CMP = {ast.Lt: "<", ast.LtE: "≤", ast.Gt: ">", ast.GtE: "≥", ast.Eq: "=", ast.NotEq: "≠"}
EXC = {"ValueError": "valueError", "TypeError": "typeError", "IndexError": "indexError", "KeyError": "keyError"}
# attribute of a constructed MolGrid -> field of the Lean structure `MolGrid P K`, kind
FIELDS = {
    "_points": ("points", "listP"), "_weights": ("weights", "listK"), "_atweights": ("atweights", "listK"),
    "_aim_weights": ("aimWeights", "listK"), "_atcoords": ("atcoords", "listP"), "_indices": ("indices", "listNat"),
    "_atgrids": ("atgrids", "optAtgrids"),
}
GRID_PROPERTIES = {"points": "_points", "weights": "_weights"}  # checked against basegrid.py


def _lname(n):
    if not (n.isascii() and n.isidentifier()):
        raise Untranslatable(f"identifier {n!r}")
    return n + "_" if n in LEAN_KEYWORDS else n


def _comment(node):
    txt = ast.unparse(node).splitlines()[0]
    if not txt.isascii():
        raise Untranslatable(f"non-ASCII source text: {txt[:60]!r}")
    return "-- " + txt[:150]


def _check_grid_properties():
    """`self.points` / `self.weights` are read as `self._points` / `self._weights`: check the properties of Grid."""
    tree = ast.parse((SRC / "basegrid.py").read_text())
    grid = [c for c in tree.body if isinstance(c, ast.ClassDef) and c.name == "Grid"]
    if len(grid) != 1:
        raise Untranslatable("class Grid not found in basegrid.py")
    seen = {}
    for f in grid[0].body:
        if isinstance(f, ast.FunctionDef) and f.name in GRID_PROPERTIES and any(
                isinstance(d, ast.Name) and d.id == "property" for d in f.decorator_list):
            seen[f.name] = [ast.unparse(x) for x in _strip_doc(f.body)]
    for name, attr in GRID_PROPERTIES.items():
        if seen.get(name) != [f"return self.{attr}"]:
            raise Untranslatable(f"Grid.{name} is not `return self.{attr}`: {seen.get(name)}")
    # a subclass override in MolGrid would change the meaning as well
    mtree = ast.parse((SRC / "molgrid.py").read_text())
    for c in mtree.body:
        if isinstance(c, ast.ClassDef) and c.name == "MolGrid":
            if [ast.unparse(b) for b in c.bases] != ["Grid"]:
                raise Untranslatable(f"MolGrid bases: {[ast.unparse(b) for b in c.bases]}")
            for f in c.body:
                if isinstance(f, ast.FunctionDef) and f.name in ("points", "weights", "size", "__getattr__", "__getattribute__", "__setattr__"):
                    raise Untranslatable(f"MolGrid overrides {f.name}")


class Body:
    """Translation of one method body.  `vars`: python name -> (lean term, kind);  `selfmap`: `self.<attr>` -> (lean, kind)."""

    def __init__(self, fname, constructed):
        self.fname = fname
        self.constructed = constructed  # True: `self` is a finished MolGrid (accessors); False: __init__
        self.vars = {}
        self.selfvars = {}  # __init__ only: attribute -> (lean, kind)
        self.stored = None  # accessors: lean name bound to the stored list inside `is not None` branch, or "NONE"

    # -- expressions -----------------------------------------------------------------------
    def selfattr(self, node, attr):
        attr = GRID_PROPERTIES.get(attr, attr)
        if self.constructed:
            if attr == "_atgrids":
                if self.stored is None:
                    _fail(node, "self._atgrids used outside an `is None` / `is not None` branch")
                if self.stored == "NONE":
                    _fail(node, "self._atgrids used where it is None")
                return self.stored, "atgrids"
            if attr not in FIELDS:
                _fail(node, "unknown attribute of MolGrid")
            fld, kind = FIELDS[attr]
            return f"self.{fld}", kind
        if attr not in self.selfvars:
            _fail(node, "attribute read before it is assigned in __init__")
        return self.selfvars[attr]

    def index(self, e):
        """Lean term of type Int for an index expression."""
        if isinstance(e, ast.Name) and e.id in self.vars:
            t, k = self.vars[e.id]
            if k == "nat":
                return f"({t} : Int)"
            if k == "int":
                return t
        if isinstance(e, ast.Constant) and type(e.value) is int and e.value >= 0:
            return str(e.value)
        if isinstance(e, ast.BinOp) and isinstance(e.op, ast.Add) and isinstance(e.right, ast.Constant) \
                and type(e.right.value) is int and e.right.value >= 0:
            return f"({self.index(e.left)} + {e.right.value})"
        _fail(e, "unsupported index expression")

    def expr(self, e):
        """-> (lean term, kind)"""
        if isinstance(e, ast.Name):
            if e.id in self.vars:
                return self.vars[e.id]
            _fail(e, "unknown name")
        if isinstance(e, ast.Attribute) and isinstance(e.value, ast.Name):
            if e.value.id == "self":
                return self.selfattr(e, e.attr)
            if e.value.id in self.vars:
                t, k = self.vars[e.value.id]
                if k == "atgrid" and e.attr in ATGRID_ATTR:
                    return f"{t}.{e.attr}", ATGRID_ATTR[e.attr]
                if k == "aimArray" and e.attr == "size":
                    return f"{t}.length", "nat"
            _fail(e, "unsupported attribute")
        if isinstance(e, ast.Subscript):
            c, k = self.expr(e.value)
            if k not in ELEM:
                _fail(e, f"subscript of a value of kind {k}")
            if isinstance(e.slice, ast.Slice):
                sl = e.slice
                if sl.step is not None or sl.lower is None or sl.upper is None or k == "atgrids":
                    _fail(e, "only x[a:b] with both bounds on arrays")
                a, ka = self.expr(sl.lower)
                b, kb = self.expr(sl.upper)
                if (ka, kb) != ("nat", "nat"):
                    _fail(e, "slice bounds must be non-negative integers (entries of the index table)")
                return f"(pySlice {c} {a} {b})", k
            return f"(← pyGet {c} {self.index(e.slice)})", ELEM[k]
        if isinstance(e, ast.BinOp) and isinstance(e.op, ast.Add):
            def operand(x):
                if isinstance(x, ast.Constant) and type(x.value) is int and x.value >= 0:
                    return str(x.value), "nat"
                return self.expr(x)
            a, ka = operand(e.left)
            b, kb = operand(e.right)
            if (ka, kb) == ("nat", "nat"):
                return f"({a} + {b})", "nat"
            _fail(e, f"`+` on kinds {ka}, {kb}")
        if isinstance(e, ast.Call) and isinstance(e.func, ast.Name) and e.func.id == "len" and len(e.args) == 1 and not e.keywords:
            a, k = self.expr(e.args[0])
            if k in ELEM:
                return f"{a}.length", "nat"
            _fail(e, f"len of kind {k}")
        if isinstance(e, ast.IfExp) and isinstance(e.orelse, ast.Constant) and e.orelse.value is None:
            t, kt = self.expr(e.test)
            v, kv = self.expr(e.body)
            if kt == "bool" and kv == "atgrids":
                return f"(if {t} then some {v} else none)", "optAtgrids"
            _fail(e, f"`x if flag else None` on kinds {kv}, {kt}")
        _fail(e, "unsupported expression")

    def compare(self, t):
        """-> Lean proposition (decidable)"""
        if not (isinstance(t, ast.Compare) and len(t.ops) == 1 and type(t.ops[0]) in CMP):
            _fail(t, "unsupported test")
        op = CMP[type(t.ops[0])]
        l, r = t.left, t.comparators[0]

        def side(x):
            if isinstance(x, ast.Constant) and type(x.value) is int and x.value >= 0:
                return str(x.value), "const"
            return self.expr(x)
        (a, ka), (b, kb) = side(l), side(r)
        kinds = {ka, kb}
        if kinds <= {"int", "const"} and "int" in kinds:
            return f"{a} {op} {b}"
        conv = {"nat": lambda x: x, "npnum": lambda x: f"{x}.toNat", "const": lambda x: x}
        if kinds <= set(conv) and kinds != {"const"}:
            return f"{conv[ka](a)} {op} {conv[kb](b)}"
        _fail(t, f"comparison of kinds {ka}, {kb}")

    def raises(self, s):
        if (isinstance(s, ast.Raise) and s.cause is None and isinstance(s.exc, ast.Call)
                and isinstance(s.exc.func, ast.Name) and s.exc.func.id in EXC):
            return f"throw PyErr.{EXC[s.exc.func.id]}"
        _fail(s, "unsupported raise")

    def guard(self, s):
        """`if <comparison>: raise X` -> lines"""
        if not (isinstance(s, ast.If) and not s.orelse and len(s.body) == 1 and isinstance(s.body[0], ast.Raise)):
            _fail(s, "expected `if <comparison>: raise X`")
        return [f"-- if {ast.unparse(s.test)}: raise {s.body[0].exc.func.id if isinstance(s.body[0].exc, ast.Call) and isinstance(s.body[0].exc.func, ast.Name) else '?'}",
                f"if {self.compare(s.test)} then {self.raises(s.body[0])}"]


def _method(tree, name):
    return _classmethod(tree, name)


# ------------------------------------------------------------------------------------------
def _translate_init(tree):
    f = _method(tree, "__init__")
    params = [a.arg for a in f.args.args]
    if params != ["self", "atnums", "atgrids", "aim_weights", "store"] or f.args.kwonlyargs or f.args.vararg or f.args.kwarg:
        _fail(f, "unexpected signature of MolGrid.__init__")
    if [ast.unparse(d) for d in f.args.defaults] != ["False"]:
        _fail(f, "unexpected defaults of MolGrid.__init__")
    B = Body("__init__", constructed=False)
    B.vars = {"atnums": ("atnums", "listNat"), "atgrids": ("atgrids", "atgrids"),
              "aim_weights": ("aim_weights", "aim"), "store": ("store", "bool")}
    body = _strip_doc(f.body)
    out = []        # lines of `init`
    loop_def = None
    seen_loop = seen_aim = seen_super = False
    final = {}
    needs = set()      # round 6: further instances the generated `init` needs (order / NatCast), only when the source uses them

    def zeros(call):
        """np.zeros(shape[, dtype=int]) -> (lean, kind)"""
        if not (isinstance(call, ast.Call) and ast.unparse(call.func) == "np.zeros" and len(call.args) == 1):
            return None
        kw = {k.arg: ast.unparse(k.value) for k in call.keywords}
        shape = call.args[0]
        if isinstance(shape, ast.Tuple):
            if not (len(shape.elts) == 2 and isinstance(shape.elts[1], ast.Constant) and shape.elts[1].value == 3 and not kw):
                _fail(call, "only np.zeros((n, 3))")
            n, kind, zero = shape.elts[0], "listP", "zeroRow"
        elif kw == {"dtype": "int"}:
            n, kind, zero = shape, "listNat", "(0 : Nat)"
        elif not kw:
            n, kind, zero = shape, "listK", "((0 : Nat) : K)"
        else:
            _fail(call, "unsupported np.zeros keywords")
        t, k = B.expr(n)
        if k == "nat":
            t = f"(NpNum.int {t})"
        elif k != "npnum":
            _fail(call, f"shape of kind {k}")
        return f"npZeros {t} {zero}", kind

    for s in body:
        if seen_super:
            _fail(s, "statement after super().__init__(...)")
        # ---- round 6: self._aim_weights = np.clip / np.maximum / np.minimum(self._aim_weights, <literals>) after the dispatch (carried, so that the
        #      theorems about the weights see it)
        if (seen_aim and isinstance(s, ast.Assign) and len(s.targets) == 1 and ast.unparse(s.targets[0]) == "self._aim_weights"
                and isinstance(s.value, ast.Call) and ast.unparse(s.value.func) in ("np.clip", "np.maximum", "np.minimum") and not s.value.keywords
                and s.value.args and ast.unparse(s.value.args[0]) == "self._aim_weights"):
            fn = ast.unparse(s.value.func)

            def lit(x):
                if isinstance(x, ast.Constant) and type(x.value) in (int, float) and x.value >= 0 and float(x.value).is_integer():
                    needs.add("NatCast")
                    return f"(({int(x.value)} : Nat) : K)"
                _fail(x, "unsupported bound (only non-negative integer-valued literals)")
            nargs = {"np.clip": 2, "np.maximum": 1, "np.minimum": 1}[fn]
            if len(s.value.args) != 1 + nargs:
                _fail(s, "unsupported call")
            needs.update({"np.clip": ("Max", "Min"), "np.maximum": ("Max",), "np.minimum": ("Min",)}[fn])
            out.append(_comment(s))
            out.append(f"let _aim_weights := {fn.replace('np.', 'np').replace('npc', 'npC').replace('npm', 'npM')} _aim_weights " + " ".join(lit(a) for a in s.value.args[1:]))
            continue
        # ---- self._x = ...
        if (isinstance(s, ast.Assign) and len(s.targets) == 1 and isinstance(s.targets[0], ast.Attribute)
                and isinstance(s.targets[0].value, ast.Name) and s.targets[0].value.id == "self"):
            attr = s.targets[0].attr
            if seen_loop or attr not in FIELDS or attr == "_weights" or attr in B.selfvars:
                _fail(s, "unsupported attribute assignment")
            z = zeros(s.value)
            out.append(_comment(s))
            if z is not None:
                if FIELDS[attr][1] != z[1]:
                    _fail(s, f"{attr} initialised as {z[1]}")
                out.append(f"let {attr} ← {z[0]}")
                B.selfvars[attr] = (attr, z[1])
            else:
                t, k = B.expr(s.value)
                if k != FIELDS[attr][1]:
                    _fail(s, f"{attr} assigned a value of kind {k}")
                out.append(f"let {attr} := {t}")
                B.selfvars[attr] = (attr, k)
            continue
        # ---- n = np.sum([g.size for g in gs])
        if (isinstance(s, ast.Assign) and len(s.targets) == 1 and isinstance(s.targets[0], ast.Name)):
            name, v = s.targets[0].id, s.value
            if (seen_loop or name in B.vars or not (isinstance(v, ast.Call) and ast.unparse(v.func) == "np.sum" and len(v.args) == 1 and not v.keywords
                    and isinstance(v.args[0], ast.ListComp) and len(v.args[0].generators) == 1)):
                _fail(s, "unsupported assignment")
            g = v.args[0].generators[0]
            if g.ifs or g.is_async or not isinstance(g.target, ast.Name):
                _fail(s, "unsupported comprehension")
            it, kit = B.expr(g.iter)
            if kit != "atgrids":
                _fail(s, "comprehension over something else than the atomic grids")
            gv = _lname(g.target.id)
            saved = dict(B.vars)
            B.vars[g.target.id] = (gv, "atgrid")
            elt, ke = B.expr(v.args[0].elt)
            B.vars = saved
            if ke != "nat":
                _fail(s, "np.sum of non-integers")
            out.append(_comment(s))
            out.append(f"let {_lname(name)} := npSum ({it}.map fun {gv} => {elt})")
            B.vars[name] = (_lname(name), "npnum")
            continue
        # ---- the loop
        if isinstance(s, ast.For):
            if seen_loop or s.orelse or not (isinstance(s.target, ast.Tuple) and len(s.target.elts) == 2
                    and all(isinstance(x, ast.Name) for x in s.target.elts)
                    and isinstance(s.iter, ast.Call) and isinstance(s.iter.func, ast.Name) and s.iter.func.id == "enumerate"
                    and len(s.iter.args) == 1 and not s.iter.keywords):
                _fail(s, "unsupported loop")
            it, kit = B.expr(s.iter.args[0])
            if kit != "atgrids":
                _fail(s, "loop over something else than the atomic grids")
            iv, gv = (_lname(x.id) for x in s.target.elts)
            L = Body("__init__/loop", constructed=False)
            L.vars = dict(B.vars)
            L.vars[s.target.elts[0].id] = (iv, "nat")
            L.vars[s.target.elts[1].id] = (gv, "atgrid")
            L.selfvars = dict(B.selfvars)
            mutated, lines = [], []

            def target_attr(t):
                if (isinstance(t, ast.Subscript) and isinstance(t.value, ast.Attribute) and isinstance(t.value.value, ast.Name)
                        and t.value.value.id == "self" and t.value.attr in L.selfvars and L.selfvars[t.value.attr][1] in LEAN_TYPE):
                    a = t.value.attr
                    if a not in mutated:
                        mutated.append(a)
                    return a
                _fail(t, "unsupported assignment target in the loop")

            for b in s.body:
                lines.append(_comment(b))
                if isinstance(b, ast.Assign) and len(b.targets) == 1 and isinstance(b.targets[0], ast.Subscript):
                    t = b.targets[0]
                    a = target_attr(t)
                    kind = L.selfvars[a][1]
                    v, kv = L.expr(b.value)
                    if isinstance(t.slice, ast.Slice):
                        if t.slice.step is not None or t.slice.lower is None or t.slice.upper is None:
                            _fail(b, "only x[a:b] = v")
                        lo, klo = L.expr(t.slice.lower)
                        hi, khi = L.expr(t.slice.upper)
                        if (klo, khi) != ("nat", "nat") or kv != kind:
                            _fail(b, f"slice assignment of kind {kv} into {kind} with bounds {klo}, {khi}")
                        lines.append(f"let {a} ← pySetSlice {a} {lo} {hi} {v}")
                    else:
                        if kv != ELEM[kind]:
                            _fail(b, f"item assignment of kind {kv} into {kind}")
                        lines.append(f"let {a} ← pySetItem {a} {L.index(t.slice)} {v}")
                    continue
                if isinstance(b, ast.AugAssign) and isinstance(b.op, ast.Add) and isinstance(b.target, ast.Subscript) \
                        and not isinstance(b.target.slice, ast.Slice):
                    a = target_attr(b.target)
                    if L.selfvars[a][1] != "listNat":
                        _fail(b, "`+=` on a non-integer array")
                    ix = L.index(b.target.slice)
                    v, kv = L.expr(b.value)
                    if kv != "nat":
                        _fail(b, f"`+=` of kind {kv}")
                    # Python: load the item, evaluate the right-hand side, add, store
                    lines.append(f"let {a} ← pySetItem {a} {ix} ((← pyGet {a} {ix}) + {v})")
                    continue
                if (isinstance(b, ast.Assign) and len(b.targets) == 1 and isinstance(b.targets[0], ast.Tuple)
                        and isinstance(b.value, ast.Tuple) and len(b.value.elts) == len(b.targets[0].elts)
                        and all(isinstance(x, ast.Name) for x in b.targets[0].elts)):
                    names = [x.id for x in b.targets[0].elts]
                    used = {n.id for v in b.value.elts for n in ast.walk(v) if isinstance(n, ast.Name)}
                    if set(names) & used or len(set(names)) != len(names) or set(names) & set(L.vars):
                        _fail(b, "tuple assignment reusing names")
                    vals = [L.expr(v) for v in b.value.elts]
                    for n, (v, kv) in zip(names, vals):
                        if kv != "nat":
                            _fail(b, f"local of kind {kv}")
                        lines.append(f"let {_lname(n)} := {v}")
                    for n in names:
                        L.vars[n] = (_lname(n), "nat")
                    continue
                _fail(b, "unsupported statement in the loop of __init__")
            if not mutated:
                _fail(s, "loop without effect")
            sig = " ".join(f"({a} : {LEAN_TYPE[B.selfvars[a][1]]})" for a in mutated)
            ret = " × ".join(LEAN_TYPE[B.selfvars[a][1]] for a in mutated)
            loop_def = [f"/-- `MolGrid.__init__`, line {s.lineno}: the body of `for {ast.unparse(s.target)} in {ast.unparse(s.iter)}`; the arrays it",
                        "updates are passed in and handed back. -/",
                        f"def init_loop {{P K : Type}} ({iv} : Nat) ({gv} : AtGrid P K) {sig} :",
                        f"    Py ({ret}) := do"]
            loop_def += ["  " + ln for ln in lines]
            loop_def += ["  pure (" + ", ".join(mutated) + ")", ""]
            proj = ["st" + ".2" * k + (".1" if k < len(mutated) - 1 else "") for k in range(len(mutated))]
            if len(mutated) == 1:
                proj = ["st"]
            out.append(f"-- for {ast.unparse(s.target)} in {ast.unparse(s.iter)}: ...")
            out.append(f"let st ← pyForEnum (fun st {iv} {gv} => init_loop {iv} {gv} " + " ".join(proj) + f") 0 {it} (" + ", ".join(mutated) + ")")
            for a, pr in zip(mutated, proj):
                out.append(f"let {a} := {pr}")
            seen_loop = True
            continue
        # ---- aim-weights dispatch
        if isinstance(s, ast.If):
            if not seen_loop or seen_aim:
                _fail(s, "unexpected if statement")
            arms, node, target = [], s, None
            while True:
                t = node.test
                if (isinstance(t, ast.Call) and isinstance(t.func, ast.Name) and t.func.id == "callable" and len(t.args) == 1
                        and isinstance(t.args[0], ast.Name) and B.vars.get(t.args[0].id, (0, 0))[1] == "aim"):
                    ctor, kind = "callable", "aimCallable"
                elif (isinstance(t, ast.Call) and isinstance(t.func, ast.Name) and t.func.id == "isinstance" and len(t.args) == 2
                        and isinstance(t.args[0], ast.Name) and B.vars.get(t.args[0].id, (0, 0))[1] == "aim"
                        and ast.unparse(t.args[1]) == "np.ndarray"):
                    ctor, kind = "array", "aimArray"
                else:
                    _fail(t, "unsupported test in the aim-weights dispatch")
                if ctor in [a[0] for a in arms]:
                    _fail(t, "second branch for the same kind of aim weights")
                if ctor == "array" and "callable" not in [a[0] for a in arms]:
                    # a callable ndarray subclass does not exist here, but the order of the tests is semantics: keep it fixed
                    _fail(t, "isinstance test before the callable test")
                argname = t.args[0].id
                A = Body("__init__/aim", constructed=False)
                A.vars = dict(B.vars)
                A.vars[argname] = (_lname(argname), kind)
                A.selfvars = dict(B.selfvars)
                lines = [f"-- {'if' if not arms else 'elif'} {ast.unparse(t)}:"]
                stmts = list(node.body)
                for g in stmts[:-1]:
                    lines += A.guard(g)
                last = stmts[-1]

                def is_self_assign(x):
                    return (isinstance(x, ast.Assign) and len(x.targets) == 1 and isinstance(x.targets[0], ast.Attribute)
                            and isinstance(x.targets[0].value, ast.Name) and x.targets[0].value.id == "self")

                def arm_value(st, kind, argname, A):
                    """`self._aim_weights = <value>` inside an arm -> `pure …` line (round 6: also `np.ones(n)`)"""
                    v = st.value
                    if isinstance(v, ast.Call) and ast.unparse(v.func) == "np.ones" and len(v.args) == 1 and not v.keywords:
                        t, k = A.expr(v.args[0])
                        needs.add("NatCast")
                        return f"pure (← npOnes {t if k == 'npnum' else f'(NpNum.int {t})'})"
                    if kind == "aimCallable":
                        if not (isinstance(v, ast.Call) and isinstance(v.func, ast.Name) and v.func.id == argname and not v.keywords
                                and not any(isinstance(a, ast.Starred) for a in v.args)):
                            _fail(st, "expected a call of the callable")
                        args = [A.expr(a) for a in v.args]
                        return f"pure ({_lname(argname)} " + " ".join(a for a, _ in args) + ")"
                    if not (isinstance(v, ast.Name) and v.id == argname):
                        _fail(st, "expected the array itself")
                    return f"pure {_lname(argname)}"

                if (isinstance(last, ast.If) and len(last.body) == 1 and len(last.orelse) == 1 and is_self_assign(last.body[0]) and is_self_assign(last.orelse[0])
                        and last.body[0].targets[0].attr == last.orelse[0].targets[0].attr):
                    # round 6: a special case inside an arm (`if len(atgrids) == 1: … else: …`) is carried, not refused
                    tgt = last.body[0].targets[0].attr
                    if target not in (None, tgt) or tgt != "_aim_weights" or tgt in B.selfvars:
                        _fail(last, "branches assign different attributes")
                    target = tgt
                    lines.append(f"-- if {ast.unparse(last.test)}: ... else: ...")
                    lines.append(f"if {A.compare(last.test)} then do")
                    lines.append("  " + _comment(last.body[0]))
                    lines.append("  " + arm_value(last.body[0], kind, argname, A))
                    lines.append("else do")
                    lines.append("  " + _comment(last.orelse[0]))
                    lines.append("  " + arm_value(last.orelse[0], kind, argname, A))
                    arms.append((ctor, _lname(argname), lines))
                    oe = node.orelse
                    if len(oe) == 1 and isinstance(oe[0], ast.If):
                        node = oe[0]
                        continue
                    if len(oe) == 1 and isinstance(oe[0], ast.Raise):
                        default = B.raises(oe[0])
                        break
                    _fail(node, "dispatch must end in `else: raise ...`")
                if not is_self_assign(last):
                    _fail(last, "branch must end in `self._aim_weights = ...`")
                tgt = last.targets[0].attr
                if target not in (None, tgt) or tgt != "_aim_weights" or tgt in B.selfvars:
                    _fail(last, "branches assign different attributes")
                target = tgt
                lines.append(_comment(last))
                lines.append(arm_value(last, kind, argname, A))
                arms.append((ctor, _lname(argname), lines))
                oe = node.orelse
                if len(oe) == 1 and isinstance(oe[0], ast.If):
                    node = oe[0]
                    continue
                if len(oe) == 1 and isinstance(oe[0], ast.Raise):
                    default = B.raises(oe[0])
                    break
                _fail(node, "dispatch must end in `else: raise ...`")
            if [a[0] for a in arms] != ["callable", "array"]:
                _fail(s, "dispatch must test callable(...), then isinstance(..., np.ndarray)")
            out.append(f"let {target} ← (match aim_weights with")
            for ctor, nm, lines in arms:
                out.append(f"  | AimArg.{ctor} {nm} => do")
                out += ["    " + ln for ln in lines]
            out.append(f"  | AimArg.other => {default}  -- else: raise)")
            out[-1] = out[-1].replace("  -- else: raise)", ")  -- else: raise")
            B.selfvars[target] = (target, "listK")
            seen_aim = True
            continue
        # ---- super().__init__(self.points, a * b)
        if (isinstance(s, ast.Expr) and isinstance(s.value, ast.Call) and ast.unparse(s.value.func) == "super().__init__"
                and len(s.value.args) == 2 and not s.value.keywords):
            if not seen_aim:
                _fail(s, "super().__init__ before the aim weights are set")
            p, kp = B.expr(s.value.args[0])
            w = s.value.args[1]
            if kp != "listP" or not (isinstance(w, ast.BinOp) and isinstance(w.op, ast.Mult)):
                _fail(s, "expected super().__init__(<points>, <array> * <array>)")
            a, ka = B.expr(w.left)
            b, kb = B.expr(w.right)
            if (ka, kb) != ("listK", "listK"):
                _fail(s, f"product of kinds {ka}, {kb}")
            out.append(_comment(s))
            out.append(f"let _weights ← mulBroadcast {a} {b}  -- incl. the length check of Grid.__init__")
            final["points"] = p
            final["weights"] = "_weights"
            seen_super = True
            continue
        _fail(s, "unsupported statement in MolGrid.__init__")
    if not (seen_loop and seen_aim and seen_super):
        raise Untranslatable("MolGrid.__init__: loop / aim-weights dispatch / super().__init__ missing")
    for attr, (fld, kind) in FIELDS.items():
        if fld in final:
            continue
        if attr not in B.selfvars or B.selfvars[attr][1] != kind:
            raise Untranslatable(f"MolGrid.__init__ does not assign self.{attr}")
        final[fld] = B.selfvars[attr][0]
    order = ["points", "weights", "atweights", "aimWeights", "atcoords", "indices", "atgrids"]
    res = list(loop_def)
    res += ["/-- `MolGrid.__init__(self, atnums, atgrids, aim_weights, store)`, statement by statement. `zeroRow` is a row of",
            "`np.zeros((n, 3))`. -/",
            "def init {P K : Type} [Add K] [Mul K] [NatCast K]" + "".join(f" [{c} K]" for c in ("Max", "Min") if c in needs) + " (zeroRow : P) (atnums : List Nat)",
            "    (atgrids : List (AtGrid P K)) (aim_weights : AimArg P K) (store : Bool) : Py (MolGrid P K) := do"]
    res += ["  " + ln for ln in out]
    res.append("  pure { " + ", ".join(f"{k} := {final[k]}" for k in order) + " }")
    res.append("")
    return res


def _translate_accessor(tree, pyname, leanname):
    f = _method(tree, pyname)
    if [a.arg for a in f.args.args] != ["self", "index"] or f.args.kwonlyargs or f.args.vararg or f.args.kwarg or f.args.defaults:
        _fail(f, f"unexpected signature of MolGrid.{pyname}")
    if f.decorator_list:
        _fail(f, "decorated accessor")
    B = Body(pyname, constructed=True)
    B.vars = {"index": ("index", "int")}

    def block(stmts, ind):
        """-> lines; the block must end in a return / raise on every path"""
        lines = []
        for k, s in enumerate(stmts):
            rest = stmts[k + 1:]
            pad = "  " * ind
            if isinstance(s, ast.If) and not s.orelse and len(s.body) == 1 and isinstance(s.body[0], ast.Raise) and isinstance(s.test, ast.Compare) \
                    and not isinstance(s.test.ops[0], (ast.Is, ast.IsNot)):
                if not rest:
                    _fail(s, "method may fall off its end")
                lines += [pad + ln for ln in B.guard(s)]
                continue
            if (isinstance(s, ast.If) and not s.orelse and isinstance(s.test, ast.Compare) and len(s.test.ops) == 1
                    and isinstance(s.test.ops[0], (ast.Is, ast.IsNot)) and ast.unparse(s.test.left) == "self._atgrids"
                    and isinstance(s.test.comparators[0], ast.Constant) and s.test.comparators[0].value is None):
                if B.stored is not None:
                    _fail(s, "nested test of self._atgrids")
                if not rest:
                    _fail(s, "method may fall off its end")
                is_none = isinstance(s.test.ops[0], ast.Is)
                lines.append(pad + f"-- if {ast.unparse(s.test)}: ... (the statements after it: the other case)")
                lines.append(pad + "match self.atgrids with")
                saved_vars = dict(B.vars)
                B.stored = "NONE" if is_none else "_atgrids"
                then = block(s.body, ind + 1)
                B.vars = dict(saved_vars)
                B.stored = "_atgrids" if is_none else "NONE"
                other = block(rest, ind + 1)
                B.stored = None
                B.vars = saved_vars
                arm_none = pad + "| none => do"
                arm_some = pad + "| some _atgrids => do"
                if is_none:
                    lines += [arm_none] + then + [arm_some] + other
                else:
                    lines += [arm_some] + then + [arm_none] + other
                return lines
            if isinstance(s, ast.Assign) and len(s.targets) == 1 and isinstance(s.targets[0], ast.Name):
                n = s.targets[0].id
                if n in B.vars or n == "self":
                    _fail(s, "re-assignment")
                v, kv = B.expr(s.value)
                lines.append(pad + _comment(s))
                lines.append(pad + f"let {_lname(n)} := {v}")
                B.vars[n] = (_lname(n), kv)
                continue
            if isinstance(s, ast.Return) and s.value is not None:
                if rest:
                    _fail(rest[0], "statement after return")
                v = s.value
                lines.append(pad + _comment(s))
                if isinstance(v, ast.Call) and isinstance(v.func, ast.Name) and v.func.id == "LocalGrid" and len(v.args) == 3 and not v.keywords:
                    (p, kp), (w, kw), (c, kc) = (B.expr(a) for a in v.args)
                    if (kp, kw, kc) != ("listP", "listK", "point"):
                        _fail(s, f"LocalGrid of kinds {kp}, {kw}, {kc}")
                    lines.append(pad + f"mkLocalGrid {p} {w} {c}")
                    return lines
                t, k = B.expr(v)
                if k != "atgrid":
                    _fail(s, f"return of kind {k}")
                lines.append(pad + f"pure (SubGrid.atom {t})")
                return lines
            if isinstance(s, ast.Raise):
                if rest:
                    _fail(rest[0], "statement after raise")
                lines.append(pad + B.raises(s))
                return lines
            _fail(s, f"unsupported statement in MolGrid.{pyname}")
        _fail(f, "method may fall off its end")

    lines = block(_strip_doc(f.body), 1)
    return [f"/-- `MolGrid.{pyname}(self, index)`, line {f.lineno}, statement by statement. -/",
            f"def {leanname} {{P K : Type}} (self : MolGrid P K) (index : Int) : Py (SubGrid P K) := do"] + lines + [""]



# ==========================================================================================
# round 3: MolGrid.interpolate / interpolate_low, _generate_default_rgrid, the parameter table
# ==========================================================================================
MOL_PROPERTIES = {"atgrids": "_atgrids", "indices": "_indices", "aim_weights": "_aim_weights", "atcoords": "_atcoords",
                  "atweights": "_atweights"}


def _check_mol_properties(tree):
    """`self.atgrids`, `self.indices`, ... are read as the attributes they return: check the properties of MolGrid."""
    seen = {}
    for c in tree.body:
        if isinstance(c, ast.ClassDef) and c.name == "MolGrid":
            for f in c.body:
                if isinstance(f, ast.FunctionDef) and any(isinstance(d, ast.Name) and d.id == "property" for d in f.decorator_list):
                    seen[f.name] = [ast.unparse(x) for x in _strip_doc(f.body)]
                elif isinstance(f, ast.FunctionDef) and any(isinstance(d, ast.Attribute) and d.attr in ("setter", "deleter") for d in f.decorator_list):
                    raise Untranslatable(f"MolGrid.{f.name} has a setter / deleter")
    for name, attr in MOL_PROPERTIES.items():
        if seen.get(name) != [f"return self.{attr}"]:
            raise Untranslatable(f"MolGrid.{name} is not `return self.{attr}`: {seen.get(name)}")
    extra = sorted(set(seen) - set(MOL_PROPERTIES))
    if extra:
        raise Untranslatable(f"unexpected properties of MolGrid: {extra}")


class IBody(Body):
    """`Body` + the vocabulary of `interpolate`: the properties of MolGrid, `self[i]`, `a * b` on 1-D arrays,
    `g.interpolate(vals)`."""

    def selfattr(self, node, attr):
        return super().selfattr(node, MOL_PROPERTIES.get(attr, attr))

    def expr(self, e):
        if isinstance(e, ast.Subscript) and isinstance(e.value, ast.Name) and e.value.id == "self" and not isinstance(e.slice, ast.Slice):
            return f"(← getItem self {self.index(e.slice)})", "subgrid"
        if isinstance(e, ast.BinOp) and isinstance(e.op, ast.Mult):
            (a, ka), (b, kb) = self.expr(e.left), self.expr(e.right)
            if (ka, kb) != ("listK", "listK"):
                _fail(e, f"`*` on kinds {ka}, {kb}")
            return f"(← npMul1 {a} {b})", "listK"
        if (isinstance(e, ast.Call) and isinstance(e.func, ast.Attribute) and e.func.attr == "interpolate" and len(e.args) == 1
                and not e.keywords and not isinstance(e.args[0], ast.Starred)):
            g, kg = self.expr(e.func.value)
            v, kv = self.expr(e.args[0])
            if (kg, kv) != ("subgrid", "listK"):
                _fail(e, f"`.interpolate` on kinds {kg}, {kv}")
            return f"(← subInterpolate atom_interpolate {g} {v})", "interp"
        return super().expr(e)


def _translate_interpolate(tree):
    f = _method(tree, "interpolate")
    if [a.arg for a in f.args.args] != ["self", "func_vals"] or f.args.kwonlyargs or f.args.vararg or f.args.kwarg or f.args.defaults \
            or f.decorator_list:
        _fail(f, "unexpected signature of MolGrid.interpolate")
    B = IBody("interpolate", constructed=True)
    B.vars = {"func_vals": ("func_vals", "listK")}
    body = _strip_doc(f.body)
    if len(body) < 2:
        _fail(f, "unexpected body of MolGrid.interpolate")
    # ---- 1. if self.atgrids is None: raise X
    g = body[0]
    if not (isinstance(g, ast.If) and not g.orelse and len(g.body) == 1 and isinstance(g.body[0], ast.Raise)
            and isinstance(g.test, ast.Compare) and len(g.test.ops) == 1 and isinstance(g.test.ops[0], ast.Is)
            and ast.unparse(g.test.left) in ("self.atgrids", "self._atgrids")
            and isinstance(g.test.comparators[0], ast.Constant) and g.test.comparators[0].value is None):
        _fail(g, "expected `if self.atgrids is None: raise ...` first")
    out = [f"-- if {ast.unparse(g.test)}: raise {ast.unparse(g.body[0].exc.func) if isinstance(g.body[0].exc, ast.Call) else '?'}",
           "match self.atgrids with", f"| none => {B.raises(g.body[0])}", "| some _atgrids => do"]
    B.stored = "_atgrids"
    lines = []
    inner = None          # the nested function
    captured = None
    k = 1
    while k < len(body):
        s = body[k]
        k += 1
        if isinstance(s, ast.Assign) and len(s.targets) == 1 and isinstance(s.targets[0], ast.Name):
            n = s.targets[0].id
            if n in B.vars or n == "self" or inner is not None:
                _fail(s, "re-assignment")
            lines.append(_comment(s))
            if isinstance(s.value, ast.List) and not s.value.elts:
                lines.append(f"let {_lname(n)} : List (Interp Q K) := []")
                B.vars[n] = (_lname(n), "listInterp")
            else:
                v, kv = B.expr(s.value)
                if kv not in ("listK", "nat"):
                    _fail(s, f"local of kind {kv}")
                lines.append(f"let {_lname(n)} := {v}")
                B.vars[n] = (_lname(n), kv)
            continue
        if isinstance(s, ast.For):
            if inner is not None or s.orelse or not (isinstance(s.target, ast.Name) and isinstance(s.iter, ast.Call)
                    and isinstance(s.iter.func, ast.Name) and s.iter.func.id == "range" and len(s.iter.args) == 1 and not s.iter.keywords):
                _fail(s, "unsupported loop")
            n, kn = B.expr(s.iter.args[0])
            if kn != "nat":
                _fail(s, f"range of kind {kn}")
            iv = _lname(s.target.id)
            L = IBody("interpolate/loop", constructed=True)
            L.stored = B.stored
            L.vars = dict(B.vars)
            L.vars[s.target.id] = (iv, "nat")
            acc, inner_lines = None, []
            for b in s.body:
                inner_lines.append(_comment(b))
                if isinstance(b, ast.Assign) and len(b.targets) == 1 and isinstance(b.targets[0], ast.Name):
                    nm = b.targets[0].id
                    if nm in L.vars or nm == "self":
                        _fail(b, "re-assignment in the loop")
                    v, kv = L.expr(b.value)
                    if kv not in ("nat", "subgrid", "listK"):
                        _fail(b, f"local of kind {kv}")
                    inner_lines.append(f"let {_lname(nm)} := {v}")
                    L.vars[nm] = (_lname(nm), kv)
                    continue
                if (isinstance(b, ast.Expr) and isinstance(b.value, ast.Call) and isinstance(b.value.func, ast.Attribute)
                        and b.value.func.attr == "append" and isinstance(b.value.func.value, ast.Name) and len(b.value.args) == 1
                        and not b.value.keywords):
                    lst = b.value.func.value.id
                    if L.vars.get(lst, (0, 0))[1] != "listInterp" or acc not in (None, lst):
                        _fail(b, "append to something else than the list of interpolants")
                    acc = lst
                    v, kv = L.expr(b.value.args[0])
                    if kv != "interp":
                        _fail(b, f"append of kind {kv}")
                    inner_lines.append(f"let {_lname(lst)} := {_lname(lst)} ++ [{v}]")
                    continue
                _fail(b, "unsupported statement in the loop of interpolate")
            if acc is None:
                _fail(s, "loop without effect")
            lines.append(f"-- for {ast.unparse(s.target)} in {ast.unparse(s.iter)}: ...")
            lines.append(f"let {_lname(acc)} ← pyForRange {n} (fun {_lname(acc)} {iv} => do")
            lines += ["    " + ln for ln in inner_lines]
            lines.append(f"    pure {_lname(acc)}) {_lname(acc)}")
            continue
        if isinstance(s, ast.FunctionDef):
            if inner is not None or s.decorator_list:
                _fail(s, "unsupported nested function")
            inner = s
            continue
        if isinstance(s, ast.Return):
            if k != len(body) or inner is None or not (isinstance(s.value, ast.Name) and s.value.id == inner.name):
                _fail(s, "expected `return <the nested function>` as the last statement")
            continue
        _fail(s, "unsupported statement in MolGrid.interpolate")
    if inner is None or not isinstance(body[-1], ast.Return):
        raise Untranslatable("MolGrid.interpolate: nested function / return missing")
    # ---- the nested function: its free names must be bound before it and never re-bound afterwards (checked above:
    #      nothing but `return` follows the def)
    a = inner.args
    if a.vararg or a.kwarg or a.kwonlyargs or a.posonlyargs or len(a.args) != 4 or len(a.defaults) != 3:
        _fail(inner, "unexpected signature of the nested function")
    pnames = [x.arg for x in a.args]
    ptypes = ["Q", "Int", "Bool", "Bool"]
    dflt = [None] + list(a.defaults)
    sig = []
    for nm, ty, d in zip(pnames, ptypes, dflt):
        if d is None:
            sig.append(f"({_lname(nm)} : {ty})")
        elif ty == "Int" and isinstance(d, ast.Constant) and type(d.value) is int:
            sig.append(f"({_lname(nm)} : Int := {d.value})")
        elif ty == "Bool" and isinstance(d, ast.Constant) and type(d.value) is bool:
            sig.append(f"({_lname(nm)} : Bool := {'true' if d.value else 'false'})")
        else:
            _fail(d, f"unsupported default of {nm}")
    free = sorted({n.id for st in inner.body for n in ast.walk(st) if isinstance(n, ast.Name)} - set(pnames))
    ibody = _strip_doc(inner.body)
    local = {t.id for st in ibody for n in ast.walk(st) if isinstance(n, (ast.Assign, ast.For, ast.AugAssign))
             for t in ([n.target] if not isinstance(n, ast.Assign) else n.targets) if isinstance(t, ast.Name)}
    capt = [n for n in free if n not in local]
    if len(capt) != 1 or B.vars.get(capt[0], (0, 0))[1] != "listInterp":
        _fail(inner, f"the nested function must capture exactly the list of interpolants, captures {capt}")
    cap = capt[0]

    def call_args(c):
        if c.keywords or len(c.args) != 4 or any(not isinstance(x, ast.Name) or x.id not in pnames for x in c.args):
            _fail(c, "expected a call with the four parameters")
        got = [x.id for x in c.args]
        if [ptypes[pnames.index(x)] for x in got] != ptypes:
            _fail(c, "arguments of the wrong kind")
        return " ".join(_lname(x) for x in got)

    il = []
    if len(ibody) != 3:
        _fail(inner, "expected three statements in the nested function")
    s0, s1, s2 = ibody
    # output = fs[0](points, deriv, ...)
    if not (isinstance(s0, ast.Assign) and len(s0.targets) == 1 and isinstance(s0.targets[0], ast.Name) and isinstance(s0.value, ast.Call)
            and isinstance(s0.value.func, ast.Subscript) and isinstance(s0.value.func.value, ast.Name) and s0.value.func.value.id == cap
            and isinstance(s0.value.func.slice, ast.Constant) and type(s0.value.func.slice.value) is int):
        _fail(s0, "expected `output = <list>[k](...)`")
    outv = s0.targets[0].id
    if outv in pnames or outv == cap:
        _fail(s0, "re-assignment")
    il.append(_comment(s0))
    il.append(f"let {_lname(outv)} ← (← pyGet {_lname(cap)} {s0.value.func.slice.value}) {call_args(s0.value)}")
    # for f in fs[k:]: output += f(...)
    if not (isinstance(s1, ast.For) and not s1.orelse and isinstance(s1.target, ast.Name) and isinstance(s1.iter, ast.Subscript)
            and isinstance(s1.iter.value, ast.Name) and s1.iter.value.id == cap and isinstance(s1.iter.slice, ast.Slice)
            and s1.iter.slice.upper is None and s1.iter.slice.step is None and isinstance(s1.iter.slice.lower, ast.Constant)
            and type(s1.iter.slice.lower.value) is int and s1.iter.slice.lower.value >= 0 and len(s1.body) == 1):
        _fail(s1, "expected `for f in <list>[k:]: output += f(...)`")
    fv = s1.target.id
    b = s1.body[0]
    if fv in pnames + [cap, outv] or not (isinstance(b, ast.AugAssign) and isinstance(b.op, ast.Add) and isinstance(b.target, ast.Name)
            and b.target.id == outv and isinstance(b.value, ast.Call) and isinstance(b.value.func, ast.Name) and b.value.func.id == fv):
        _fail(s1, "expected `output += f(...)` in the loop")
    il.append(f"-- for {fv} in {ast.unparse(s1.iter)}: ...")
    il.append(f"let {_lname(outv)} ← pyForEach (fun {_lname(outv)} {_lname(fv)} => do")
    il.append("    " + _comment(b))
    il.append(f"    let {_lname(outv)} ← npIAdd {_lname(outv)} (← {_lname(fv)} {call_args(b.value)})")
    il.append(f"    pure {_lname(outv)}) (pySliceFrom {_lname(cap)} {s1.iter.slice.lower.value}) {_lname(outv)}")
    if not (isinstance(s2, ast.Return) and isinstance(s2.value, ast.Name) and s2.value.id == outv):
        _fail(s2, "expected `return output`")
    il.append(_comment(s2))
    il.append(f"pure {_lname(outv)}")
    res = [f"/-- The inner function `{inner.name}` of `MolGrid.interpolate`, line {inner.lineno}; its captured variable `{cap}` comes first,",
           "the defaults of its signature are Lean default arguments. -/",
           f"def {_lname(inner.name)} {{Q K : Type}} [Add K] ({_lname(cap)} : List (Interp Q K)) " + " ".join(sig) + " :",
           "    Py (NdArr K) := do"]
    res += ["  " + ln for ln in il] + [""]
    lines.append(f"-- def {inner.name}({ast.unparse(inner.args)}): ...;  return {inner.name}")
    lines.append(f"pure (fun {' '.join(_lname(x) for x in pnames)} => {_lname(inner.name)} {_lname(cap)} {' '.join(_lname(x) for x in pnames)})")
    res += [f"/-- `MolGrid.interpolate(self, func_vals)`, line {f.lineno}, statement by statement; `atom_interpolate` is `AtomGrid.interpolate`",
            "(a given component). -/",
            "def interpolate {P Q K : Type} [Add K] [Mul K] (atom_interpolate : AtGrid P K → List K → Py (Interp Q K))",
            "    (self : MolGrid P K) (func_vals : List K) : Py (Interp Q K) := do"]
    res += ["  " + ln for ln in out] + ["    " + ln for ln in lines] + [""]
    return res


def _dec(node, src):
    """exact decimal of the literal text of a float / int constant -> `⟨mant, scale⟩`"""
    txt = ast.get_source_segment(src, node)
    if not (isinstance(node, ast.Constant) and type(node.value) in (float, int)) or txt is None:
        _fail(node, "expected a numeric literal")
    d = decimal.Decimal(txt.replace("_", ""))
    if float(d) != float(node.value) or d < 0:
        _fail(node, "literal text does not round to the value")
    sign, digits, exp = d.as_tuple()
    mant = int("".join(map(str, digits)))
    if exp > 0:
        mant, exp = mant * 10 ** exp, 0
    return f"⟨{mant}, {-exp}⟩"


def _translate_default_rgrid(tree):
    src = (SRC / "utils.py").read_text()
    utree = ast.parse(src)
    node = None
    for s in utree.body:
        if isinstance(s, ast.Assign) and ast.unparse(s.targets[0]) == "_DEFAULT_POWER_RTRANSFORM_PARAMS":
            node = s.value
    if not isinstance(node, ast.Dict):
        raise Untranslatable("_DEFAULT_POWER_RTRANSFORM_PARAMS is not a dict literal in utils.py")
    rows, keys = [], []
    for kx, vx in zip(node.keys, node.values):
        if not (isinstance(kx, ast.Constant) and type(kx.value) is int and kx.value >= 0 and isinstance(vx, ast.Tuple) and len(vx.elts) == 3
                and isinstance(vx.elts[2], ast.Constant) and type(vx.elts[2].value) is int and vx.elts[2].value >= 0):
            _fail(vx, "unexpected table row")
        if kx.value in keys:
            _fail(kx, "duplicate key in the dict literal")     # Python keeps the last one: not modelled
        keys.append(kx.value)
        rows.append(f"({kx.value}, {_dec(vx.elts[0], src)}, {_dec(vx.elts[1], src)}, {vx.elts[2].value})")
    out = ["/-- `_DEFAULT_POWER_RTRANSFORM_PARAMS` (utils.py): `(atomic number, rmin, rmax, npt)` in dict order; `rmin`, `rmax` (angstrom) are the",
           "exact decimals of the literal text, `⟨mantissa, scale⟩` = mantissa / 10^scale. -/",
           "def defaultRgridParams : List (Nat × Dec × Dec × Nat) :=", "  [" + ",\n   ".join(rows) + "]", ""]
    # ---- the function
    fn = [s for s in tree.body if isinstance(s, ast.FunctionDef) and s.name == "_generate_default_rgrid"]
    if len(fn) != 1 or [a.arg for a in fn[0].args.args] != ["atnum"] or fn[0].args.defaults or fn[0].args.kwonlyargs:
        raise Untranslatable("_generate_default_rgrid(atnum) not found")
    body = _strip_doc(fn[0].body)
    T = "_DEFAULT_POWER_RTRANSFORM_PARAMS"
    if not (len(body) == 1 and isinstance(body[0], ast.If) and ast.unparse(body[0].test) == f"atnum in {T}"
            and len(body[0].orelse) == 1 and isinstance(body[0].orelse[0], ast.Raise)):
        raise Untranslatable("_generate_default_rgrid: expected `if atnum in <table>: ... else: raise ...`")
    B = Body("_generate_default_rgrid", constructed=False)
    lines = [f"-- if {ast.unparse(body[0].test)}:", "if pyDictIn defaultRgridParams atnum then do"]
    kinds = {"atnum": "nat"}
    CONST = {"scipy.constants.angstrom": "angstrom", "scipy.constants.value('atomic unit of length')": "bohr"}

    def num(e):
        """K-valued expression"""
        if isinstance(e, ast.Name) and kinds.get(e.id) == "K":
            return _lname(e.id)
        if ast.unparse(e) in CONST:
            return CONST[ast.unparse(e)]
        if isinstance(e, ast.BinOp) and type(e.op) in (ast.Mult, ast.Div):
            return f"({num(e.left)} {'*' if isinstance(e.op, ast.Mult) else '/'} {num(e.right)})"
        _fail(e, "unsupported arithmetic in _generate_default_rgrid")

    stmts = body[0].body
    for k, s in enumerate(stmts):
        lines.append("  " + _comment(s))
        if isinstance(s, ast.Return):
            if k != len(stmts) - 1 or not (isinstance(s.value, ast.Name) and kinds.get(s.value.id) == "grid"):
                _fail(s, "unsupported return")
            lines.append(f"  pure {_lname(s.value.id)}")
            break
        if not (isinstance(s, ast.Assign) and len(s.targets) == 1):
            _fail(s, "unsupported statement in _generate_default_rgrid")
        t, v = s.targets[0], s.value
        if isinstance(t, ast.Tuple):
            names = [x.id for x in t.elts if isinstance(x, ast.Name)]
            if len(names) != 3 or len(t.elts) != 3 or ast.unparse(v) != f"{T}[int(atnum)]" or set(names) & set(kinds):
                _fail(s, "expected `a, b, c = <table>[int(atnum)]`")
            lines.append("  let row ← pyDictGet defaultRgridParams atnum")
            for n, pr in zip(names[:2], ("row.1", "row.2.1")):
                lines.append(f"  let {_lname(n)} : K := Dec.val {pr}")
                kinds[n] = "K"
            lines.append(f"  let {_lname(names[2])} : Nat := row.2.2")
            kinds[names[2]] = "nat"
            continue
        if not isinstance(t, ast.Name):
            _fail(s, "unsupported target")
        if kinds.get(t.id) == "K":                      # rmin = rmin * angstrom / bohr
            lines.append(f"  let {_lname(t.id)} : K := {num(v)}")
            continue
        if t.id in kinds:
            _fail(s, "re-assignment")
        if (isinstance(v, ast.Call) and isinstance(v.func, ast.Name) and v.func.id == "UniformInteger" and len(v.args) == 1 and not v.keywords
                and isinstance(v.args[0], ast.Name) and kinds.get(v.args[0].id) == "nat"):
            lines.append(f"  let {_lname(t.id)} ← UniformInteger {_lname(v.args[0].id)}")
            kinds[t.id] = "oned"
            continue
        if (isinstance(v, ast.Call) and isinstance(v.func, ast.Attribute) and v.func.attr == "transform_1d_grid" and len(v.args) == 1 and not v.keywords
                and isinstance(v.args[0], ast.Name) and kinds.get(v.args[0].id) == "oned" and isinstance(v.func.value, ast.Call)
                and isinstance(v.func.value.func, ast.Name) and v.func.value.func.id == "PowerRTransform" and len(v.func.value.args) == 2
                and not v.func.value.keywords):
            a, b = (num(x) for x in v.func.value.args)
            lines.append(f"  let {_lname(t.id)} ← PowerRTransform_transform_1d_grid {a} {b} {_lname(v.args[0].id)}")
            kinds[t.id] = "grid"
            continue
        _fail(s, "unsupported statement in _generate_default_rgrid")
    else:
        _fail(fn[0], "the table branch does not end in a return")
    lines.append(f"else {B.raises(body[0].orelse[0])}  -- else: raise")
    out += ["/-- `_generate_default_rgrid(atnum)`, statement by statement. `angstrom` = `scipy.constants.angstrom`, `bohr` =",
            "`scipy.constants.value('atomic unit of length')`; `UniformInteger(npt)` and `PowerRTransform(rmin, rmax).transform_1d_grid(g)` are",
            "given components (C01, C03, C04). -/",
            "def generate_default_rgrid {K G1 G : Type} [Mul K] [Div K] [NatCast K] (angstrom bohr : K) (UniformInteger : Nat → Py G1)",
            "    (PowerRTransform_transform_1d_grid : K → K → G1 → Py G) (atnum : Nat) : Py G := do"]
    out += ["  " + ln for ln in lines] + [""]
    return out


def translate_core(tree):
    _check_grid_properties()
    out = _translate_init(tree)
    out += _translate_accessor(tree, "get_atomic_grid", "getAtomicGrid")
    out += _translate_accessor(tree, "__getitem__", "getItem")
    _check_mol_properties(tree)
    out += _translate_interpolate(tree)
    out += _translate_default_rgrid(tree)
    return out


def translate():
    tree = ast.parse((SRC / "molgrid.py").read_text())
    parts = []
    for fname, pre in (("from_preset", "fromPreset"), ("from_size", "fromSize"), ("from_pruned", "fromPruned")):
        parts += _one_method(tree, fname, pre)
    # _generate_default_rgrid: key set and sizes of the table it reads (the module is imported)
    fn = [s for s in tree.body if isinstance(s, ast.FunctionDef) and s.name == "_generate_default_rgrid"]
    if len(fn) != 1:
        raise Untranslatable("_generate_default_rgrid not found")
    parts += _strs("defaultRgrid_body", "`_generate_default_rgrid`: its statements (exception message dropped).",
                   [_unparse_short(s) for s in _strip_doc(fn[0].body)])
    utree = ast.parse((SRC / "utils.py").read_text())
    table = None
    for s in utree.body:
        if isinstance(s, ast.Assign) and ast.unparse(s.targets[0]) == "_DEFAULT_POWER_RTRANSFORM_PARAMS":
            table = ast.literal_eval(s.value)
    if table is None:
        raise Untranslatable("_DEFAULT_POWER_RTRANSFORM_PARAMS not found in utils.py")
    rows = []
    for z, v in table.items():
        if not (isinstance(z, int) and len(v) == 3 and isinstance(v[2], int)):
            raise Untranslatable(f"unexpected table row {z}: {v}")
        rows.append(f"({z}, {v[2]})")
    parts.append("/-- `_DEFAULT_POWER_RTRANSFORM_PARAMS`: `(atomic number, npt)` in dict order. -/")
    parts.append("def defaultRgridNpt : List (Nat × Nat) :=")
    lines, cur = [], "  ["
    for r in rows:
        if len(cur) + len(r) > 96:
            lines.append(cur.rstrip())
            cur = "   "
        cur += r + ", "
    lines.append(cur.rstrip().rstrip(",") + "]")
    parts += lines
    parts.append("")
    sv = _classmethod(tree, "save")
    if [a.arg for a in sv.args.args] != ["self", "filename"] or sv.args.defaults or sv.args.kwonlyargs or sv.decorator_list:
        _fail(sv, "unexpected signature of MolGrid.save")
    parts += _strs("save_body", "`MolGrid.save(self, filename)`: its statements as text (the hand model `MolGrid.saveKeys` was written against them).",
                   [ln for s in _strip_doc(sv.body) for ln in ast.unparse(s).splitlines()])
    parts += translate_core(tree)
    return "\n".join(parts)


def render():
    """The full text of Gen/MolGrid.lean for the current source tree (nothing is written)."""
    text = HEADER.format(name="molgrid", source="src/grid/molgrid.py (MolGrid.__init__, get_atomic_grid, __getitem__, interpolate, from_preset, from_size, from_pruned, _generate_default_rgrid), src/grid/utils.py (_DEFAULT_POWER_RTRANSFORM_PARAMS)")
    text += ("import GridVerif.Model.MolGrid\n\nset_option linter.unusedVariables false\n\n"
             "namespace GridVerif.Gen.MolGrid\nopen GridVerif.MolGrid\n\n")
    text += translate()
    text += "\nend GridVerif.Gen.MolGrid\n"
    return text


def generate():
    return write_if_changed("MolGrid.lean", render())


if __name__ == "__main__":
    print(translate())

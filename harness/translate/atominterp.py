"""Translator: grid/atomgrid.py (harmonic decomposition routines of AtomGrid) -> Gen/AtomInterp.lean.

AST based.  Arrays are functions of their index (the convention of `Model/AtomInterp.lean`, whose structure
`AGrid` and sums `sumTo`/`sumIco` the generated text uses); attributes of the grid are read through the fixed
dictionary `ATTR` below (`self.weights` = `g.wts`, `self.indices` = `g.idx`, `self.rgrid.points` = `g.r`, …).

What is carried:

* `integrate_angular_coordinates` (one function = last axis of `func_vals`): the product with the weights, the
  per-shell slice sums with their slice bounds, the in-place division by `rgrid.points**2 * rgrid.weights`, the
  threshold of `np.where(rgrid.points < 1e-8)` and, for those shells, the replacement by the sum against the
  weights of the rebuilt `AngularGrid(degree=self._degs[i], method=self.method)`;
* `spherical_average`: the division by `4.0 * np.pi` and the `CubicSpline(x=rgrid.points, y=…)` call;
* `radial_component_splines`: the size guard, the degree `self.l_max // 2` of the cached basis and where its angles
  come from, the `einsum("ln,n->ln", …)` product, the call of `integrate_angular_coordinates`, the zeroing rule
  (`degrees[i] != l_max` ⇒ rows from `(degrees[i] // 2 + 1) ** 2` on are set to `0.0`), the spline per row;
* `interpolate` / `interpolate_low`: the degree argument of every call of `generate_real_spherical_harmonics` and
  `generate_derivative_real_spherical_harmonics`.

Any other statement or expression shape in those places raises `Untranslatable`.
"""
import ast

from ..common import SRC
from .harmonics import Ex, Untranslatable, _body, _float_literal, _nat, _np_attr, _src
from .util import HEADER, write_if_changed

# attribute of the grid (source text) -> (kind, Lean term); kind: 'pt' array over the flat point index,
# 'shell' array over the shell index, 'idx' integer array over shell index (+1), 'nat' integer
ATTR = {
    "self.weights": ("pt", "g.wts"),
    "self.indices": ("idx", "g.idx"),
    "self._indices": ("idx", "g.idx"),
    "self.rgrid.points": ("shell", "g.r"),
    "self.rgrid.weights": ("shell", "g.w"),
    "self.degrees": ("shelln", "g.deg"),
    "self._degs": ("shelln", "g.deg"),
    "self.n_shells": ("nat", "g.nShells"),
    "self.l_max": ("nat", "g.lMax"),
    "self.size": ("nat", "g.npts"),
}


def _method(cls, name):
    for n in cls.body:
        if isinstance(n, ast.FunctionDef) and n.name == name:
            return n
    raise Untranslatable(f"AtomGrid.{name} not found")


def _flatten_with(stmts):
    out = []
    for s in stmts:
        if isinstance(s, ast.With):
            if not all(_src(i.context_expr).startswith("np.errstate(") for i in s.items):
                raise Untranslatable(f"with-statement {_src(s)[:60]}")
            out += s.body
        else:
            out.append(s)
    return out


class IEx(Ex):
    """Expressions in which grid attributes / arrays appear as source text; `sub` maps source text -> (type, Lean)."""

    def __init__(self, sub):
        super().__init__({})
        self.sub = sub

    def tr(self, e):
        key = _src(e)
        if key in self.sub:
            return self.sub[key]
        if isinstance(e, ast.Subscript):
            base = _src(e.value)
            if base in ATTR and ATTR[base][0] in ("idx", "shelln") and not isinstance(e.slice, (ast.Slice, ast.Tuple)):
                i = self.asNat(self.tr(e.slice))
                return ("N", f"({ATTR[base][1]} {i})")
        if isinstance(e, ast.Attribute) and key in ATTR and ATTR[key][0] == "nat":
            return ("N", ATTR[key][1])
        return super().tr(e)


def _slice_bounds(sl, iex):
    """`X[..., a:b]` or `X[a:b]` -> (a, b) as Nat terms."""
    parts = list(sl.elts) if isinstance(sl, ast.Tuple) else [sl]
    if len(parts) == 2 and isinstance(parts[0], ast.Constant) and parts[0].value is Ellipsis:
        parts = parts[1:]
    if len(parts) != 1 or not isinstance(parts[0], ast.Slice) or parts[0].step is not None or parts[0].lower is None or parts[0].upper is None:
        raise Untranslatable(f"slice {_src(sl)}")
    return iex.asNat(iex.tr(parts[0].lower)), iex.asNat(iex.tr(parts[0].upper))


def _is_sum_last(e):
    return (isinstance(e, ast.Call) and _np_attr(e.func, ("sum",)) and len(e.args) == 1
            and [(_k.arg, _src(_k.value)) for _k in e.keywords] == [("axis", "-1")])


def _integrate(fn):
    if [a.arg for a in fn.args.args] != ["self", "func_vals"]:
        raise Untranslatable("integrate_angular_coordinates: signature")
    st = _flatten_with(_body(fn))
    L = []
    pt = {"func_vals": ("K", "(func_vals j)"), "self.weights": ("K", "(g.wts j)")}
    # 1. prod_value = func_vals * self.weights
    s = st[0]
    if not (isinstance(s, ast.Assign) and _src(s.targets[0]) == "prod_value"):
        raise Untranslatable(f"integrate_angular_coordinates: {_src(s)}")
    ex = IEx(pt)
    names = {n.id for n in ast.walk(s.value) if isinstance(n, ast.Name)}
    if not names <= {"func_vals", "self"}:
        raise Untranslatable(f"integrate_angular_coordinates: {_src(s)}")
    L += [f"  -- {_src(s)}", f"  let prod_value : Nat → K := fun j => {ex.asK(ex.tr(s.value))}"]
    # 2. radial_coefficients = np.array([np.sum(prod_value[..., self.indices[i]:self.indices[i + 1]], axis=-1) for i in range(self.n_shells)])
    s = st[1]
    ok = (isinstance(s, ast.Assign) and _src(s.targets[0]) == "radial_coefficients" and isinstance(s.value, ast.Call)
          and _np_attr(s.value.func, ("array",)) and len(s.value.args) == 1 and not s.value.keywords
          and isinstance(s.value.args[0], ast.ListComp) and len(s.value.args[0].generators) == 1)
    if not ok:
        raise Untranslatable(f"integrate_angular_coordinates: {_src(s)}")
    comp = s.value.args[0]
    g = comp.generators[0]
    if g.ifs or _src(g.iter) != "range(self.n_shells)" or not isinstance(g.target, ast.Name):
        raise Untranslatable(f"integrate_angular_coordinates: generator {_src(g.iter)}")
    iv = g.target.id
    elt = comp.elt
    if not (_is_sum_last(elt) and isinstance(elt.args[0], ast.Subscript) and _src(elt.args[0].value) == "prod_value"):
        raise Untranslatable(f"integrate_angular_coordinates: {_src(elt)}")
    iex = IEx({iv: ("N", iv)})
    a, b = _slice_bounds(elt.args[0].slice, iex)
    L += [f"  -- {_src(s)}", f"  let radial_coefficients : Nat → K := fun {iv} => sumIco {a} {b} prod_value"]
    # 3. moveaxis (layout of the leading axes only)
    s = st[2]
    if _src(s) != "radial_coefficients = np.moveaxis(radial_coefficients, 0, -1)":
        raise Untranslatable(f"integrate_angular_coordinates: {_src(s)}")
    L += [f"  -- {_src(s)}   (layout: the shell axis becomes the last one; nothing to do for one function)"]
    # 4. radial_coefficients /= self.rgrid.points**2 * self.rgrid.weights
    s = st[3]
    if not (isinstance(s, ast.AugAssign) and _src(s.target) == "radial_coefficients" and isinstance(s.op, ast.Div)):
        raise Untranslatable(f"integrate_angular_coordinates: {_src(s)}")
    sh = IEx({"self.rgrid.points": ("K", "(g.r i)"), "self.rgrid.weights": ("K", "(g.w i)")})
    if {n.id for n in ast.walk(s.value) if isinstance(n, ast.Name)} - {"self"}:
        raise Untranslatable(f"integrate_angular_coordinates: {_src(s)}")
    L += [f"  -- {_src(s)}", f"  let radial_coefficients : Nat → K := fun i => radial_coefficients i / {sh.asK(sh.tr(s.value))}"]
    # 5. r_index = np.where(self.rgrid.points < 1e-8)[0]
    s = st[4]
    ok = (isinstance(s, ast.Assign) and _src(s.targets[0]) == "r_index" and isinstance(s.value, ast.Subscript)
          and _src(s.value.slice) == "0" and isinstance(s.value.value, ast.Call) and _np_attr(s.value.value.func, ("where",))
          and len(s.value.value.args) == 1 and isinstance(s.value.value.args[0], ast.Compare))
    if not ok:
        raise Untranslatable(f"integrate_angular_coordinates: {_src(s)}")
    L += [f"  -- {_src(s)}", f"  let r_index : Nat → Bool := fun i => decide {sh.cond(s.value.value.args[0])}"]
    # 6. for i in r_index: agrid = AngularGrid(...); values = func_vals[..., a:b] * agrid.weights; radial_coefficients[..., i] = np.sum(values, axis=-1)
    s = st[5]
    if not (isinstance(s, ast.For) and _src(s.iter) == "r_index" and isinstance(s.target, ast.Name) and not s.orelse and len(s.body) == 3):
        raise Untranslatable(f"integrate_angular_coordinates: {_src(s)[:60]}")
    lv = s.target.id
    b0, b1, b2 = s.body
    if _src(b0) != f"agrid = AngularGrid(degree=self._degs[{lv}], method=self.method)":
        raise Untranslatable(f"integrate_angular_coordinates: {_src(b0)}")
    ok = (isinstance(b1, ast.Assign) and _src(b1.targets[0]) == "values" and isinstance(b1.value, ast.BinOp)
          and isinstance(b1.value.op, ast.Mult) and isinstance(b1.value.left, ast.Subscript)
          and _src(b1.value.left.value) == "func_vals" and _src(b1.value.right) == "agrid.weights")
    if not ok:
        raise Untranslatable(f"integrate_angular_coordinates: {_src(b1)}")
    iex = IEx({lv: ("N", lv)})
    a, b = _slice_bounds(b1.value.left.slice, iex)
    if _src(b2) != f"radial_coefficients[..., {lv}] = np.sum(values, axis=-1)":
        raise Untranslatable(f"integrate_angular_coordinates: {_src(b2)}")
    L += [f"  -- for {lv} in r_index: {_src(b0)}; {_src(b1)}; {_src(b2)}",
          f"  let radial_coefficients : Nat → K := fun {lv} =>",
          f"    if r_index {lv} then",
          f"      let values : Nat → K := fun k => func_vals ({a} + k) * g.regenW {lv} k",
          f"      sumTo ({b} - {a}) values",
          f"    else radial_coefficients {lv}"]
    if len(st) != 7 or _src(st[6]) != "return radial_coefficients":
        raise Untranslatable("integrate_angular_coordinates: tail of the routine")
    head = ["/-- `AtomGrid.integrate_angular_coordinates(func_vals)` for one function (last axis of `func_vals`). -/",
            "def integrateAngular [LT K] [DecidableLT K] (g : AGrid K) (func_vals : Nat → K) : Nat → K :="]
    return "\n".join(head + L + ["  radial_coefficients", ""])


def _average(fn):
    st = _body(fn)
    if [_src(s) for s in st[:1]] != ["f_radial = self.integrate_angular_coordinates(func_vals)"]:
        raise Untranslatable(f"spherical_average: {_src(st[0])}")
    s = st[1]
    if not (isinstance(s, ast.AugAssign) and _src(s.target) == "f_radial" and isinstance(s.op, ast.Div)):
        raise Untranslatable(f"spherical_average: {_src(s)}")
    ex = IEx({})
    if [_src(x) for x in st[2:]] != ["spline = CubicSpline(x=self.rgrid.points, y=f_radial)", "return spline"]:
        raise Untranslatable("spherical_average: tail of the routine")
    return "\n".join([
        "/-- `spherical_average`: `f_radial = self.integrate_angular_coordinates(func_vals)`; `" + _src(s) + "`. -/",
        "def averageValues [LT K] [DecidableLT K] (g : AGrid K) (func_vals : Nat → K) : Nat → K :=",
        f"  fun i => integrateAngular g func_vals i / {ex.asK(ex.tr(s.value))}",
        "",
        "/-- `spherical_average`: `spline = CubicSpline(x=self.rgrid.points, y=f_radial)`; `return spline`. -/",
        "def sphericalAverage [LT K] [DecidableLT K] (interp : List K → List K → K → Nat → K) (g : AGrid K) (func_vals : Nat → K) : K → Nat → K :=",
        "  interp ((List.range g.nShells).map g.r) ((List.range g.nShells).map (averageValues g func_vals))",
        ""])


def _degree_arg(call, what):
    if len(call.args) != 3 or call.keywords or [_src(a) for a in call.args[1:]] != ["theta", "phi"]:
        raise Untranslatable(f"{what}: {_src(call)}")
    ex = IEx({"self.l_max": ("N", "l_max")})
    return ex.asNat(ex.tr(call.args[0])), _src(call.args[0])


def _splines(fn):
    if [a.arg for a in fn.args.args] != ["self", "func_vals"]:
        raise Untranslatable("radial_component_splines: signature")
    st = _body(fn)
    out = []
    # size guard
    s = st[0]
    if not (isinstance(s, ast.If) and _src(s.test) == "func_vals.size != self.size" and len(s.body) == 1
            and isinstance(s.body[0], ast.Raise) and _src(s.body[0].exc).startswith("ValueError(") and not s.orelse):
        raise Untranslatable(f"radial_component_splines: guard {_src(s.test)}")
    out += ["/-- `radial_component_splines`: `if func_vals.size != self.size: raise ValueError`. -/",
            "def splinesRejects (g : AGrid K) (size : Nat) : Bool := size != g.npts", ""]
    # cached basis
    s = st[1]
    ok = (isinstance(s, ast.If) and _src(s.test) == "self._basis is None" and not s.orelse and len(s.body) == 2
          and _src(s.body[0]) == "theta, phi = self.convert_cartesian_to_spherical().T[1:]"
          and isinstance(s.body[1], ast.Assign) and _src(s.body[1].targets[0]) == "self._basis"
          and isinstance(s.body[1].value, ast.Call) and _src(s.body[1].value.func) == "generate_real_spherical_harmonics")
    if not ok:
        raise Untranslatable(f"radial_component_splines: basis block {_src(s)[:80]}")
    deg, degsrc = _degree_arg(s.body[1].value, "radial_component_splines")
    out += [f"/-- `radial_component_splines`: degree of the cached basis, `generate_real_spherical_harmonics({degsrc}, theta, phi)`. -/",
            f"def basisDegree (l_max : Nat) : Nat := {deg}", "",
            "/-- `radial_component_splines`: `if self._basis is None: theta, phi = self.convert_cartesian_to_spherical().T[1:];",
            f"self._basis = generate_real_spherical_harmonics({degsrc}, theta, phi)` — entry `[row, j]`; the angles of the atomic grid",
            "points (no argument) are `gridAngles` of the hand model; `Y` are the rows of the harmonics routine (property C08). -/",
            "def basis [LT K] [DecidableLT K] (g : AGrid K) (Y : Nat → K → K → K) (row j : Nat) : K :=",
            "  Y row (gridAngles g j).1 (gridAngles g j).2", ""]
    L = []
    # values = np.einsum("ln,n->ln", self._basis, func_vals)
    s = st[2]
    if _src(s) != "values = np.einsum('ln,n->ln', self._basis, func_vals)":
        raise Untranslatable(f"radial_component_splines: {_src(s)}")
    L += [f"  -- {_src(s)}", "  let values : Nat → Nat → K := fun l n => basis l n * func_vals n"]
    # radial_components = self.integrate_angular_coordinates(values)
    s = st[3]
    if _src(s) != "radial_components = self.integrate_angular_coordinates(values)":
        raise Untranslatable(f"radial_component_splines: {_src(s)}")
    L += [f"  -- {_src(s)}   (leading axis = row of the basis)",
          "  let radial_components : Nat → Nat → K := fun row i => integrateAngular g (values row) i"]
    # zeroing rule
    s = st[4]
    ok = (isinstance(s, ast.For) and _src(s.iter) == "range(self.n_shells)" and isinstance(s.target, ast.Name) and not s.orelse
          and len(s.body) == 1 and isinstance(s.body[0], ast.If) and not s.body[0].orelse and len(s.body[0].body) == 2)
    if not ok:
        raise Untranslatable(f"radial_component_splines: zeroing loop {_src(s)[:80]}")
    iv = s.target.id
    cnd = s.body[0]
    iex = IEx({iv: ("N", iv)})
    cond = iex.cond(cnd.test)
    a0, a1 = cnd.body
    if not (isinstance(a0, ast.Assign) and isinstance(a0.targets[0], ast.Name)):
        raise Untranslatable(f"radial_component_splines: {_src(a0)}")
    tmp = a0.targets[0].id
    tmpv = iex.asNat(iex.tr(a0.value))
    ok = (isinstance(a1, ast.Assign) and isinstance(a1.targets[0], ast.Subscript) and _src(a1.targets[0].value) == "radial_components"
          and isinstance(a1.targets[0].slice, ast.Tuple) and len(a1.targets[0].slice.elts) == 2
          and isinstance(a1.targets[0].slice.elts[0], ast.Slice) and _src(a1.targets[0].slice.elts[0]) == f"{tmp}:"
          and _src(a1.targets[0].slice.elts[1]) == iv)
    if not ok:
        raise Untranslatable(f"radial_component_splines: {_src(a1)}")
    val = IEx({}).asK(IEx({}).tr(a1.value))
    L += [f"  -- for {iv} in range(self.n_shells): if {_src(cnd.test)}: {_src(a0)}; {_src(a1)}",
          f"  let radial_components : Nat → Nat → K := fun row {iv} =>",
          f"    if {cond} then",
          f"      let {tmp} : Nat := {tmpv}",
          f"      if {tmp} ≤ row then {val} else radial_components row {iv}",
          f"    else radial_components row {iv}"]
    s = st[5]
    if len(st) != 6 or _src(s) != "return [CubicSpline(x=self.rgrid.points, y=sph_val) for sph_val in radial_components]":
        raise Untranslatable(f"radial_component_splines: {_src(s)}")
    out += ["/-- `radial_components[row, i]` of `radial_component_splines`, given the (cached) basis array. -/",
            "def radialComponents [LT K] [DecidableLT K] (g : AGrid K) (basis : Nat → Nat → K) (func_vals : Nat → K) : Nat → Nat → K :="]
    out += L + ["  radial_components", ""]
    out += [f"/-- `radial_component_splines`: `{_src(s)}` — the spline of row `row`. -/",
            "def radialComponentSplines [LT K] [DecidableLT K] (interp : List K → List K → K → Nat → K) (g : AGrid K)",
            "    (Y : Nat → K → K → K) (func_vals : Nat → K) (row : Nat) : K → Nat → K :=",
            "  interp ((List.range g.nShells).map g.r) ((List.range g.nShells).map (radialComponents g (basis g Y) func_vals row))", ""]
    return "\n".join(out)


def _eval_degrees(fn):
    """Degree argument of every harmonics call inside `interpolate` (incl. `interpolate_low`)."""
    calls = [n for n in ast.walk(fn) if isinstance(n, ast.Call) and isinstance(n.func, ast.Name)
             and n.func.id in ("generate_real_spherical_harmonics", "generate_derivative_real_spherical_harmonics",
                               "generate_real_spherical_harmonics_scipy")]
    kinds = [c.func.id for c in calls]
    if sorted(kinds) != ["generate_derivative_real_spherical_harmonics", "generate_real_spherical_harmonics"]:
        raise Untranslatable(f"interpolate: harmonics calls {kinds}")
    out = []
    for c in calls:
        deg, src = _degree_arg(c, "interpolate")
        name = "evalDegree" if c.func.id == "generate_real_spherical_harmonics" else "evalDerivDegree"
        out += [f"/-- `interpolate_low`: `{c.func.id}({src}, theta, phi)`. -/", f"def {name} (l_max : Nat) : Nat := {deg}", ""]
    # the splines come from radial_component_splines(func_vals)
    b = _body(fn)
    if _src(b[0]) != "splines = self.radial_component_splines(func_vals)":
        raise Untranslatable(f"interpolate: {_src(b[0])}")
    return "\n".join(out)


def render() -> str:
    tree = ast.parse((SRC / "atomgrid.py").read_text())
    cls = next((n for n in tree.body if isinstance(n, ast.ClassDef) and n.name == "AtomGrid"), None)
    if cls is None:
        raise Untranslatable("class AtomGrid not found")
    parts = [
        HEADER.format(name="atominterp", source="src/grid/atomgrid.py (AtomGrid.integrate_angular_coordinates, spherical_average, "
                      "radial_component_splines, the harmonics calls of interpolate)"),
        "import GridVerif.Model.Elem\nimport GridVerif.Model.AtomInterp\n\nset_option linter.unusedVariables false\n",
        "namespace GridVerif.Gen.AtomInterp\nopen GridVerif.AtomInterp (AGrid sumTo sumIco gridAngles)\n",
        "section generic\nvariable {K : Type} [Add K] [Sub K] [Mul K] [Div K] [Neg K] [NatCast K] [Elem K]\n",
        _integrate(_method(cls, "integrate_angular_coordinates")),
        _average(_method(cls, "spherical_average")),
        _splines(_method(cls, "radial_component_splines")),
        _eval_degrees(_method(cls, "interpolate")),
        "end generic\n\nend GridVerif.Gen.AtomInterp\n",
    ]
    return "\n".join(parts)


def generate():
    return write_if_changed("AtomInterp.lean", render())


if __name__ == "__main__":
    print(generate()[1])

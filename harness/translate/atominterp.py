"""Translator: grid/atomgrid.py (harmonic decomposition routines of AtomGrid) -> Gen/AtomInterp.lean.

AST based.  Arrays are functions of their index (the convention of `Model/AtomInterp.lean`, whose structure
`AGrid` and sums `sumTo`/`sumIco` the generated text uses); attributes of the grid are read through the fixed
dictionary `ATTR` below (`self.weights` = `g.wts`, `self.indices` = `g.idx`, `self.rgrid.points` = `g.r`, …).

What is carried:

* `integrate_angular_coordinates` (one function = last axis of `func_vals`): the product with the weights, the
  per-shell slice sums with their slice bounds, the in-place division by `rgrid.points**2 * rgrid.weights`, the
  threshold of `np.where(rgrid.points < 1e-8)` and, for those shells, the replacement by the sum against the
  weights of the rebuilt `AngularGrid(degree=self._degs[i], method=self.method)`;
* `spherical_average`: the division by `4.0 * np.pi` and the `CubicSpline(x=rgrid.points, y=…)` call;
* `radial_component_splines`: the size guard, the degree `self.l_max // 2` of the cached basis and where its angles
  come from, the `einsum("ln,n->ln", …)` product, the call of `integrate_angular_coordinates`, the zeroing rule
  (`degrees[i] != l_max` ⇒ rows from `(degrees[i] // 2 + 1) ** 2` on are set to `0.0`), the spline per row;
* `interpolate` / `interpolate_low`: the degree argument of every call of `generate_real_spherical_harmonics` and
  `generate_derivative_real_spherical_harmonics`.

* (round 3) `convert_cartesian_to_spherical`, statement by statement: the `is_atomic` flag and its two assignments, the
  `points.ndim == 1` test with the arguments of `reshape`, the default of `center`, the call of `convert_cart_to_sph` (the
  generated routine of `Gen/Harmonics.lean`), the mask `rgrid.points == 0.0` with the index `[0]` of `np.where`, the slice
  bounds `self._indices[i]`, `self._indices[i + 1]` and the first column `1:` of the overwritten block;
* (round 3) the inner `interpolate_low` of `interpolate`, statement by statement: the defaults of its signature, the condition of
  the warning, the spline tables (`spline(r_pts, deriv)`, `spline(r_pts, 0)`), both harmonics calls with their degree, the three
  `einsum` contractions with the index of `deriv_sph_harm[k, :, :]`, the two branch conditions (`deriv == 1`, `deriv != 0`),
  `np.hstack`, the shape of `np.zeros((len(r_pts), 3))`, the loop `range(0, len(r_pts))` with the call of
  `convert_derivative_from_spherical_to_cartesian` (the generated routine of `Gen/Harmonics.lean`), the `ValueError`;
* (round 3) the inner `interpolate_low` of `MolGrid.interpolate` (grid/molgrid.py): defaults, `interpolate_funcs[0]`, the loop over
  `interpolate_funcs[1:]` with `output += …`.

Any other statement or expression shape in those places raises `Untranslatable`.
"""
import ast

from ..common import SRC
from .harmonics import Ex, Untranslatable, _body, _float_literal, _nat, _np_attr, _src
from .util import HEADER, write_if_changed

# attribute of the grid (source text) -> (kind, Lean term); kind: 'pt' array over the flat point index,
# 'shell' array over the shell index, 'idx' integer array over shell index (+1), 'nat' integer
ATTR = {
    "self.weights": ("pt", "g.wts"),
    "self.indices": ("idx", "g.idx"),
    "self._indices": ("idx", "g.idx"),
    "self.rgrid.points": ("shell", "g.r"),
    "self.rgrid.weights": ("shell", "g.w"),
    "self.degrees": ("shelln", "g.deg"),
    "self._degs": ("shelln", "g.deg"),
    "self.n_shells": ("nat", "g.nShells"),
    "self.l_max": ("nat", "g.lMax"),
    "self.size": ("nat", "g.npts"),
}


def _method(cls, name):
    for n in cls.body:
        if isinstance(n, ast.FunctionDef) and n.name == name:
            return n
    raise Untranslatable(f"AtomGrid.{name} not found")


def _flatten_with(stmts):
    out = []
    for s in stmts:
        if isinstance(s, ast.With):
            if not all(_src(i.context_expr).startswith("np.errstate(") for i in s.items):
                raise Untranslatable(f"with-statement {_src(s)[:60]}")
            out += s.body
        else:
            out.append(s)
    return out


class IEx(Ex):
    """Expressions in which grid attributes / arrays appear as source text; `sub` maps source text -> (type, Lean)."""

    def __init__(self, sub):
        super().__init__({})
        self.sub = sub

    def tr(self, e):
        key = _src(e)
        if key in self.sub:
            return self.sub[key]
        if isinstance(e, ast.Subscript):
            base = _src(e.value)
            if base in ATTR and ATTR[base][0] in ("idx", "shelln") and not isinstance(e.slice, (ast.Slice, ast.Tuple)):
                i = self.asNat(self.tr(e.slice))
                return ("N", f"({ATTR[base][1]} {i})")
        if isinstance(e, ast.Attribute) and key in ATTR and ATTR[key][0] == "nat":
            return ("N", ATTR[key][1])
        return super().tr(e)


def _slice_bounds(sl, iex):
    """`X[..., a:b]` or `X[a:b]` -> (a, b) as Nat terms."""
    parts = list(sl.elts) if isinstance(sl, ast.Tuple) else [sl]
    if len(parts) == 2 and isinstance(parts[0], ast.Constant) and parts[0].value is Ellipsis:
        parts = parts[1:]
    if len(parts) != 1 or not isinstance(parts[0], ast.Slice) or parts[0].step is not None or parts[0].lower is None or parts[0].upper is None:
        raise Untranslatable(f"slice {_src(sl)}")
    return iex.asNat(iex.tr(parts[0].lower)), iex.asNat(iex.tr(parts[0].upper))


def _is_sum_last(e):
    return (isinstance(e, ast.Call) and _np_attr(e.func, ("sum",)) and len(e.args) == 1
            and [(_k.arg, _src(_k.value)) for _k in e.keywords] == [("axis", "-1")])


def _integrate(fn):
    if [a.arg for a in fn.args.args] != ["self", "func_vals"]:
        raise Untranslatable("integrate_angular_coordinates: signature")
    st = _flatten_with(_body(fn))
    L = []
    pt = {"func_vals": ("K", "(func_vals j)"), "self.weights": ("K", "(g.wts j)")}
    # 1. prod_value = func_vals * self.weights
    s = st[0]
    if not (isinstance(s, ast.Assign) and _src(s.targets[0]) == "prod_value"):
        raise Untranslatable(f"integrate_angular_coordinates: {_src(s)}")
    ex = IEx(pt)
    names = {n.id for n in ast.walk(s.value) if isinstance(n, ast.Name)}
    if not names <= {"func_vals", "self"}:
        raise Untranslatable(f"integrate_angular_coordinates: {_src(s)}")
    L += [f"  -- {_src(s)}", f"  let prod_value : Nat → K := fun j => {ex.asK(ex.tr(s.value))}"]
    # 2. radial_coefficients = np.array([np.sum(prod_value[..., self.indices[i]:self.indices[i + 1]], axis=-1) for i in range(self.n_shells)])
    s = st[1]
    ok = (isinstance(s, ast.Assign) and _src(s.targets[0]) == "radial_coefficients" and isinstance(s.value, ast.Call)
          and _np_attr(s.value.func, ("array",)) and len(s.value.args) == 1 and not s.value.keywords
          and isinstance(s.value.args[0], ast.ListComp) and len(s.value.args[0].generators) == 1)
    if not ok:
        raise Untranslatable(f"integrate_angular_coordinates: {_src(s)}")
    comp = s.value.args[0]
    g = comp.generators[0]
    if g.ifs or _src(g.iter) != "range(self.n_shells)" or not isinstance(g.target, ast.Name):
        raise Untranslatable(f"integrate_angular_coordinates: generator {_src(g.iter)}")
    iv = g.target.id
    elt = comp.elt
    if not (_is_sum_last(elt) and isinstance(elt.args[0], ast.Subscript) and _src(elt.args[0].value) == "prod_value"):
        raise Untranslatable(f"integrate_angular_coordinates: {_src(elt)}")
    iex = IEx({iv: ("N", iv)})
    a, b = _slice_bounds(elt.args[0].slice, iex)
    L += [f"  -- {_src(s)}", f"  let radial_coefficients : Nat → K := fun {iv} => sumIco {a} {b} prod_value"]
    # 3. moveaxis (layout of the leading axes only)
    s = st[2]
    if _src(s) != "radial_coefficients = np.moveaxis(radial_coefficients, 0, -1)":
        raise Untranslatable(f"integrate_angular_coordinates: {_src(s)}")
    L += [f"  -- {_src(s)}   (layout: the shell axis becomes the last one; nothing to do for one function)"]
    # 4. radial_coefficients /= self.rgrid.points**2 * self.rgrid.weights
    s = st[3]
    if not (isinstance(s, ast.AugAssign) and _src(s.target) == "radial_coefficients" and isinstance(s.op, ast.Div)):
        raise Untranslatable(f"integrate_angular_coordinates: {_src(s)}")
    sh = IEx({"self.rgrid.points": ("K", "(g.r i)"), "self.rgrid.weights": ("K", "(g.w i)")})
    if {n.id for n in ast.walk(s.value) if isinstance(n, ast.Name)} - {"self"}:
        raise Untranslatable(f"integrate_angular_coordinates: {_src(s)}")
    L += [f"  -- {_src(s)}", f"  let radial_coefficients : Nat → K := fun i => radial_coefficients i / {sh.asK(sh.tr(s.value))}"]
    # 5. r_index = np.where(self.rgrid.points < 1e-8)[0]
    s = st[4]
    ok = (isinstance(s, ast.Assign) and _src(s.targets[0]) == "r_index" and isinstance(s.value, ast.Subscript)
          and _src(s.value.slice) == "0" and isinstance(s.value.value, ast.Call) and _np_attr(s.value.value.func, ("where",))
          and len(s.value.value.args) == 1 and isinstance(s.value.value.args[0], ast.Compare))
    if not ok:
        raise Untranslatable(f"integrate_angular_coordinates: {_src(s)}")
    L += [f"  -- {_src(s)}", f"  let r_index : Nat → Bool := fun i => decide {sh.cond(s.value.value.args[0])}"]
    # 6. for i in r_index: agrid = AngularGrid(...); values = func_vals[..., a:b] * agrid.weights; radial_coefficients[..., i] = np.sum(values, axis=-1)
    s = st[5]
    if not (isinstance(s, ast.For) and _src(s.iter) == "r_index" and isinstance(s.target, ast.Name) and not s.orelse and len(s.body) == 3):
        raise Untranslatable(f"integrate_angular_coordinates: {_src(s)[:60]}")
    lv = s.target.id
    b0, b1, b2 = s.body
    if _src(b0) != f"agrid = AngularGrid(degree=self._degs[{lv}], method=self.method)":
        raise Untranslatable(f"integrate_angular_coordinates: {_src(b0)}")
    ok = (isinstance(b1, ast.Assign) and _src(b1.targets[0]) == "values" and isinstance(b1.value, ast.BinOp)
          and isinstance(b1.value.op, ast.Mult) and isinstance(b1.value.left, ast.Subscript)
          and _src(b1.value.left.value) == "func_vals" and _src(b1.value.right) == "agrid.weights")
    if not ok:
        raise Untranslatable(f"integrate_angular_coordinates: {_src(b1)}")
    iex = IEx({lv: ("N", lv)})
    a, b = _slice_bounds(b1.value.left.slice, iex)
    if _src(b2) != f"radial_coefficients[..., {lv}] = np.sum(values, axis=-1)":
        raise Untranslatable(f"integrate_angular_coordinates: {_src(b2)}")
    L += [f"  -- for {lv} in r_index: {_src(b0)}; {_src(b1)}; {_src(b2)}",
          f"  let radial_coefficients : Nat → K := fun {lv} =>",
          f"    if r_index {lv} then",
          f"      let values : Nat → K := fun k => func_vals ({a} + k) * g.regenW {lv} k",
          f"      sumTo ({b} - {a}) values",
          f"    else radial_coefficients {lv}"]
    if len(st) != 7 or _src(st[6]) != "return radial_coefficients":
        raise Untranslatable("integrate_angular_coordinates: tail of the routine")
    head = ["/-- `AtomGrid.integrate_angular_coordinates(func_vals)` for one function (last axis of `func_vals`). -/",
            "def integrateAngular [LT K] [DecidableLT K] (g : AGrid K) (func_vals : Nat → K) : Nat → K :="]
    return "\n".join(head + L + ["  radial_coefficients", ""])


def _average(fn):
    st = _body(fn)
    if [_src(s) for s in st[:1]] != ["f_radial = self.integrate_angular_coordinates(func_vals)"]:
        raise Untranslatable(f"spherical_average: {_src(st[0])}")
    s = st[1]
    if not (isinstance(s, ast.AugAssign) and _src(s.target) == "f_radial" and isinstance(s.op, ast.Div)):
        raise Untranslatable(f"spherical_average: {_src(s)}")
    ex = IEx({})
    if [_src(x) for x in st[2:]] != ["spline = CubicSpline(x=self.rgrid.points, y=f_radial)", "return spline"]:
        raise Untranslatable("spherical_average: tail of the routine")
    return "\n".join([
        "/-- `spherical_average`: `f_radial = self.integrate_angular_coordinates(func_vals)`; `" + _src(s) + "`. -/",
        "def averageValues [LT K] [DecidableLT K] (g : AGrid K) (func_vals : Nat → K) : Nat → K :=",
        f"  fun i => integrateAngular g func_vals i / {ex.asK(ex.tr(s.value))}",
        "",
        "/-- `spherical_average`: `spline = CubicSpline(x=self.rgrid.points, y=f_radial)`; `return spline`. -/",
        "def sphericalAverage [LT K] [DecidableLT K] (interp : List K → List K → K → Nat → K) (g : AGrid K) (func_vals : Nat → K) : K → Nat → K :=",
        "  interp ((List.range g.nShells).map g.r) ((List.range g.nShells).map (averageValues g func_vals))",
        ""])


def _degree_arg(call, what):
    if len(call.args) != 3 or call.keywords or [_src(a) for a in call.args[1:]] != ["theta", "phi"]:
        raise Untranslatable(f"{what}: {_src(call)}")
    ex = IEx({"self.l_max": ("N", "l_max")})
    return ex.asNat(ex.tr(call.args[0])), _src(call.args[0])


def _splines(fn):
    if [a.arg for a in fn.args.args] != ["self", "func_vals"]:
        raise Untranslatable("radial_component_splines: signature")
    st = _body(fn)
    out = []
    # size guard
    s = st[0]
    if not (isinstance(s, ast.If) and _src(s.test) == "func_vals.size != self.size" and len(s.body) == 1
            and isinstance(s.body[0], ast.Raise) and _src(s.body[0].exc).startswith("ValueError(") and not s.orelse):
        raise Untranslatable(f"radial_component_splines: guard {_src(s.test)}")
    out += ["/-- `radial_component_splines`: `if func_vals.size != self.size: raise ValueError`. -/",
            "def splinesRejects (g : AGrid K) (size : Nat) : Bool := size != g.npts", ""]
    # cached basis
    s = st[1]
    ok = (isinstance(s, ast.If) and _src(s.test) == "self._basis is None" and not s.orelse and len(s.body) == 2
          and _src(s.body[0]) == "theta, phi = self.convert_cartesian_to_spherical().T[1:]"
          and isinstance(s.body[1], ast.Assign) and _src(s.body[1].targets[0]) == "self._basis"
          and isinstance(s.body[1].value, ast.Call) and _src(s.body[1].value.func) == "generate_real_spherical_harmonics")
    if not ok:
        raise Untranslatable(f"radial_component_splines: basis block {_src(s)[:80]}")
    deg, degsrc = _degree_arg(s.body[1].value, "radial_component_splines")
    out += [f"/-- `radial_component_splines`: degree of the cached basis, `generate_real_spherical_harmonics({degsrc}, theta, phi)`. -/",
            f"def basisDegree (l_max : Nat) : Nat := {deg}", "",
            "/-- `radial_component_splines`: `if self._basis is None: theta, phi = self.convert_cartesian_to_spherical().T[1:];",
            f"self._basis = generate_real_spherical_harmonics({degsrc}, theta, phi)` — entry `[row, j]`; the angles of the atomic grid",
            "points (no argument) are `gridAngles` of the hand model; `Y` are the rows of the harmonics routine (property C08). -/",
            "def basis [LT K] [DecidableLT K] (g : AGrid K) (Y : Nat → K → K → K) (row j : Nat) : K :=",
            "  Y row (gridAngles g j).1 (gridAngles g j).2", ""]
    L = []
    # values = np.einsum("ln,n->ln", self._basis, func_vals)
    s = st[2]
    if _src(s) != "values = np.einsum('ln,n->ln', self._basis, func_vals)":
        raise Untranslatable(f"radial_component_splines: {_src(s)}")
    L += [f"  -- {_src(s)}", "  let values : Nat → Nat → K := fun l n => basis l n * func_vals n"]
    # radial_components = self.integrate_angular_coordinates(values)
    s = st[3]
    if _src(s) != "radial_components = self.integrate_angular_coordinates(values)":
        raise Untranslatable(f"radial_component_splines: {_src(s)}")
    L += [f"  -- {_src(s)}   (leading axis = row of the basis)",
          "  let radial_components : Nat → Nat → K := fun row i => integrateAngular g (values row) i"]
    # zeroing rule
    s = st[4]
    ok = (isinstance(s, ast.For) and _src(s.iter) == "range(self.n_shells)" and isinstance(s.target, ast.Name) and not s.orelse
          and len(s.body) == 1 and isinstance(s.body[0], ast.If) and not s.body[0].orelse and len(s.body[0].body) == 2)
    if not ok:
        raise Untranslatable(f"radial_component_splines: zeroing loop {_src(s)[:80]}")
    iv = s.target.id
    cnd = s.body[0]
    iex = IEx({iv: ("N", iv)})
    cond = iex.cond(cnd.test)
    a0, a1 = cnd.body
    if not (isinstance(a0, ast.Assign) and isinstance(a0.targets[0], ast.Name)):
        raise Untranslatable(f"radial_component_splines: {_src(a0)}")
    tmp = a0.targets[0].id
    tmpv = iex.asNat(iex.tr(a0.value))
    ok = (isinstance(a1, ast.Assign) and isinstance(a1.targets[0], ast.Subscript) and _src(a1.targets[0].value) == "radial_components"
          and isinstance(a1.targets[0].slice, ast.Tuple) and len(a1.targets[0].slice.elts) == 2
          and isinstance(a1.targets[0].slice.elts[0], ast.Slice) and _src(a1.targets[0].slice.elts[0]) == f"{tmp}:"
          and _src(a1.targets[0].slice.elts[1]) == iv)
    if not ok:
        raise Untranslatable(f"radial_component_splines: {_src(a1)}")
    val = IEx({}).asK(IEx({}).tr(a1.value))
    L += [f"  -- for {iv} in range(self.n_shells): if {_src(cnd.test)}: {_src(a0)}; {_src(a1)}",
          f"  let radial_components : Nat → Nat → K := fun row {iv} =>",
          f"    if {cond} then",
          f"      let {tmp} : Nat := {tmpv}",
          f"      if {tmp} ≤ row then {val} else radial_components row {iv}",
          f"    else radial_components row {iv}"]
    s = st[5]
    if len(st) != 6 or _src(s) != "return [CubicSpline(x=self.rgrid.points, y=sph_val) for sph_val in radial_components]":
        raise Untranslatable(f"radial_component_splines: {_src(s)}")
    out += ["/-- `radial_components[row, i]` of `radial_component_splines`, given the (cached) basis array. -/",
            "def radialComponents [LT K] [DecidableLT K] (g : AGrid K) (basis : Nat → Nat → K) (func_vals : Nat → K) : Nat → Nat → K :="]
    out += L + ["  radial_components", ""]
    out += [f"/-- `radial_component_splines`: `{_src(s)}` — the spline of row `row`. -/",
            "def radialComponentSplines [LT K] [DecidableLT K] (interp : List K → List K → K → Nat → K) (g : AGrid K)",
            "    (Y : Nat → K → K → K) (func_vals : Nat → K) (row : Nat) : K → Nat → K :=",
            "  interp ((List.range g.nShells).map g.r) ((List.range g.nShells).map (radialComponents g (basis g Y) func_vals row))", ""]
    return "\n".join(out)


def _eval_degrees(fn):
    """Degree argument of every harmonics call inside `interpolate` (incl. `interpolate_low`)."""
    calls = [n for n in ast.walk(fn) if isinstance(n, ast.Call) and isinstance(n.func, ast.Name)
             and n.func.id in ("generate_real_spherical_harmonics", "generate_derivative_real_spherical_harmonics",
                               "generate_real_spherical_harmonics_scipy")]
    kinds = [c.func.id for c in calls]
    if sorted(kinds) != ["generate_derivative_real_spherical_harmonics", "generate_real_spherical_harmonics"]:
        raise Untranslatable(f"interpolate: harmonics calls {kinds}")
    out = []
    for c in calls:
        deg, src = _degree_arg(c, "interpolate")
        name = "evalDegree" if c.func.id == "generate_real_spherical_harmonics" else "evalDerivDegree"
        out += [f"/-- `interpolate_low`: `{c.func.id}({src}, theta, phi)`. -/", f"def {name} (l_max : Nat) : Nat := {deg}", ""]
    # the splines come from radial_component_splines(func_vals)
    b = _body(fn)
    if _src(b[0]) != "splines = self.radial_component_splines(func_vals)":
        raise Untranslatable(f"interpolate: {_src(b[0])}")
    return "\n".join(out)


# ------------------------------------------------------------------------------------------------
# round 3: convert_cartesian_to_spherical, interpolate_low (atomic and molecular), statement by statement
# ------------------------------------------------------------------------------------------------
def _need(ok, where, node):
    if not ok:
        raise Untranslatable(f"{where}: {_src(node)[:90]}")


def _bool_const(e, where):
    _need(isinstance(e, ast.Constant) and isinstance(e.value, bool), where, e)
    return "true" if e.value else "false"


def _int_const(e, where):
    """integer literal, possibly negative -> Python int"""
    if isinstance(e, ast.UnaryOp) and isinstance(e.op, ast.USub) and isinstance(e.operand, ast.Constant) and type(e.operand.value) is int:
        return -e.operand.value
    _need(isinstance(e, ast.Constant) and type(e.value) is int, where, e)
    return e.value


NATCMP = {ast.Eq: "=", ast.NotEq: "≠", ast.Lt: "<", ast.LtE: "≤", ast.Gt: ">", ast.GtE: "≥"}
BOOLCMP = {ast.Eq: "==", ast.NotEq: "!="}


def _defaults(fn, names, where):
    """signature `(points, a=<int>, b=<bool>, c=<bool>)` -> Lean triple of the defaults"""
    a = fn.args
    _need([x.arg for x in a.args] == names and not (a.vararg or a.kwarg or a.kwonlyargs or a.posonlyargs) and len(a.defaults) == 3, where + ": signature", fn.args)
    d0 = _int_const(a.defaults[0], where + ": default of " + names[1])
    _need(d0 >= 0, where + ": default of " + names[1], a.defaults[0])
    return f"({d0}, {_bool_const(a.defaults[1], where)}, {_bool_const(a.defaults[2], where)})"


def _convert(fn):
    W = "convert_cartesian_to_spherical"
    a = fn.args
    _need([x.arg for x in a.args] == ["self", "points", "center"] and [_src(d) for d in a.defaults] == ["None", "None"], W + ": signature", a)
    st = _body(fn)
    _need(len(st) == 7, W + ": number of statements", fn)
    L = []
    # 0. is_atomic = False
    s = st[0]
    _need(isinstance(s, ast.Assign) and _src(s.targets[0]) == "is_atomic", W, s)
    L += [f"  -- {_src(s)}", f"  let is_atomic : Bool := {_bool_const(s.value, W)}"]
    # 1. if points is None: points = self.points; is_atomic = True
    s = st[1]
    _need(isinstance(s, ast.If) and _src(s.test) == "points is None" and not s.orelse and len(s.body) == 2
          and _src(s.body[0]) == "points = self.points" and isinstance(s.body[1], ast.Assign) and _src(s.body[1].targets[0]) == "is_atomic", W, s)
    L += [f"  -- if {_src(s.test)}: {_src(s.body[0])}; {_src(s.body[1])}",
          "  let (points, is_atomic) : NdArr K × Bool :=",
          "    match points with",
          "    | none =>",
          "      let points : NdArr K := g.pointsArr",
          f"      let is_atomic : Bool := {_bool_const(s.body[1].value, W)}",
          "      (points, is_atomic)",
          "    | some points => (points, is_atomic)"]
    # 2. if points.ndim == 1: points = points.reshape(-1, 3)
    s = st[2]
    ok = (isinstance(s, ast.If) and not s.orelse and len(s.body) == 1 and isinstance(s.test, ast.Compare) and len(s.test.ops) == 1
          and _src(s.test.left) == "points.ndim" and type(s.test.ops[0]) in NATCMP)
    _need(ok, W, s)
    nd = _int_const(s.test.comparators[0], W)
    _need(nd >= 0, W, s.test)
    b = s.body[0]
    ok = (isinstance(b, ast.Assign) and _src(b.targets[0]) == "points" and isinstance(b.value, ast.Call) and _src(b.value.func) == "points.reshape"
          and not b.value.keywords and len(b.value.args) >= 1)
    _need(ok, W, b)
    dims = ", ".join(f"({_int_const(x, W)} : Int)" for x in b.value.args)
    L += [f"  -- if {_src(s.test)}: {_src(b)}",
          "  let points : NdArr K ←",
          f"    if (points.ndim {NATCMP[type(s.test.ops[0])]} {nd}) then",
          f"      (match pyReshape points [{dims}] with",
          "       | some a => pure a",
          "       | none => Except.error Err.valueError)",
          "    else pure points"]
    # 3. center = self.center if center is None else np.asarray(center)
    s = st[3]
    _need(_src(s) == "center = self.center if center is None else np.asarray(center)", W, s)
    L += [f"  -- {_src(s)}",
          "  let center : K × K × K :=",
          "    match center with",
          "    | none => g.center.tup",
          "    | some center => center"]
    # 4. spherical_points = convert_cart_to_sph(points, center)
    s = st[4]
    _need(_src(s) == "spherical_points = convert_cart_to_sph(points, center)", W, s)
    L += [f"  -- {_src(s)}", "  let spherical_points ← cartToSphArr points (some center)"]
    # 5. if is_atomic: r_index = np.where(self.rgrid.points == 0.0)[0]; for i in r_index: …
    s = st[5]
    _need(isinstance(s, ast.If) and _src(s.test) == "is_atomic" and not s.orelse and len(s.body) == 2, W, s)
    w, lp = s.body
    ok = (isinstance(w, ast.Assign) and _src(w.targets[0]) == "r_index" and isinstance(w.value, ast.Subscript) and _src(w.value.slice) == "0"
          and isinstance(w.value.value, ast.Call) and _np_attr(w.value.value.func, ("where",)) and len(w.value.value.args) == 1
          and not w.value.value.keywords and isinstance(w.value.value.args[0], ast.Compare))
    _need(ok, W, w)
    sh = IEx({"self.rgrid.points": ("K", "(g.r i)")})
    cmp_ = w.value.value.args[0]
    _need(not ({n.id for n in ast.walk(cmp_) if isinstance(n, ast.Name)} - {"self"}), W, w)
    ok = (isinstance(lp, ast.For) and _src(lp.iter) == "r_index" and isinstance(lp.target, ast.Name) and not lp.orelse and len(lp.body) == 4)
    _need(ok, W, lp)
    lv = lp.target.id
    b0, b1, b2, b3 = lp.body
    _need(_src(b0) == f"agrid = AngularGrid(degree=self._degs[{lv}], method=self.method)", W, b0)
    iex = IEx({lv: ("N", lv)})
    bounds = []
    for b_ in (b1, b2):
        _need(isinstance(b_, ast.Assign) and isinstance(b_.targets[0], ast.Name) and isinstance(b_.value, ast.Subscript)
              and _src(b_.value.value) in ("self._indices", "self.indices"), W, b_)
        bounds.append((b_.targets[0].id, iex.asNat(iex.tr(b_.value))))
    (lo, lov), (hi, hiv) = bounds
    _need(lo != hi, W, b2)
    # spherical_points[i_index:f_index, 1:] = convert_cart_to_sph(agrid.points)[:, 1:]
    ok = (isinstance(b3, ast.Assign) and isinstance(b3.targets[0], ast.Subscript) and _src(b3.targets[0].value) == "spherical_points"
          and isinstance(b3.targets[0].slice, ast.Tuple) and len(b3.targets[0].slice.elts) == 2
          and _src(b3.targets[0].slice.elts[0]) == f"{lo}:{hi}" and isinstance(b3.targets[0].slice.elts[1], ast.Slice)
          and isinstance(b3.value, ast.Subscript) and _src(b3.value.value) == "convert_cart_to_sph(agrid.points)"
          and isinstance(b3.value.slice, ast.Tuple) and len(b3.value.slice.elts) == 2 and _is_slice_all_(b3.value.slice.elts[0])
          and isinstance(b3.value.slice.elts[1], ast.Slice))
    _need(ok, W, b3)
    cl, cr = b3.targets[0].slice.elts[1], b3.value.slice.elts[1]
    _need(cl.upper is None and cl.step is None and cl.lower is not None and _src(cl) == _src(cr), W + ": column slices of both sides", b3)
    col = _int_const(cl.lower, W)
    _need(0 <= col <= 3, W, b3)
    L += [f"  -- if {_src(s.test)}:",
          "  let spherical_points : Nat × (Nat → K × K × K) :=",
          "    if is_atomic then",
          f"      -- {_src(w)}",
          f"      let r_index : List Nat := (List.range g.nShells).filter fun i => decide {sh.cond(cmp_)}",
          f"      -- for {lv} in r_index: {_src(b0)}; {_src(b1)}; {_src(b2)}; {_src(b3)}",
          f"      r_index.foldl (fun spherical_points {lv} =>",
          f"        let {lo} : Nat := {lov}",
          f"        let {hi} : Nat := {hiv}",
          "        (spherical_points.1, fun j =>",
          f"          if {lo} ≤ j ∧ j < {hi} then",
          f"            colsFrom {col} (spherical_points.2 j) (Gen.Harmonics.cartToSph (g.regenPts {lv} (j - {lo})).tup (Gen.Harmonics.centerOrOrigin none))",
          "          else spherical_points.2 j)) spherical_points",
          "    else spherical_points"]
    _need(_src(st[6]) == "return spherical_points", W, st[6])
    L += ["  -- return spherical_points", "  pure spherical_points", ""]
    head = [
        "/-- `convert_cart_to_sph(points, center)` of `grid/utils.py` applied to an array: its generated shape guard",
        "(`Gen.Harmonics.cartToSphRejectsPoints`), default centre and per-point body (`Gen.Harmonics.cartToSph`);",
        "answer = (number of rows, row `j` ↦ `(r, θ, φ)`). -/",
        "def cartToSphArr [LT K] [DecidableLT K] (points : NdArr K) (center : Option (K × K × K)) : Except Err (Nat × (Nat → K × K × K)) :=",
        "  if Gen.Harmonics.cartToSphRejectsPoints points.ndim (points.shape.getD 1 0) then .error .valueError",
        "  else .ok (points.shape.getD 0 0, fun j => Gen.Harmonics.cartToSph (points.row3 j) (Gen.Harmonics.centerOrOrigin center))",
        "",
        "/-- `AtomGrid.convert_cartesian_to_spherical(points, center)`, statement by statement (`none` = the default `None`).",
        "`AngularGrid(degree=self._degs[i], method=self.method).points` is the table `g.regenPts i` (an `(N_i, 3)` array). -/",
        "def convertCartesianToSpherical [LT K] [DecidableLT K] (g : AGrid K) (points : Option (NdArr K)) (center : Option (K × K × K)) :",
        "    Except Err (Nat × (Nat → K × K × K)) := do"]
    return "\n".join(head + L)


def _is_slice_all_(e):
    return isinstance(e, ast.Slice) and e.lower is None and e.upper is None and e.step is None


def _flag_test(e, where):
    """`not only_radial_deriv and deriv == 1` -> `(!only_radial_deriv && deriv == 1)`"""
    ok = (isinstance(e, ast.BoolOp) and isinstance(e.op, ast.And) and len(e.values) == 2 and isinstance(e.values[0], ast.UnaryOp)
          and isinstance(e.values[0].op, ast.Not) and _src(e.values[0].operand) == "only_radial_deriv"
          and isinstance(e.values[1], ast.Compare) and len(e.values[1].ops) == 1 and _src(e.values[1].left) == "deriv"
          and type(e.values[1].ops[0]) in BOOLCMP)
    _need(ok, where, e)
    k = _int_const(e.values[1].comparators[0], where)
    _need(k >= 0, where, e)
    return f"(!only_radial_deriv && deriv {BOOLCMP[type(e.values[1].ops[0])]} {k})"


def _einsum(e, where, tens):
    """`np.einsum('ij,ij->j', A, B)` with A a table, B a table or `T[k, :, :]` -> Lean `fun j => sumTo nspl fun i => …`"""
    ok = (isinstance(e, ast.Call) and _np_attr(e.func, ("einsum",)) and len(e.args) == 3 and not e.keywords
          and isinstance(e.args[0], ast.Constant) and isinstance(e.args[0].value, str) and e.args[0].value.replace(" ", "") == "ij,ij->j"
          and isinstance(e.args[1], ast.Name))
    _need(ok, where, e)
    a = e.args[1].id
    b = e.args[2]
    if isinstance(b, ast.Name):
        bt = b.id
    else:
        ok = (isinstance(b, ast.Subscript) and isinstance(b.value, ast.Name) and b.value.id in tens and isinstance(b.slice, ast.Tuple)
              and len(b.slice.elts) == 3 and _is_slice_all_(b.slice.elts[1]) and _is_slice_all_(b.slice.elts[2]))
        _need(ok, where, b)
        k = _int_const(b.slice.elts[0], where)
        _need(k >= 0, where, b)
        bt = f"{b.value.id} {k}"
    return a, bt, f"fun j => sumTo nspl fun i => {a} i j * {bt} i j"


def _spline_table(e, where):
    """`np.array([spline(r_pts, X) for spline in splines])` -> `fun i j => splines i (r_pts j) X`"""
    ok = (isinstance(e, ast.Call) and _np_attr(e.func, ("array",)) and len(e.args) == 1 and not e.keywords and isinstance(e.args[0], ast.ListComp)
          and len(e.args[0].generators) == 1 and not e.args[0].generators[0].ifs and _src(e.args[0].generators[0].iter) == "splines"
          and isinstance(e.args[0].generators[0].target, ast.Name))
    _need(ok, where, e)
    v = e.args[0].generators[0].target.id
    c = e.args[0].elt
    ok = isinstance(c, ast.Call) and _src(c.func) == v and len(c.args) == 2 and not c.keywords and _src(c.args[0]) == "r_pts"
    _need(ok, where, e)
    if isinstance(c.args[1], ast.Name):
        _need(c.args[1].id == "deriv", where, e)
        nu = "deriv"
    else:
        k = _int_const(c.args[1], where)
        _need(k >= 0, where, e)
        nu = str(k)
    return f"fun i j => splines i (r_pts j) {nu}"


def _harm_call(e, fname, where):
    ok = (isinstance(e, ast.Call) and isinstance(e.func, ast.Name) and e.func.id == fname)
    _need(ok, where, e)
    deg, _ = _degree_arg(e, where)
    return deg.replace("l_max", "g.lMax")


def _interp_low(outer):
    W = "interpolate_low"
    b = _body(outer)
    _need(len(b) == 3 and _src(b[0]) == "splines = self.radial_component_splines(func_vals)" and isinstance(b[1], ast.FunctionDef)
          and b[1].name == "interpolate_low" and _src(b[2]) == "return interpolate_low", "interpolate: body", outer)
    fn = b[1]
    dflt = _defaults(fn, ["points", "deriv", "deriv_spherical", "only_radial_deriv"], W)
    st = _body(fn)
    _need(len(st) == 6, W + ": number of statements", fn)
    out = ["/-- defaults of `interpolate_low(points, deriv, deriv_spherical, only_radial_deriv)` (signature of the inner function of `interpolate`). -/",
           f"def interpolateLowDefaults : Nat × Bool × Bool := {dflt}", ""]
    # 0. the warning
    s = st[0]
    ok = (isinstance(s, ast.If) and not s.orelse and len(s.body) == 1 and isinstance(s.body[0], ast.Expr) and isinstance(s.body[0].value, ast.Call)
          and _src(s.body[0].value.func) == "warnings.warn" and isinstance(s.test, ast.BoolOp) and isinstance(s.test.op, (ast.And, ast.Or))
          and all(isinstance(v, ast.Name) and v.id in ("deriv_spherical", "only_radial_deriv") for v in s.test.values))
    _need(ok, W, s)
    op = " && " if isinstance(s.test.op, ast.And) else " || "
    out += [f"/-- `interpolate_low`: `if {_src(s.test)}: warnings.warn(…)` — when the warning is issued (the result does not depend on it). -/",
            f"def warnsFlagIgnored (deriv_spherical only_radial_deriv : Bool) : Bool := ({op.join(v.id for v in s.test.values)})", ""]
    L = []
    # 1. r_pts, theta, phi = self.convert_cartesian_to_spherical(points).T
    s = st[1]
    _need(_src(s) == "r_pts, theta, phi = self.convert_cartesian_to_spherical(points).T", W, s)
    L += [f"  -- {_src(s)}",
          "  let sph ← convertCartesianToSpherical g (some points) none",
          "  let npts : Nat := sph.1",
          "  let r_pts : Nat → K := fun j => (sph.2 j).1",
          "  let theta : Nat → K := fun j => (sph.2 j).2.1",
          "  let phi : Nat → K := fun j => (sph.2 j).2.2"]
    # 2. r_values
    s = st[2]
    _need(isinstance(s, ast.Assign) and _src(s.targets[0]) == "r_values", W, s)
    L += [f"  -- {_src(s)}", f"  let r_values : Nat → Nat → K := {_spline_table(s.value, W)}"]
    # 3. r_sph_harm
    s = st[3]
    _need(isinstance(s, ast.Assign) and _src(s.targets[0]) == "r_sph_harm", W, s)
    L += [f"  -- {_src(s)}", f"  let r_sph_harm : Nat → Nat → K := fun i j => Yl {_harm_call(s.value, 'generate_real_spherical_harmonics', W)} i (theta j) (phi j)"]
    # 4. the derivative branch
    s = st[4]
    _need(isinstance(s, ast.If) and len(s.orelse) == 1 and isinstance(s.orelse[0], ast.If) and not s.orelse[0].orelse and len(s.body) == 9, W, s)
    L += [f"  -- if {_src(s.test)}:", f"  if {_flag_test(s.test, W)} then"]
    c0, c1, c2, c3, c4, c5, c6, c7, c8 = s.body
    _need(isinstance(c0, ast.Assign) and _src(c0.targets[0]) == "radial_components", W, c0)
    L += [f"    -- {_src(c0)}", f"    let radial_components : Nat → Nat → K := {_spline_table(c0.value, W)}"]
    _need(isinstance(c1, ast.Assign) and _src(c1.targets[0]) == "deriv_sph_harm", W, c1)
    L += [f"    -- {_src(c1)}",
          f"    let deriv_sph_harm : Nat → Nat → Nat → K := fun a i j => dYl {_harm_call(c1.value, 'generate_derivative_real_spherical_harmonics', W)} a i (theta j) (phi j)"]
    tables = {"r_values", "r_sph_harm", "radial_components"}
    for c, name in ((c2, "deriv_r"), (c3, "deriv_theta"), (c4, "deriv_phi")):
        _need(isinstance(c, ast.Assign) and _src(c.targets[0]) == name, W, c)
        a_, b_, txt = _einsum(c.value, W, {"deriv_sph_harm"})
        _need(a_ in tables and (b_ in tables or b_.startswith("deriv_sph_harm ")), W, c)
        L += [f"    -- {_src(c)}", f"    let {name} : Nat → K := {txt}"]
    # if deriv_spherical: return np.hstack((deriv_r, deriv_theta, deriv_phi))
    ok = (isinstance(c5, ast.If) and _src(c5.test) == "deriv_spherical" and not c5.orelse and len(c5.body) == 1 and isinstance(c5.body[0], ast.Return)
          and isinstance(c5.body[0].value, ast.Call) and _np_attr(c5.body[0].value.func, ("hstack",)) and len(c5.body[0].value.args) == 1
          and isinstance(c5.body[0].value.args[0], ast.Tuple) and all(isinstance(x, ast.Name) and x.id in ("deriv_r", "deriv_theta", "deriv_phi") for x in c5.body[0].value.args[0].elts))
    _need(ok, W, c5)
    parts = [x.id for x in c5.body[0].value.args[0].elts]
    L += [f"    -- if {_src(c5.test)}: {_src(c5.body[0])}",
          "    if deriv_spherical then",
          f"      Except.ok ([{' + '.join('npts' for _ in parts)}], {' ++ '.join(f'(List.range npts).map {x}' for x in parts)})",
          "    else"]
    # derivs = np.zeros((len(r_pts), 3))
    ok = (isinstance(c6, ast.Assign) and _src(c6.targets[0]) == "derivs" and isinstance(c6.value, ast.Call) and _np_attr(c6.value.func, ("zeros",))
          and len(c6.value.args) == 1 and not c6.value.keywords and isinstance(c6.value.args[0], ast.Tuple) and len(c6.value.args[0].elts) == 2
          and _src(c6.value.args[0].elts[0]) == "len(r_pts)")
    _need(ok, W, c6)
    ncol = _int_const(c6.value.args[0].elts[1], W)
    _need(ncol >= 0, W, c6)
    L += [f"    -- {_src(c6)}", f"    let derivs : List (List K) := List.replicate npts (List.replicate {ncol} ((0 : Nat) : K))"]
    # for i_pt in range(0, len(r_pts)): …
    ok = (isinstance(c7, ast.For) and isinstance(c7.target, ast.Name) and not c7.orelse and len(c7.body) == 2 and isinstance(c7.iter, ast.Call)
          and _src(c7.iter.func) == "range" and len(c7.iter.args) == 2 and not c7.iter.keywords and _src(c7.iter.args[1]) == "len(r_pts)")
    _need(ok, W, c7)
    lo = _int_const(c7.iter.args[0], W)
    _need(lo >= 0, W, c7)
    iv = c7.target.id
    t0, t1 = c7.body
    ok = (isinstance(t0, ast.Assign) and isinstance(t0.targets[0], ast.Tuple) and isinstance(t0.value, ast.Tuple)
          and len(t0.targets[0].elts) == len(t0.value.elts) and all(isinstance(x, ast.Name) for x in t0.targets[0].elts))
    _need(ok, W, t0)
    vecs = {"r_pts", "theta", "phi", "deriv_r", "deriv_theta", "deriv_phi"}
    loc = {}
    lets = []
    for tgt, val in zip(t0.targets[0].elts, t0.value.elts):
        _need(isinstance(val, ast.Subscript) and isinstance(val.value, ast.Name) and val.value.id in vecs and _src(val.slice) == iv, W, t0)
        loc[tgt.id] = True
        lets.append(f"      let {tgt.id} : K := {val.value.id} {iv}")
    ok = (isinstance(t1, ast.Assign) and _src(t1.targets[0]) == f"derivs[{iv}]" and isinstance(t1.value, ast.Call)
          and _src(t1.value.func) == "convert_derivative_from_spherical_to_cartesian" and len(t1.value.args) == 6 and not t1.value.keywords)
    _need(ok, W, t1)
    args = []
    for x in t1.value.args:
        if isinstance(x, ast.Name) and x.id in loc:
            args.append(x.id)
        else:
            _need(isinstance(x, ast.Subscript) and isinstance(x.value, ast.Name) and x.value.id in vecs and _src(x.slice) == iv, W, t1)
            args.append(f"({x.value.id} {iv})")
    L += [f"    -- for {iv} in {_src(c7.iter)}: {_src(t0)}; {_src(t1)}",
          f"    let derivs : List (List K) := (List.range' {lo} (npts - {lo})).foldl (fun derivs {iv} =>"] + lets + [
          f"      derivs.set {iv} (Gen.Harmonics.convDeriv {' '.join(args)})) derivs"]
    _need(_src(c8) == "return derivs", W, c8)
    L += ["    -- return derivs", f"    Except.ok ([npts, {ncol}], derivs.flatten)"]
    # elif not only_radial_deriv and deriv != 0: raise ValueError
    e = s.orelse[0]
    _need(len(e.body) == 1 and isinstance(e.body[0], ast.Raise) and _src(e.body[0].exc).startswith("ValueError("), W, e)
    L += [f"  -- elif {_src(e.test)}: raise ValueError(…)", f"  else if {_flag_test(e.test, W)} then", "    Except.error Err.valueError", "  else"]
    # 5. return np.einsum('ij, ij -> j', r_values, r_sph_harm)
    s5 = st[5]
    _need(isinstance(s5, ast.Return), W, s5)
    a_, b_, txt = _einsum(s5.value, W, set())
    _need(a_ in tables and b_ in tables, W, s5)
    L += [f"  -- {_src(s5)}", f"  Except.ok ([npts], (List.range npts).map {txt})", ""]
    head = ["/-- The inner `interpolate_low(points, deriv, deriv_spherical, only_radial_deriv)` of `AtomGrid.interpolate`, statement by statement.",
            "`splines` (`nspl = len(splines)`): the callables `spline(x, nu)`; `Yl d` / `dYl d` : the rows of `generate_real_spherical_harmonics(d, θ, φ)` /",
            "of `generate_derivative_real_spherical_harmonics(d, θ, φ)[a]` (property C08); the first operand of each `einsum` fixes the extent of `i`;",
            "answer = (shape, data in C order). -/",
            "def interpolateLow [LT K] [DecidableLT K] (g : AGrid K) (nspl : Nat) (splines : Nat → K → Nat → K)",
            "    (Yl : Nat → Nat → K → K → K) (dYl : Nat → Nat → Nat → K → K → K)",
            "    (points : NdArr K) (deriv : Nat) (deriv_spherical only_radial_deriv : Bool) : Except Err (List Nat × List K) := do"]
    return "\n".join(out + head + L)


def _mol_low():
    W = "MolGrid.interpolate.interpolate_low"
    tree = ast.parse((SRC / "molgrid.py").read_text())
    cls = next((n for n in tree.body if isinstance(n, ast.ClassDef) and n.name == "MolGrid"), None)
    if cls is None:
        raise Untranslatable("class MolGrid not found")
    outer = _method(cls, "interpolate")
    b = _body(outer)
    _need(len(b) >= 2 and isinstance(b[-2], ast.FunctionDef) and b[-2].name == "interpolate_low" and _src(b[-1]) == "return interpolate_low", W, outer)
    fn = b[-2]
    names = ["points", "deriv", "deriv_spherical", "only_radial_derivs"]
    dflt = _defaults(fn, names, W)
    st = _body(fn)
    _need(len(st) == 3, W + ": number of statements", fn)
    callargs = ", ".join(names)
    s0, s1, s2 = st
    ok = (isinstance(s0, ast.Assign) and _src(s0.targets[0]) == "output" and isinstance(s0.value, ast.Call) and isinstance(s0.value.func, ast.Subscript)
          and _src(s0.value.func.value) == "interpolate_funcs" and not s0.value.keywords and ", ".join(_src(a) for a in s0.value.args) == callargs)
    _need(ok, W, s0)
    k0 = _int_const(s0.value.func.slice, W)
    _need(k0 >= 0, W, s0)
    ok = (isinstance(s1, ast.For) and isinstance(s1.target, ast.Name) and not s1.orelse and len(s1.body) == 1 and isinstance(s1.iter, ast.Subscript)
          and _src(s1.iter.value) == "interpolate_funcs" and isinstance(s1.iter.slice, ast.Slice) and s1.iter.slice.upper is None
          and s1.iter.slice.step is None and s1.iter.slice.lower is not None)
    _need(ok, W, s1)
    k1 = _int_const(s1.iter.slice.lower, W)
    _need(k1 >= 0, W, s1)
    fv = s1.target.id
    a1 = s1.body[0]
    ok = (isinstance(a1, ast.AugAssign) and isinstance(a1.op, ast.Add) and _src(a1.target) == "output" and isinstance(a1.value, ast.Call)
          and _src(a1.value.func) == fv and not a1.value.keywords and ", ".join(_src(a) for a in a1.value.args) == callargs)
    _need(ok, W, a1)
    _need(_src(s2) == "return output", W, s2)
    largs = "points deriv deriv_spherical only_radial_derivs"
    return "\n".join([
        "/-- defaults of the inner `interpolate_low(points, deriv, deriv_spherical, only_radial_derivs)` of `MolGrid.interpolate`. -/",
        f"def molInterpolateLowDefaults : Nat × Bool × Bool := {dflt}", "",
        "/-- The inner `interpolate_low` of `MolGrid.interpolate` (grid/molgrid.py), statement by statement; `interpolate_funcs`: the callables",
        "returned by `AtomGrid.interpolate` for the atoms, `output += …` = entrywise sum of arrays of one shape (`addOut`). -/",
        "def molInterpolateLow {P : Type} (interpolate_funcs : List (P → Nat → Bool → Bool → Except Err (List Nat × List K)))",
        "    (points : P) (deriv : Nat) (deriv_spherical only_radial_derivs : Bool) : Except Err (List Nat × List K) := do",
        f"  -- {_src(s0)}",
        f"  let f0 ← (match interpolate_funcs[{k0}]? with | some f => pure f | none => Except.error Err.indexError)",
        f"  let output ← f0 {largs}",
        f"  -- for {fv} in {_src(s1.iter)}: {_src(a1)}",
        f"  let output ← (interpolate_funcs.drop {k1}).foldlM (fun output {fv} => do",
        f"    let rhs ← {fv} {largs}",
        "    pure (output.1, addOut output.2 rhs.2)) output",
        "  -- return output",
        "  pure output", ""])


def _mol_interpolate():
    """`MolGrid.interpolate` (grid/molgrid.py) outside its inner function, statement by statement (round 6): the store guard, the
    product with the atom-in-molecule weights — also when it is written as an `if len(self.atcoords) <cmp> k:` with one such assignment in
    each branch —, the loop over the atoms with its slice bounds, the call of the atomic `interpolate` on the slice."""
    W = "MolGrid.interpolate"
    tree = ast.parse((SRC / "molgrid.py").read_text())
    cls = next((n for n in tree.body if isinstance(n, ast.ClassDef) and n.name == "MolGrid"), None)
    if cls is None:
        raise Untranslatable("class MolGrid not found")
    outer = _method(cls, "interpolate")
    _need([a.arg for a in outer.args.args] == ["self", "func_vals"], W + ": signature", outer.args)
    b = _body(outer)
    _need(len(b) == 6, W + ": number of statements", outer)
    g0, asg, init, loop = b[0], b[1], b[2], b[3]
    ok = (isinstance(g0, ast.If) and _src(g0.test) == "self.atgrids is None" and not g0.orelse and len(g0.body) == 1 and isinstance(g0.body[0], ast.Raise)
          and _src(g0.body[0].exc).startswith("ValueError("))
    _need(ok, W, g0)
    ex = IEx({"func_vals": ("K", "(func_vals j)"), "self.aim_weights": ("K", "(m.aim j)")})

    def assign(st_):
        _need(isinstance(st_, ast.Assign) and _src(st_.targets[0]) == "func_vals_atom", W, st_)
        _need({n.id for n in ast.walk(st_.value) if isinstance(n, ast.Name)} <= {"func_vals", "self"}, W, st_)
        return f"fun j => {ex.asK(ex.tr(st_.value))}"
    L = []
    if isinstance(asg, ast.If):
        t = asg.test
        ok = (isinstance(t, ast.Compare) and len(t.ops) == 1 and _src(t.left) == "len(self.atcoords)" and type(t.ops[0]) in NATCMP and len(asg.body) == 1 and len(asg.orelse) == 1)
        _need(ok, W, asg)
        k = _int_const(t.comparators[0], W)
        _need(k >= 0, W, asg)
        L += [f"  -- if {_src(t)}: {_src(asg.body[0])} else: {_src(asg.orelse[0])}",
              f"  let func_vals_atom : Nat → K := if (m.nAtoms {NATCMP[type(t.ops[0])]} {k}) then ({assign(asg.body[0])}) else ({assign(asg.orelse[0])})"]
    else:
        L += [f"  -- {_src(asg)}", f"  let func_vals_atom : Nat → K := {assign(asg)}"]
    _need(_src(init) == "interpolate_funcs = []", W, init)
    ok = (isinstance(loop, ast.For) and _src(loop.iter) == "range(len(self.atcoords))" and isinstance(loop.target, ast.Name) and not loop.orelse and len(loop.body) == 4)
    _need(ok, W, loop)
    iv = loop.target.id
    b1, b2, b3, b4 = loop.body
    iex = IEx({iv: ("N", iv)})
    bounds = []
    for b_ in (b1, b2):
        _need(isinstance(b_, ast.Assign) and isinstance(b_.targets[0], ast.Name) and isinstance(b_.value, ast.Subscript) and _src(b_.value.value) in ("self.indices", "self._indices")
              and not isinstance(b_.value.slice, (ast.Slice, ast.Tuple)), W, b_)
        bounds.append((b_.targets[0].id, iex.asNat(iex.tr(b_.value.slice))))
    (lo, lov), (hi, hiv) = bounds
    _need(lo != hi and _src(b3) == f"atom_grid = self[{iv}]", W, b3)
    _need(_src(b4) == f"interpolate_funcs.append(atom_grid.interpolate(func_vals_atom[{lo}:{hi}]))", W, b4)
    _need(isinstance(b[4], ast.FunctionDef) and b[4].name == "interpolate_low" and _src(b[5]) == "return interpolate_low", W, b[5])
    L += [f"  -- {_src(init)}; for {iv} in {_src(loop.iter)}: {_src(b1)}; {_src(b2)}; {_src(b3)}; {_src(b4)}",
          f"  let interpolate_funcs := (List.range m.nAtoms).map fun {iv} =>",
          f"    let {lo} : Nat := m.aidx {lov}",
          f"    let {hi} : Nat := m.aidx {hiv}",
          f"    let atom_grid : AGrid K := m.atom {iv}",
          f"    atom_interpolate atom_grid (fun j => func_vals_atom ({lo} + j))",
          "  -- def interpolate_low(…): …; return interpolate_low",
          "  molInterpolateLow interpolate_funcs", ""]
    head = ["/-- `MolGrid.interpolate(func_vals)` (grid/molgrid.py), statement by statement, after its guard `if self.atgrids is None: raise ValueError` (`store=True`);",
            "`atom_interpolate g f` is `AtomGrid.interpolate` of the stored atomic grid `g` on the function values `f` (re-indexed from 0: the slice",
            "`func_vals_atom[start_index:final_index]`); the answer is the inner `interpolate_low` (generated above) closed over the atomic interpolants. -/",
            "def molInterpolate {P : Type} (m : GridVerif.AtomInterp.MGrid K)",
            "    (atom_interpolate : AGrid K → (Nat → K) → P → Nat → Bool → Bool → Except Err (List Nat × List K)) (func_vals : Nat → K) :",
            "    P → Nat → Bool → Bool → Except Err (List Nat × List K) :="]
    return "\n".join(head + L)


def _basis_angles(fn):
    """`theta, phi = self.convert_cartesian_to_spherical().T[1:]` of radial_component_splines (text checked by `_splines`)."""
    return "\n".join([
        "/-- `radial_component_splines`: `theta, phi = self.convert_cartesian_to_spherical().T[1:]` through the generated",
        "`convert_cartesian_to_spherical` (rows `1:` of the transposed array = the two angle columns). -/",
        "def basisAngles [LT K] [DecidableLT K] (g : AGrid K) : Except Err (Nat → K × K) := do",
        "  let sph ← convertCartesianToSpherical g none none",
        "  pure fun j => ((sph.2 j).2.1, (sph.2 j).2.2)", ""])


def render() -> str:
    tree = ast.parse((SRC / "atomgrid.py").read_text())
    cls = next((n for n in tree.body if isinstance(n, ast.ClassDef) and n.name == "AtomGrid"), None)
    if cls is None:
        raise Untranslatable("class AtomGrid not found")
    parts = [
        HEADER.format(name="atominterp", source="src/grid/atomgrid.py (AtomGrid.integrate_angular_coordinates, spherical_average, "
                      "radial_component_splines, convert_cartesian_to_spherical, interpolate with its inner interpolate_low) and "
                      "src/grid/molgrid.py (the inner interpolate_low of MolGrid.interpolate)"),
        "import GridVerif.Model.Elem\nimport GridVerif.Model.AtomInterp\nimport GridVerif.Gen.Harmonics\n\nset_option linter.unusedVariables false\n",
        "namespace GridVerif.Gen.AtomInterp\nopen GridVerif.AtomInterp (AGrid sumTo sumIco gridAngles NdArr pyReshape colsFrom Err addOut)\nopen GridVerif.GenBase (eqK)\n",
        "section generic\nvariable {K : Type} [Add K] [Sub K] [Mul K] [Div K] [Neg K] [NatCast K] [Elem K]\n",
        _integrate(_method(cls, "integrate_angular_coordinates")),
        _average(_method(cls, "spherical_average")),
        _splines(_method(cls, "radial_component_splines")),
        _eval_degrees(_method(cls, "interpolate")),
        _convert(_method(cls, "convert_cartesian_to_spherical")),
        _basis_angles(_method(cls, "radial_component_splines")),
        _interp_low(_method(cls, "interpolate")),
        _mol_low(),
        _mol_interpolate(),
        "end generic\n\nend GridVerif.Gen.AtomInterp\n",
    ]
    return "\n".join(parts)


def generate():
    return write_if_changed("AtomInterp.lean", render())


if __name__ == "__main__":
    print(generate()[1])

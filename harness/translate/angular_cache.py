"""Translator for C19: the copy discipline of AngularGrid.__init__, the `set_maximum_parameter_b`
state update of the b-scaled radial transforms, and the freshness of what the Coulomb
parameter loader returns  ->  Gen/AngularCache.lean."""
import ast

from ..common import SRC
from .util import HEADER, write_if_changed


class Unsupported(Exception):
    pass


def _fresh(e) -> bool:
    """Is the expression a new array (True) or the loaded/cached object itself (False)?"""
    if isinstance(e, ast.BinOp):
        return True
    if isinstance(e, ast.Call):
        f = e.func
        if isinstance(f, ast.Attribute) and f.attr == "copy" and not e.args:
            return True
        if isinstance(f, ast.Attribute) and isinstance(f.value, ast.Name) and f.value.id == "np" and f.attr in ("array", "copy"):
            return True
        raise Unsupported(f"angular.AngularGrid.__init__: cannot classify call {ast.unparse(e)}")
    if isinstance(e, ast.Name):
        return False
    raise Unsupported(f"angular.AngularGrid.__init__: cannot classify {ast.unparse(e)}")


def angular_discipline():
    tree = ast.parse((SRC / "angular.py").read_text())
    cls = next(n for n in tree.body if isinstance(n, ast.ClassDef) and n.name == "AngularGrid")
    init = next(n for n in cls.body if isinstance(n, ast.FunctionDef) and n.name == "__init__")
    found = None
    for n in ast.walk(init):
        if isinstance(n, ast.If):
            def sup(body):
                calls = [s.value for s in body if isinstance(s, ast.Expr) and isinstance(s.value, ast.Call)
                         and ast.unparse(s.value.func) == "super().__init__"]
                return calls[0] if len(calls) == 1 and len(body) == 1 else None
            a, b = sup(n.body), sup(n.orelse)
            if a is not None and b is not None:
                if found is not None:
                    raise Unsupported("angular.AngularGrid.__init__: more than one super().__init__ branch pair")
                found = (n, a, b)
    if found is None:
        # a single unconditional call
        calls = [n for n in ast.walk(init) if isinstance(n, ast.Call) and ast.unparse(n.func) == "super().__init__"]
        if len(calls) != 1:
            raise Unsupported("angular.AngularGrid.__init__: super().__init__ call pattern not recognised")
        c = calls[0]
        pf, wf = _fresh(c.args[0]), _fresh(c.args[1])
        return dict(plain=(pf, wf), scaled=(pf, wf), plain_methods=[])
    n, a, b = found
    test = n.test
    if not (isinstance(test, ast.Compare) and len(test.ops) == 1 and isinstance(test.ops[0], ast.In)
            and isinstance(test.comparators[0], (ast.List, ast.Tuple))):
        raise Unsupported("angular.AngularGrid.__init__: branch test is not `method in [...]`")
    methods = [e.value for e in test.comparators[0].elts]
    for c in (a, b):
        if len(c.args) != 2 or c.keywords:
            raise Unsupported("angular.AngularGrid.__init__: super().__init__ arguments")
    # the cache must hold the loaded arrays and hand back the stored pair
    src = ast.unparse(init)
    if "cache_dict[degree] = (points, weights)" not in src or "points, weights = cache_dict[degree]" not in src:
        raise Unsupported("angular.AngularGrid.__init__: cache fill / reuse statements not recognised")
    return dict(plain=(_fresh(a.args[0]), _fresh(a.args[1])), scaled=(_fresh(b.args[0]), _fresh(b.args[1])),
                plain_methods=methods)


def cache_protocol():
    """Shape of the cache protocol in AngularGrid.__init__ (what the hand model `Aliasing.step` assumes):
    which cache each method uses, that the key is the resolved degree, that a miss loads and stores only
    under `if cache:`, that a hit hands back the stored pair."""
    tree = ast.parse((SRC / "angular.py").read_text())
    cls = next(n for n in tree.body if isinstance(n, ast.ClassDef) and n.name == "AngularGrid")
    init = next(n for n in cls.body if isinstance(n, ast.FunctionDef) and n.name == "__init__")
    body = [s for s in init.body if not (isinstance(s, ast.Expr) and isinstance(s.value, ast.Constant))]
    # method normalisation and the if-chain choosing the cache
    normalised = any(isinstance(s, ast.Assign) and ast.unparse(s) == "method = method.lower()" for s in body)
    chain = next((s for s in body if isinstance(s, ast.If) and ast.unparse(s.test).startswith("method ==")), None)
    if chain is None:
        raise Unsupported("angular.AngularGrid.__init__: the if-chain choosing the cache was not found")
    mapping, node = [], chain
    idx_norm = next((i for i, s in enumerate(body) if isinstance(s, ast.Assign) and ast.unparse(s) == "method = method.lower()"), None)
    if normalised and idx_norm > body.index(chain):
        normalised = False
    while True:
        t = node.test
        if not (isinstance(t, ast.Compare) and len(t.ops) == 1 and isinstance(t.ops[0], ast.Eq) and ast.unparse(t.left) == "method"
                and isinstance(t.comparators[0], ast.Constant) and isinstance(t.comparators[0].value, str)):
            raise Unsupported(f"angular.AngularGrid.__init__: cache chain test {ast.unparse(t)}")
        if not (len(node.body) == 1 and isinstance(node.body[0], ast.Assign) and ast.unparse(node.body[0].targets[0]) == "cache_dict"
                and isinstance(node.body[0].value, ast.Name)):
            raise Unsupported(f"angular.AngularGrid.__init__: cache chain body {ast.unparse(node.body[0])[:80]}")
        mapping.append((t.comparators[0].value, node.body[0].value.id))
        if len(node.orelse) == 1 and isinstance(node.orelse[0], ast.If):
            node = node.orelse[0]
            continue
        if not (len(node.orelse) == 1 and isinstance(node.orelse[0], ast.Raise)):
            raise Unsupported("angular.AngularGrid.__init__: cache chain does not end in a raise")
        break
    # other assignments to cache_dict would change which cache is used
    n_assign = sum(1 for n in ast.walk(init) if isinstance(n, ast.Assign) and any(ast.unparse(t) == "cache_dict" for t in n.targets))
    if n_assign != len(mapping):
        raise Unsupported("angular.AngularGrid.__init__: cache_dict assigned outside the method chain")
    # the lookup
    def has_load(stmts):
        return any(isinstance(n, ast.Call) and ast.unparse(n.func) == "self._load_precomputed_angular_grid" for st in stmts for n in ast.walk(st))
    look = [s for s in body if isinstance(s, ast.If) and ast.unparse(s.test) in ("degree not in cache_dict", "degree in cache_dict")
            and (has_load(s.body) or has_load(s.orelse))]
    if len(look) != 1:
        raise Unsupported("angular.AngularGrid.__init__: cache lookup `degree [not] in cache_dict` around the loader not found exactly once")
    look = look[0]
    miss, hit = (look.body, look.orelse) if ast.unparse(look.test) == "degree not in cache_dict" else (look.orelse, look.body)
    # the request is resolved through the tables by `_get_degree_and_size`: where, under which condition, with which arguments
    res_nodes = [n for n in ast.walk(init) if isinstance(n, ast.Assign) and isinstance(n.value, ast.Call)
                 and ast.unparse(n.value.func) == "self._get_degree_and_size"]
    if len(res_nodes) != 1 or ast.unparse(res_nodes[0].targets[0]) != "(degree, size)":
        raise Unsupported("angular.AngularGrid.__init__: `degree, size = self._get_degree_and_size(...)` not found exactly once")
    resolve = [i for i, s in enumerate(body) if s is res_nodes[0]]
    resolve_unconditional = len(resolve) == 1
    kw = {k.arg: ast.unparse(k.value) for k in res_nodes[0].value.keywords}
    resolve_args_plain = (not res_nodes[0].value.args) and kw == {"degree": "degree", "size": "size", "method": "method"}
    size_clears = any(isinstance(s, ast.If) and ast.unparse(s.test) == "size is not None" and not s.orelse
                      and any(isinstance(x, ast.Assign) and ast.unparse(x) == "degree = None" for x in s.body)
                      and (not resolve or body.index(s) < resolve[0]) for s in body)
    key_resolved = len(resolve) == 1 and resolve[0] < body.index(look) and not any(
        isinstance(n, ast.Name) and n.id == "degree" and isinstance(n.ctx, ast.Store)
        for s in body[resolve[0] + 1:] for n in ast.walk(s))
    loads = [s for s in miss if isinstance(s, ast.Assign) and ast.unparse(s.targets[0]) == "(points, weights)"
             and ast.unparse(s.value).startswith("self._load_precomputed_angular_grid(")]
    stores = [s for s in miss if not (isinstance(s, ast.Assign) and s in loads)]
    guarded = (len(loads) == 1 and len(stores) == 1 and isinstance(stores[0], ast.If) and ast.unparse(stores[0].test) == "cache"
               and not stores[0].orelse and len(stores[0].body) == 1
               and ast.unparse(stores[0].body[0]) in ("cache_dict[degree] = (points, weights)",))
    unguarded = (len(loads) == 1 and len(stores) == 1 and ast.unparse(stores[0]) == "cache_dict[degree] = (points, weights)")
    if not (guarded or unguarded):
        raise Unsupported("angular.AngularGrid.__init__: the miss branch is not `load; if cache: cache_dict[degree] = (points, weights)`")
    hit_ok = len(hit) == 1 and ast.unparse(hit[0]) == "points, weights = cache_dict[degree]"
    if not hit_ok:
        raise Unsupported("angular.AngularGrid.__init__: the hit branch is not `points, weights = cache_dict[degree]`")
    # nothing else may touch cache_dict
    # every use of cache_dict is one of: the chain, a membership test of `degree`, the store, the hit read
    par = _parents(init)
    for n in ast.walk(init):
        if isinstance(n, ast.Name) and n.id == "cache_dict":
            p_ = par.get(id(n))
            ok = (isinstance(n.ctx, ast.Store) and isinstance(p_, ast.Assign)) \
                or (isinstance(p_, ast.Compare) and ast.unparse(p_) in ("degree not in cache_dict", "degree in cache_dict")) \
                or (isinstance(p_, ast.Subscript) and ast.unparse(p_) == "cache_dict[degree]")
            if not ok:
                raise Unsupported(f"angular.AngularGrid.__init__: use of cache_dict not recognised: {ast.unparse(p_)[:80]}")
    return dict(mapping=mapping, normalised=normalised, key_resolved=key_resolved, guarded=guarded,
                resolve_unconditional=resolve_unconditional, resolve_args_plain=resolve_args_plain, size_clears=size_clears)


CHECKS = {}     # class -> (order of assignment and zero check, strict comparison?, threshold); filled by b_machine()


def t1d_order():
    """Order of the top-level statements of `BaseTransform.transform_1d_grid` relative to the calls that can fix the
    remembered scale: each statement is tagged `raise:<exceptions>` (an `if ...: raise` guard, or anything containing a
    `raise`), `call:<methods>` (contains a call of a method of `self`, which may fix state), `call+raise:...` (both) or
    `plain`.  No other class may define `transform_1d_grid` (the three b-scaled classes inherit this one)."""
    tree = ast.parse((SRC / "rtransform.py").read_text())
    owners = [c.name for c in tree.body if isinstance(c, ast.ClassDef)
              for m in c.body if isinstance(m, ast.FunctionDef) and m.name == "transform_1d_grid"]
    if owners != ["BaseTransform"]:
        raise Unsupported(f"rtransform: transform_1d_grid defined in {owners}, expected only in BaseTransform")
    base = next(c for c in tree.body if isinstance(c, ast.ClassDef) and c.name == "BaseTransform")
    fn = next(m for m in base.body if isinstance(m, ast.FunctionDef) and m.name == "transform_1d_grid")
    body = [st for st in fn.body if not (isinstance(st, ast.Expr) and isinstance(st.value, ast.Constant))]
    props = {m.name for c in tree.body if isinstance(c, ast.ClassDef) for m in c.body
             if isinstance(m, ast.FunctionDef) and any(ast.unparse(d) == "property" for d in m.decorator_list)}
    tags = []
    for st in body:
        if isinstance(st, (ast.For, ast.While, ast.Try, ast.With)):
            raise Unsupported(f"rtransform.BaseTransform.transform_1d_grid: statement not carried: {ast.unparse(st)[:80]}")
        raises = sorted({ast.unparse(n.exc.func) if isinstance(n.exc, ast.Call) else ast.unparse(n.exc) if n.exc else "reraise"
                         for n in ast.walk(st) if isinstance(n, ast.Raise)})
        calls = sorted({n.func.attr for n in ast.walk(st) if isinstance(n, ast.Call) and isinstance(n.func, ast.Attribute)
                        and isinstance(n.func.value, ast.Name) and n.func.value.id == "self"})
        # attribute reads of `self` that are not properties could be anything: refuse
        for n in ast.walk(st):
            if isinstance(n, ast.Attribute) and isinstance(n.value, ast.Name) and n.value.id == "self" and isinstance(n.ctx, ast.Store):
                raise Unsupported("rtransform.BaseTransform.transform_1d_grid: assigns an attribute of self")
        if raises and calls:
            tags.append("call+raise:" + "/".join(calls) + ":" + "/".join(raises))
        elif raises:
            tags.append("raise:" + "/".join(raises))
        elif calls:
            tags.append("call:" + "/".join(calls))
        else:
            tags.append("return" if isinstance(st, ast.Return) and not calls else "plain")
    return tags


def shell_grid_flows():
    """`AtomGrid.get_shell_grid` statement by statement: for the branch `rotate == 0` and the branch `rotate != 0`, where do the
    arrays stored into the returned grid (`sphere_grid.points = ...`, `sphere_grid.weights = ...`) come from: a new array
    (`.copy()`, arithmetic, a call) or an array the atomic grid keeps (an attribute of `self` or a slice of one)?
    -> [(branch, field, fresh, description)]"""
    tree = ast.parse((SRC / "atomgrid.py").read_text())
    cls = next(n for n in tree.body if isinstance(n, ast.ClassDef) and n.name == "AtomGrid")
    fn = next(n for n in cls.body if isinstance(n, ast.FunctionDef) and n.name == "get_shell_grid")
    body = [st for st in fn.body if not (isinstance(st, ast.Expr) and isinstance(st.value, ast.Constant))]

    def root(e):
        while isinstance(e, (ast.Subscript, ast.Attribute)):
            e = e.value
        return e

    def kind(e, env):
        if isinstance(e, ast.Name):
            return env.get(e.id, (True, "argument:" + e.id)) if e.id != "self" else (False, "self")
        if isinstance(e, (ast.BinOp, ast.UnaryOp, ast.Compare, ast.Constant, ast.BoolOp)):
            return (True, "arithmetic")
        if isinstance(e, ast.Call):
            f = e.func
            if isinstance(f, ast.Attribute) and f.attr == "copy" and not e.args:
                return (True, "copy")
            if isinstance(f, ast.Attribute) and f.attr in ("dot", "astype", "as_matrix", "random"):
                return (True, "call:" + f.attr)
            if ast.unparse(f) in ("AngularGrid", "np.array", "np.copy", "np.dot", "np.matmul"):
                return (True, "call:" + ast.unparse(f))
            raise Unsupported(f"atomgrid.AtomGrid.get_shell_grid: call not classified: {ast.unparse(e)[:80]}")
        if isinstance(e, (ast.Subscript, ast.Attribute)):
            r = root(e)
            if isinstance(r, ast.Name) and r.id == "self":
                return (False, "kept by the atomic grid: " + ast.unparse(e)[:60])
            if isinstance(r, ast.Name):
                b = env.get(r.id, (True, ""))
                return (False, f"part of {r.id}: " + ast.unparse(e)[:50]) if isinstance(e, ast.Subscript) or not b[0] else (False, "array of " + r.id)
            raise Unsupported(f"atomgrid.AtomGrid.get_shell_grid: expression not classified: {ast.unparse(e)[:80]}")
        raise Unsupported(f"atomgrid.AtomGrid.get_shell_grid: expression not classified: {ast.unparse(e)[:80]}")

    def run(stmts, env, rotated, out):
        for st in stmts:
            if isinstance(st, ast.If):
                t = ast.unparse(st.test)
                if all(isinstance(x, ast.Raise) for x in st.body) and not st.orelse:
                    continue
                if t in ("self.rotate != 0", "self._rot != 0", "self.rotate"):
                    run(st.body if rotated else st.orelse, env, rotated, out)
                elif t in ("self.rotate == 0", "self._rot == 0", "not self.rotate"):
                    run(st.orelse if rotated else st.body, env, rotated, out)
                else:
                    e1, e2 = dict(env), dict(env)
                    run(st.body, e1, rotated, out)
                    run(st.orelse, e2, rotated, out)
                    for k in set(e1) | set(e2):
                        a, b = e1.get(k, (True, "")), e2.get(k, (True, ""))
                        env[k] = a if not a[0] else b if not b[0] else a
            elif isinstance(st, ast.Assign) and len(st.targets) == 1 and isinstance(st.targets[0], ast.Name):
                env[st.targets[0].id] = kind(st.value, env)
            elif isinstance(st, ast.Assign) and len(st.targets) == 1 and isinstance(st.targets[0], ast.Attribute) \
                    and isinstance(st.targets[0].value, ast.Name) and st.targets[0].value.id != "self":
                out.append((st.targets[0].attr, kind(st.value, env)))
            elif isinstance(st, ast.Return):
                out.append(("return", (True, ast.unparse(st.value) if st.value is not None else "None")))
            else:
                raise Unsupported(f"atomgrid.AtomGrid.get_shell_grid: statement not carried: {ast.unparse(st)[:80]}")
    flows = []
    for rotated in (False, True):
        out = []
        run(body, {}, rotated, out)
        ret = [o for o in out if o[0] == "return"]
        if len(ret) != 1 or ret[0][1][1] != "sphere_grid":
            raise Unsupported("atomgrid.AtomGrid.get_shell_grid: does not return the local grid object `sphere_grid`")
        for field, (fresh, txt) in out:
            if field != "return":
                flows.append(("rotate != 0" if rotated else "rotate == 0", field, fresh, txt))
    return flows


def b_machine():
    """-> per class: ('guarded'|'always', [methods calling set_maximum_parameter_b first], other writers of _b)"""
    tree = ast.parse((SRC / "rtransform.py").read_text())
    out = {}
    for cls in [n for n in tree.body if isinstance(n, ast.ClassDef)]:
        setter = next((n for n in cls.body if isinstance(n, ast.FunctionDef) and n.name == "set_maximum_parameter_b"), None)
        if setter is None:
            continue
        body = [s for s in setter.body if not (isinstance(s, ast.Expr) and isinstance(s.value, ast.Constant))]
        arg = setter.args.args[1].arg

        def is_assign_max(s):
            return (isinstance(s, ast.Assign) and ast.unparse(s.targets[0]) == "self._b"
                    and ast.unparse(s.value) in (f"np.max({arg})", f"{arg}.max()", f"np.amax({arg})"))

        def is_zero_check(s):
            return isinstance(s, ast.If) and all(isinstance(x, ast.Raise) for x in s.body) and not s.orelse

        def zero_check(st, about):
            """`if np.abs(<about>) < c: raise ...` -> (strict?, c)"""
            t = st.test
            if not (isinstance(t, ast.Compare) and len(t.ops) == 1 and isinstance(t.ops[0], (ast.Lt, ast.LtE))
                    and isinstance(t.comparators[0], ast.Constant) and isinstance(t.comparators[0].value, (int, float))
                    and ast.unparse(t.left) in tuple(f"np.abs({a})" for a in about) + tuple(f"abs({a})" for a in about)):
                raise Unsupported(f"rtransform.{cls.name}.set_maximum_parameter_b: check not recognised: {ast.unparse(t)}")
            return isinstance(t.ops[0], ast.Lt), float(t.comparators[0].value)

        def block_shape(blk):
            """-> ('assign-then-check' | 'check-then-assign' | 'no-check', strict, threshold) or None"""
            if blk and is_assign_max(blk[0]) and all(is_zero_check(x) for x in blk[1:]):
                if len(blk) == 1:
                    return ("no-check", True, 0.0)
                if len(blk) != 2:
                    raise Unsupported(f"rtransform.{cls.name}.set_maximum_parameter_b: several checks")
                return ("assign-then-check",) + zero_check(blk[1], ("self.b", "self._b"))
            # repaired order: m = np.max(x); if np.abs(m) < c: raise; self._b = m
            if len(blk) == 3 and isinstance(blk[0], ast.Assign) and isinstance(blk[0].targets[0], ast.Name) \
                    and ast.unparse(blk[0].value) in (f"np.max({arg})", f"{arg}.max()", f"np.amax({arg})") and is_zero_check(blk[1]) \
                    and isinstance(blk[2], ast.Assign) and ast.unparse(blk[2].targets[0]) == "self._b" \
                    and ast.unparse(blk[2].value) == blk[0].targets[0].id:
                return ("check-then-assign",) + zero_check(blk[1], (blk[0].targets[0].id,))
            if len(blk) == 2 and is_zero_check(blk[0]) and is_assign_max(blk[1]):
                return ("check-then-assign",) + zero_check(blk[0], (ast.unparse(blk[1].value),))
            return None

        if len(body) == 1 and isinstance(body[0], ast.If) and ast.unparse(body[0].test) in ("self.b is None", "self._b is None") \
                and not body[0].orelse and block_shape(body[0].body) is not None:
            shape = "guarded"
            check = block_shape(body[0].body)
        elif block_shape(body) is not None:
            shape = "always"
            check = block_shape(body)
        else:
            raise Unsupported(f"rtransform.{cls.name}.set_maximum_parameter_b: body not recognised: {ast.unparse(setter)[:200]}")
        CHECKS[cls.name] = check
        callers, writers, nocall = [], [], []
        for m in cls.body:
            if not isinstance(m, ast.FunctionDef) or m.name in ("__init__", "set_maximum_parameter_b"):
                continue
            stmts = [s for s in m.body if not (isinstance(s, ast.Expr) and isinstance(s.value, ast.Constant))]
            uses_b = any(isinstance(n, ast.Attribute) and n.attr in ("b", "_b") and isinstance(n.value, ast.Name)
                         and n.value.id == "self" for n in ast.walk(m))
            first = stmts[0] if stmts else None
            calls_first = (isinstance(first, ast.Expr) and isinstance(first.value, ast.Call)
                           and ast.unparse(first.value.func) == "self.set_maximum_parameter_b")
            if calls_first:
                callers.append(m.name)
            elif uses_b and not any(d for d in m.decorator_list):
                nocall.append(m.name)
            for n in ast.walk(m):
                if isinstance(n, (ast.Assign, ast.AugAssign)):
                    tg = n.targets if isinstance(n, ast.Assign) else [n.target]
                    if any(ast.unparse(t) in ("self._b", "self.b") for t in tg):
                        writers.append(m.name)
        out[cls.name] = (shape, callers, writers, nocall)
    return out


def coulomb_loader_fresh() -> bool:
    tree = ast.parse((SRC / "coulomb.py").read_text())
    fn = next(n for n in tree.body if isinstance(n, ast.FunctionDef) and n.name == "load_atomic_gaussian_params")
    ret = [n for n in ast.walk(fn) if isinstance(n, ast.Return) and n.value is not None]
    if len(ret) != 1 or not isinstance(ret[0].value, ast.Tuple):
        raise Unsupported("coulomb.load_atomic_gaussian_params: return pattern")
    names = [e.id for e in ret[0].value.elts if isinstance(e, ast.Name)]
    fresh = True
    for nm in names:
        assigns = [n for n in ast.walk(fn) if isinstance(n, ast.Assign) and ast.unparse(n.targets[0]) == nm]
        if len(assigns) != 1:
            raise Unsupported("coulomb.load_atomic_gaussian_params: assignment pattern")
        v = assigns[0].value
        # np.asarray(<python list from JSON>, dtype=float) and np.array(...) build new arrays from lists
        ok = isinstance(v, ast.Call) and ast.unparse(v.func) in ("np.asarray", "np.array") and isinstance(v.args[0], ast.Subscript)
        fresh = fresh and ok
    return fresh and len(names) == 2


def generate():
    d = angular_discipline()
    bm = b_machine()
    cf = coulomb_loader_fresh()
    tb = lambda x: "true" if x else "false"
    parts = [HEADER.format(name="angular_cache", source="src/grid/angular.py (AngularGrid.__init__), src/grid/rtransform.py (set_maximum_parameter_b), src/grid/coulomb.py (load_atomic_gaussian_params)")]
    parts.append("import GridVerif.Model.Aliasing\n\nnamespace GridVerif.Gen.AngularCache\nopen GridVerif.Aliasing\n")
    parts.append(f"/-- branch `method in {d['plain_methods']}`: `super().__init__(points…, weights…)`; other branch: weights rescaled. -/")
    parts.append(f"def discipline : Discipline := ⟨{tb(d['plain'][0])}, {tb(d['plain'][1])}, {tb(d['scaled'][0])}, {tb(d['scaled'][1])}⟩\n")
    parts.append("def plainMethods : List String := [" + ", ".join(f'"{m}"' for m in d["plain_methods"]) + "]\n")
    cp = cache_protocol()
    parts.append("/-- the cache `AngularGrid.__init__` uses for each (lower-cased) method name -/")
    parts.append("def cacheOfMethod : List (String × String) := [" + ", ".join(f'("{a}", "{b}")' for a, b in cp["mapping"]) + "]\n")
    parts.append("/-- `method = method.lower()` precedes the choice of the cache -/")
    parts.append(f"def methodNormalised : Bool := {tb(cp['normalised'])}\n")
    parts.append("/-- the key `degree` is the one resolved by `_get_degree_and_size` and is not reassigned before the lookup / store -/")
    parts.append(f"def keyResolvedBeforeLookup : Bool := {tb(cp['key_resolved'])}\n")
    parts.append("/-- `degree, size = self._get_degree_and_size(...)` is a top-level statement of the constructor: executed on every path, whatever the cache holds -/")
    parts.append(f"def resolveUnconditional : Bool := {tb(cp['resolve_unconditional'])}\n")
    parts.append("/-- it is called with `degree=degree, size=size, method=method` and nothing else -/")
    parts.append(f"def resolveArgsPlain : Bool := {tb(cp['resolve_args_plain'])}\n")
    parts.append("/-- before it, `if size is not None: ... degree = None`: a size request drops the degree -/")
    parts.append(f"def sizeClearsDegree : Bool := {tb(cp['size_clears'])}\n")
    parts.append("/-- on a miss the loaded pair is stored only under `if cache:` -/")
    parts.append(f"def storeGuardedByCacheFlag : Bool := {tb(cp['guarded'])}\n")
    for cls, (shape, callers, writers, nocall) in bm.items():
        parts.append(f"/-- `{cls}.set_maximum_parameter_b`: new value of the remembered scale given the maximum `mx` of the grid it sees. -/")
        if shape == "guarded":
            parts.append(f"def setMaxB_{cls} {{K : Type}} (b : Option K) (mx : K) : Option K :=\n  match b with\n  | none => some mx\n  | some v => some v\n")
        else:
            parts.append(f"def setMaxB_{cls} {{K : Type}} (_b : Option K) (mx : K) : Option K := some mx\n")
        order, strict, thr = CHECKS[cls]
        parts.append(f"/-- the same with the rejection of a scale that is too small (`{order}`: "
                     + ("the scale is assigned *before* the check, so a rejected call leaves it set" if order == "assign-then-check"
                        else "a rejected call leaves the state as it was" if order == "check-then-assign" else "there is no check")
                     + "): new state, and whether `ValueError` is raised. -/")
        none_case = {"assign-then-check": "(some mx, tooSmall mx)", "no-check": "(some mx, false)",
                     "check-then-assign": "if tooSmall mx then (none, true) else (some mx, false)"}[order]
        if shape == "guarded":
            parts.append(f"def setMaxBChecked_{cls} {{K : Type}} (tooSmall : K → Bool) (b : Option K) (mx : K) : Option K × Bool :=\n"
                         f"  match b with\n  | none => {none_case}\n  | some v => (some v, false)\n")
        else:
            parts.append(f"def setMaxBChecked_{cls} {{K : Type}} (tooSmall : K → Bool) (_b : Option K) (mx : K) : Option K × Bool :=\n"
                         f"  {none_case.replace('(none, true)', '(_b, true)')}\n")
        parts.append(f"/-- the check is `np.abs(b) {'<' if strict else '<='} {thr!r}` -/")
        parts.append(f"def bTooSmall_{cls} (x : Float) : Bool := x.abs {'<' if strict else '<='} {thr!r}\n")
        parts.append(f"/-- methods of `{cls}` that call it before anything else -/")
        parts.append(f"def bCallers_{cls} : List String := [" + ", ".join(f'"{m}"' for m in callers) + "]")
        parts.append(f"/-- methods of `{cls}` (other than the constructor and the setter) that assign the scale -/")
        parts.append(f"def bWriters_{cls} : List String := [" + ", ".join(f'"{m}"' for m in writers) + "]")
        parts.append(f"/-- methods of `{cls}` that read the scale without fixing it first -/")
        parts.append(f"def bReadersWithoutSet_{cls} : List String := [" + ", ".join(f'"{m}"' for m in nocall) + "]\n")
    parts.append("/-- top-level statements of `BaseTransform.transform_1d_grid` in order: `raise:` guards, `call:` of methods of the object "
                 "(which may fix the remembered scale), `call+raise:`, `plain`, `return`; each as (calls a method, contains a raise, description) -/")
    parts.append("def t1dStatements : List StmtTag := [" + ", ".join(
        f'({tb(t.startswith("call"))}, {tb(t.startswith("raise") or t.startswith("call+raise"))}, "{t}")' for t in t1d_order()) + "]\n")
    parts.append("/-- `AtomGrid.get_shell_grid`: per branch of the rotation test, the arrays stored into the returned grid: "
                 "(branch, field, is a new array, where it comes from) -/")
    parts.append("def shellGridFlows : List (String × String × Bool × String) := [" + ", ".join(
        f'({_ls(b_)}, {_ls(fld)}, {tb(fr)}, {_ls(txt)})' for b_, fld, fr, txt in shell_grid_flows()) + "]\n")
    parts.append("def bClasses : List String := [" + ", ".join(f'"{c}"' for c in bm) + "]\n")
    parts.append("/-- `load_atomic_gaussian_params` builds its two result arrays anew from the JSON lists on every call. -/")
    parts.append(f"def coulombLoaderFresh : Bool := {tb(cf)}\n")
    parts.append("end GridVerif.Gen.AngularCache\n")
    ch1, d1 = write_if_changed("AngularCache.lean", "\n".join(parts))
    ch2, d2 = write_if_changed("ModuleState.lean", module_state_text())
    return (ch1 or ch2), (d1 + d2)[:6000]


# ==========================================================================================
# Round 3: enumeration of every piece of state that outlives a call, from the AST of every
# non-test module of src/grid  ->  Gen/ModuleState.lean
#
#   * module-level bindings whose value is not a literal constant (dict/list/set displays,
#     comprehensions, calls such as np.array(...), names, arithmetic): `moduleObjects`, each with
#       writers      (function, shape)  statements that change the object or rebind the global
#       escapes      (function, shape)  places where the object itself (not an element of it)
#                                       leaves the function: returned, stored, passed on, viewed
#       elemReaders  functions reading elements (subscripts, .get/.items/.values, iteration)
#   * function caches: decorators whose text mentions cache/lru/memo, imports of functools & co.
#   * mutable default arguments, class-level non-constant attributes, `global` / `nonlocal`
#   * instance attributes assigned outside `__init__` (memos, remembered parameters, setters)
#     with the shape of each assignment, and for every memo the accessors handing it out
#
# A use that is not one of the shapes below raises `Unsupported` (a broken obligation).
# ==========================================================================================
MUTATING_METHODS = {"update", "clear", "pop", "popitem", "setdefault", "append", "extend", "insert", "remove", "sort",
                    "reverse", "fill", "resize", "put", "itemset", "add", "discard", "partition", "setfield", "setflags",
                    "byteswap", "__setitem__", "__delitem__", "__iadd__"}
ELEM_METHODS = {"items", "keys", "values", "get", "index", "count", "tolist", "item"}
NEW_METHODS = {"copy", "astype", "min", "max", "sum", "mean", "any", "all", "argmax", "argmin", "argsort", "nonzero",
               "flatten", "round", "clip", "dot", "prod", "std", "var", "cumsum", "cumprod", "repeat", "conj", "tobytes",
               "lower", "upper", "strip", "title", "format", "split", "join", "startswith", "endswith"}
SCALAR_ATTRS = {"shape", "size", "ndim", "dtype", "nbytes", "itemsize"}
VIEW_ATTRS = {"T", "reshape", "ravel", "view", "squeeze", "transpose", "flat", "real", "imag", "swapaxes", "data", "base",
              "diagonal"}
PURE_CALLS = {"len", "sorted", "list", "tuple", "dict", "set", "frozenset", "min", "max", "sum", "any", "all", "enumerate",
              "zip", "isinstance", "str", "repr", "type", "bool", "float", "int", "print", "abs", "round", "reversed",
              "np.array", "np.copy", "np.any", "np.all", "np.isnan", "np.max", "np.min", "np.amax", "np.amin", "np.sum",
              "np.sort", "np.unique", "np.where", "np.isin", "np.searchsorted", "np.isfinite", "np.allclose",
              "np.array_equal", "np.concatenate", "np.prod", "np.mean", "np.abs", "np.log", "np.exp", "np.sqrt",
              "np.power", "np.nan_to_num", "np.argmin", "np.argmax", "np.argsort", "np.cumsum", "np.dot", "np.tile",
              "np.repeat", "np.hstack", "np.vstack", "np.stack", "np.column_stack", "np.outer", "np.einsum",
              "np.linalg.norm", "np.take", "np.bincount", "np.digitize", "np.interp", "np.size", "np.shape", "np.ndim"}
ALIAS_CALLS = {"np.asarray", "np.asanyarray", "np.ascontiguousarray", "np.asfortranarray", "np.atleast_1d",
               "np.atleast_2d", "np.squeeze", "np.ravel", "np.reshape", "np.transpose"}
CACHE_WORDS = ("cache", "lru", "memo")
CACHE_IMPORTS = {"functools", "cachetools", "joblib", "diskcache", "methodtools", "cachier", "weakref", "atexit", "shelve",
                 "pickle", "threading", "contextvars"}


def _modules():
    # `_version.py` is written by the build backend and is not part of the repository
    return sorted(p for p in SRC.glob("*.py") if p.name != "_version.py")


def _const_value(e) -> bool:
    """Literal constants and tuples / arithmetic of them: nothing a call can change."""
    if isinstance(e, ast.Constant):
        return True
    if isinstance(e, ast.Tuple):
        return all(_const_value(x) for x in e.elts)
    if isinstance(e, ast.UnaryOp):
        return _const_value(e.operand)
    if isinstance(e, ast.BinOp):
        return _const_value(e.left) and _const_value(e.right)
    if isinstance(e, ast.JoinedStr):
        return True
    return False


def _value_kind(e) -> str:
    if e is None:
        return "annotation-only"
    if isinstance(e, ast.Dict):
        return "dict"
    if isinstance(e, ast.List):
        return "list"
    if isinstance(e, ast.Set):
        return "set"
    if isinstance(e, ast.DictComp):
        return "dict-comprehension"
    if isinstance(e, (ast.ListComp, ast.GeneratorExp)):
        return "list-comprehension"
    if isinstance(e, ast.SetComp):
        return "set-comprehension"
    if isinstance(e, ast.Call):
        return "call:" + ast.unparse(e.func)
    if isinstance(e, ast.BinOp):
        return "arithmetic"
    if isinstance(e, ast.UnaryOp):
        return "arithmetic"
    if isinstance(e, ast.Subscript):
        return "subscript"
    if isinstance(e, ast.Name):
        return "name:" + e.id
    if isinstance(e, ast.Attribute):
        return "attribute:" + ast.unparse(e)
    if isinstance(e, ast.Constant):
        return "constant"          # only reached for rebindable globals (`X = None` + `global X`)
    if isinstance(e, ast.Tuple):
        return "tuple"
    if isinstance(e, ast.Lambda):
        return "lambda"
    if isinstance(e, ast.IfExp):
        return "conditional"
    raise Unsupported(f"module-level value not classified: {ast.unparse(e)[:120]}")


def _top_statements(body):
    """Module-level statements, looking inside top-level if / try / with blocks."""
    for s in body:
        if isinstance(s, ast.If):
            yield from _top_statements(s.body)
            yield from _top_statements(s.orelse)
        elif isinstance(s, ast.Try):
            yield from _top_statements(s.body)
            for h in s.handlers:
                yield from _top_statements(h.body)
            yield from _top_statements(s.orelse)
            yield from _top_statements(s.finalbody)
        elif isinstance(s, ast.With):
            yield from _top_statements(s.body)
        elif isinstance(s, (ast.For, ast.While)):
            raise Unsupported(f"module-level loop at line {s.lineno}")
        else:
            yield s


def _units(tree):
    """-> [(qualified name, FunctionDef)] top-level functions and methods (nested defs stay inside their unit)."""
    out = []
    for s in _top_statements(tree.body):
        if isinstance(s, (ast.FunctionDef, ast.AsyncFunctionDef)):
            out.append((s.name, s))
        elif isinstance(s, ast.ClassDef):
            stack = [(s.name, s)]
            while stack:
                q, c = stack.pop()
                for m in c.body:
                    if isinstance(m, (ast.FunctionDef, ast.AsyncFunctionDef)):
                        out.append((f"{q}.{m.name}", m))
                    elif isinstance(m, ast.ClassDef):
                        stack.append((f"{q}.{m.name}", m))
    return out


def _parents(root):
    par = {}
    for n in ast.walk(root):
        for ch in ast.iter_child_nodes(n):
            par[id(ch)] = n
    return par


def _globals_declared(fn):
    return {nm for n in ast.walk(fn) if isinstance(n, ast.Global) for nm in n.names}


def _stored_names(fn):
    out = set()
    for n in ast.walk(fn):
        if isinstance(n, ast.Name) and isinstance(n.ctx, (ast.Store, ast.Del)):
            out.add(n.id)
        elif isinstance(n, ast.arg):
            out.add(n.arg)
    return out


def _is_alias_expr(e, alias) -> bool:
    """Does the expression evaluate to (possibly) the very object some name in `alias` refers to?"""
    if isinstance(e, ast.Name):
        return e.id in alias
    if isinstance(e, ast.IfExp):
        return _is_alias_expr(e.body, alias) or _is_alias_expr(e.orelse, alias)
    if isinstance(e, ast.BoolOp):
        return any(_is_alias_expr(v, alias) for v in e.values)
    if isinstance(e, ast.NamedExpr):
        return _is_alias_expr(e.value, alias)
    if isinstance(e, ast.Call) and ast.unparse(e.func) in ALIAS_CALLS and e.args:
        return _is_alias_expr(e.args[0], alias)
    return False


def _alias_closure(fn, start: set, modattr=None):
    """Names of the unit that may refer to the object itself (flow-insensitive fixpoint)."""
    alias = set(start)
    changed = True
    while changed:
        changed = False
        for n in ast.walk(fn):
            pairs = []
            if isinstance(n, ast.Assign):
                for t in n.targets:
                    pairs.append((t, n.value))
            elif isinstance(n, ast.AnnAssign) and n.value is not None:
                pairs.append((n.target, n.value))
            elif isinstance(n, ast.NamedExpr):
                pairs.append((n.target, n.value))
            for t, v in pairs:
                if isinstance(t, ast.Name):
                    if t.id not in alias and (_is_alias_expr(v, alias) or (modattr and modattr(v))):
                        alias.add(t.id)
                        changed = True
                elif isinstance(t, (ast.Tuple, ast.List)) and isinstance(v, (ast.Tuple, ast.List)) and len(t.elts) == len(v.elts):
                    for tt, vv in zip(t.elts, v.elts):
                        if isinstance(tt, ast.Name) and tt.id not in alias and (_is_alias_expr(vv, alias) or (modattr and modattr(vv))):
                            alias.add(tt.id)
                            changed = True
    return alias


def _classify_uses(fn, qual, alias, modattr, where, depth, resolver):
    """Classify every occurrence of the object in one unit. -> (writers, escapes, elem_readers) as sets."""
    writers, escapes, readers = set(), set(), set()
    par = _parents(fn)

    def occurrences():
        for n in ast.walk(fn):
            if isinstance(n, ast.Name) and n.id in alias and isinstance(n.ctx, ast.Load):
                yield n
            elif modattr and isinstance(n, ast.Attribute) and isinstance(n.ctx, ast.Load) and modattr(n):
                yield n

    def classify(node, hops=0):
        p = par.get(id(node))
        if p is None:
            raise Unsupported(f"{where}:{qual}: use without context")
        if isinstance(p, ast.Subscript) and p.value is node:
            if isinstance(p.ctx, ast.Store):
                writers.add((qual, "setitem"))
            elif isinstance(p.ctx, ast.Del):
                writers.add((qual, "delitem"))
            else:
                pp = par.get(id(p))
                if isinstance(pp, ast.AugAssign) and pp.target is p:
                    writers.add((qual, "setitem"))
                readers.add(qual)
            return
        if isinstance(p, ast.Attribute) and p.value is node:
            pp = par.get(id(p))
            called = isinstance(pp, ast.Call) and pp.func is p
            if p.attr in MUTATING_METHODS:
                writers.add((qual, "method:" + p.attr))
            elif p.attr in ELEM_METHODS and called:
                readers.add(qual)
            elif p.attr in NEW_METHODS and called:
                pass
            elif p.attr in SCALAR_ATTRS:
                pass
            elif p.attr in VIEW_ATTRS:
                escapes.add((qual, "view:" + p.attr))
            else:
                raise Unsupported(f"{where}:{qual}: attribute use not classified: {ast.unparse(pp if called else p)[:100]}")
            return
        if isinstance(p, ast.Compare):
            return                                   # `in`, `is None`, ==, <: a new bool / bool array
        if isinstance(p, (ast.BinOp, ast.UnaryOp)):
            return                                   # arithmetic builds a new object
        if isinstance(p, ast.AugAssign):
            if p.target is node:
                writers.add((qual, "augassign"))
            return
        if isinstance(p, (ast.For, ast.comprehension)) and p.iter is node:
            readers.add(qual)
            return
        if isinstance(p, ast.Call):
            f = ast.unparse(p.func)
            if node in p.args or any(k.value is node for k in p.keywords):
                if f in PURE_CALLS:
                    return
                if f in ALIAS_CALLS:
                    # the result may be the object itself: classified where the result goes
                    gp = par.get(id(p))
                    if isinstance(gp, (ast.Assign, ast.AnnAssign, ast.NamedExpr)):
                        tgt = gp.targets[0] if isinstance(gp, ast.Assign) else gp.target
                        if isinstance(tgt, ast.Name) and tgt.id in alias:
                            return
                    return classify(p, hops + 1)
                callee = resolver(f) if resolver else None
                if callee is not None and depth < 3:
                    cq, cfn, cwhere = callee
                    params = [a.arg for a in cfn.args.posonlyargs + cfn.args.args]
                    if params and params[0] in ("self", "cls") and "." in f:
                        params = params[1:]
                    names = set()
                    for i, a in enumerate(p.args):
                        if a is node and i < len(params):
                            names.add(params[i])
                    for k in p.keywords:
                        if k.value is node and k.arg:
                            names.add(k.arg)
                    if not names:
                        escapes.add((qual, "argument:" + f))
                        return
                    sub_alias = _alias_closure(cfn, names)
                    w, e, r = _classify_uses(cfn, cq, sub_alias, None, cwhere, depth + 1, resolver)
                    writers.update(w)
                    escapes.update(e)
                    readers.update(r)
                    return
                escapes.add((qual, "argument:" + f))
                return
            raise Unsupported(f"{where}:{qual}: object used as the callee: {ast.unparse(p)[:100]}")
        if isinstance(p, (ast.Return, ast.Yield, ast.YieldFrom)):
            escapes.add((qual, "return"))
            return
        if isinstance(p, (ast.Tuple, ast.List, ast.Set, ast.Dict, ast.Starred)):
            gp = par.get(id(p))
            if isinstance(gp, (ast.Assign,)) and isinstance(p, (ast.Tuple, ast.List)) and gp.value is p and \
                    all(isinstance(t, (ast.Tuple, ast.List)) and len(t.elts) == len(p.elts) for t in gp.targets):
                k = p.elts.index(node)
                for t in gp.targets:
                    tt = t.elts[k]
                    if not (isinstance(tt, ast.Name) and tt.id in alias):
                        escapes.add((qual, "stored:" + ast.unparse(tt)[:40]))
                return
            if hops > 4:
                raise Unsupported(f"{where}:{qual}: nested container use")
            escapes.add((qual, "container"))
            return
        if isinstance(p, (ast.Assign, ast.AnnAssign, ast.NamedExpr)):
            tgts = p.targets if isinstance(p, ast.Assign) else [p.target]
            for t in tgts:
                if isinstance(t, ast.Name) and t.id in alias:
                    continue
                escapes.add((qual, "stored:" + ast.unparse(t)[:40]))
            return
        if isinstance(p, (ast.IfExp, ast.BoolOp)):
            if isinstance(p, ast.IfExp) and p.test is node:
                return
            return classify(p, hops + 1)
        if isinstance(p, (ast.If, ast.While, ast.Assert)) and getattr(p, "test", None) is node:
            return
        if isinstance(p, ast.Expr):
            return
        if isinstance(p, (ast.JoinedStr, ast.FormattedValue)):
            return
        if isinstance(p, ast.keyword):
            return classify_keyword(p, node)
        if isinstance(p, ast.Slice) or (isinstance(p, ast.Subscript) and p.slice is node):
            return                                   # used as an index of something else
        raise Unsupported(f"{where}:{qual}: use not classified ({type(p).__name__}): {ast.unparse(p)[:100]}")

    def classify_keyword(kw, node):
        call = par.get(id(kw))
        f = ast.unparse(call.func)
        if f in PURE_CALLS:
            return
        escapes.add((qual, "argument:" + f))

    for occ in occurrences():
        classify(occ)
    return writers, escapes, readers


def module_state():
    """Enumerate the state of every module. -> dict with the lists described above."""
    trees = {}
    for p in _modules():
        import warnings
        with warnings.catch_warnings():
            warnings.simplefilter("ignore")
            trees[p.stem] = ast.parse(p.read_text())
    # ---- module-level bindings
    objects = {}          # (module, name) -> dict(kind=..., node=...)
    order = []
    for mod, tree in trees.items():
        for s in _top_statements(tree.body):
            tv = []
            if isinstance(s, ast.Assign):
                for t in s.targets:
                    tv.append((t, s.value))
            elif isinstance(s, ast.AnnAssign):
                tv.append((s.target, s.value))
            elif isinstance(s, ast.AugAssign):
                tv.append((s.target, s.value))
            shared = None
            if isinstance(s, ast.Assign) and len(s.targets) > 1 and not _const_value(s.value):
                # several module-level names bound to ONE object: carried in the kind (no registered cache has such a kind, so
                # `module_objects_disciplined` / `cache_protocol_as_modelled` decide, instead of the translator refusing)
                shared = "one object shared by " + " = ".join(ast.unparse(t) for t in s.targets)
            for t, v in tv:
                names = []
                if isinstance(t, ast.Name):
                    names = [(t.id, v)]
                elif isinstance(t, (ast.Tuple, ast.List)):
                    if isinstance(v, (ast.Tuple, ast.List)) and len(v.elts) == len(t.elts) and all(isinstance(x, ast.Name) for x in t.elts):
                        names = [(x.id, vv) for x, vv in zip(t.elts, v.elts)]
                    else:
                        raise Unsupported(f"{mod}: module-level unpacking at line {s.lineno}")
                else:
                    raise Unsupported(f"{mod}: module-level assignment to {ast.unparse(t)[:60]} (line {s.lineno})")
                for nm, val in names:
                    key = (mod, nm)
                    if key not in objects:
                        objects[key] = dict(kind="annotation-only", const=True, rebound=False, nbind=0)
                        order.append(key)
                    if val is None:
                        continue                     # a bare annotation binds nothing
                    o = objects[key]
                    o["nbind"] += 1
                    o["rebound"] = o["nbind"] > 1
                    if _const_value(val):
                        if o["const"]:
                            o["kind"] = "constant"
                    else:
                        o["const"] = False
                        o["kind"] = _value_kind(val) if shared is None else shared
    # globals rebound inside functions are state even when their initial value is a constant
    rebinds = []
    for mod, tree in trees.items():
        for q, fn in _units(tree):
            for g in sorted(_globals_declared(fn)):
                rebinds.append((mod, q, g))
                if (mod, g) not in objects:
                    objects[(mod, g)] = dict(kind="created-by-global-statement", const=False, rebound=False, nbind=0)
                    order.append((mod, g))
                objects[(mod, g)]["const"] = False
    nonlocals = [(mod, q, nm) for mod, tree in trees.items() for q, fn in _units(tree)
                 for n in ast.walk(fn) if isinstance(n, ast.Nonlocal) for nm in n.names]
    tracked = [k for k in order if not objects[k]["const"]]
    # ---- where is each tracked object visible: its own module, and modules importing it
    imports = {}         # (module, local name) -> (defining module, name)
    modalias = {}        # (module, local name) -> grid module
    for mod, tree in trees.items():
        for n in ast.walk(tree):
            if isinstance(n, ast.ImportFrom) and n.module and (n.module == "grid" or n.module.startswith("grid.") or n.level > 0):
                src_mod = (n.module or "").split(".")[-1]
                for a in n.names:
                    if a.name == "*":
                        continue
                    if (src_mod, a.name) in objects:
                        imports[(mod, a.asname or a.name)] = (src_mod, a.name)
                    elif a.name in trees:
                        modalias[(mod, a.asname or a.name)] = a.name
            elif isinstance(n, ast.Import):
                for a in n.names:
                    if a.name.startswith("grid."):
                        m = a.name.split(".")[-1]
                        if m in trees:
                            modalias[(mod, a.asname or a.name)] = m
    result = []
    for key in tracked:
        dmod, name = key
        W, E, R = set(), set(), set()
        for mod, tree in trees.items():
            local = None
            if mod == dmod:
                local = name
            else:
                local = next((ln for (m, ln), tgt in imports.items() if m == mod and tgt == key), None)
            aliases_of_module = {ln for (m, ln), gm in modalias.items() if m == mod and gm == dmod}

            def modattr(e, _al=aliases_of_module, _nm=name):
                return (isinstance(e, ast.Attribute) and e.attr == _nm and isinstance(e.value, ast.Name) and e.value.id in _al) \
                    or (isinstance(e, ast.Attribute) and e.attr == _nm and isinstance(e.value, ast.Attribute)
                        and ast.unparse(e.value) in _al)
            if local is None and not aliases_of_module:
                continue
            units = dict(_units(tree))

            def resolver(fname, _units=units, _mod=mod):
                # same-module functions and methods called as self.f / Class.f / f
                base = fname.split(".")[-1]
                if fname in _units:
                    return (f"{_mod}.{fname}" if _mod != dmod else fname, _units[fname], _mod)
                cands = [q for q in _units if q.split(".")[-1] == base and ("." in fname) and fname.split(".")[0] in ("self", "cls", q.split(".")[0])]
                if len(cands) == 1:
                    q = cands[0]
                    return (f"{_mod}.{q}" if _mod != dmod else q, _units[q], _mod)
                return None
            # module-level code of the module itself
            pseudo = ast.Module(body=[s for s in _top_statements(tree.body)
                                      if not isinstance(s, (ast.FunctionDef, ast.AsyncFunctionDef, ast.ClassDef))], type_ignores=[])
            scopes = [("<module>", pseudo)] + list(units.items())
            for q, fn in scopes:
                qual = q if mod == dmod else f"{mod}.{q}"
                start = set()
                if local is not None:
                    if q != "<module>":
                        glob = _globals_declared(fn)
                        stored = _stored_names(fn)
                        if local in stored and local not in glob:
                            local_here = None        # shadowed by a local variable / parameter
                        else:
                            local_here = local
                            if local in glob:
                                for n in ast.walk(fn):
                                    if isinstance(n, ast.Name) and n.id == local and isinstance(n.ctx, (ast.Store, ast.Del)):
                                        W.add((qual, "global-rebind"))
                    else:
                        local_here = local
                    if local_here:
                        start.add(local_here)
                has_attr = aliases_of_module and any(modattr(n) for n in ast.walk(fn) if isinstance(n, ast.Attribute))
                if not start and not has_attr:
                    continue
                if not any((isinstance(n, ast.Name) and n.id in start) for n in ast.walk(fn)) and not has_attr:
                    continue
                alias = _alias_closure(fn, start, modattr if has_attr else None)
                if q == "<module>":
                    alias = set(start)   # module-level names are objects of their own
                w, e, r = _classify_uses(fn, qual, alias, modattr if has_attr else None, mod, 0, resolver)
                # stores through a qualified name (`angular.LEBEDEV_CACHE = {}`)
                for n in ast.walk(fn):
                    if isinstance(n, ast.Attribute) and isinstance(n.ctx, (ast.Store, ast.Del)) and has_attr and \
                            n.attr == name and isinstance(n.value, ast.Name) and n.value.id in aliases_of_module:
                        w.add((qual, "qualified-rebind"))
                W |= w
                E |= e
                R |= r
        # the defining statement itself is not a use
        W = {x for x in W if x[0] != "<module>" or x[1] != "define"}
        result.append(dict(module=dmod, name=name, kind=objects[key]["kind"], rebound=objects[key]["rebound"],
                           writers=sorted(W), escapes=sorted(E), readers=sorted(R)))
    # ---- function caches, suspicious imports, mutable defaults, class-level objects
    fcaches, imps, defaults, classobjs, default_uses = [], [], [], [], []
    for mod, tree in trees.items():
        for n in ast.walk(tree):
            if isinstance(n, ast.Import):
                for a in n.names:
                    if a.name.split(".")[0] in CACHE_IMPORTS:
                        imps.append((mod, a.name))
            elif isinstance(n, ast.ImportFrom) and n.module and n.module.split(".")[0] in CACHE_IMPORTS:
                for a in n.names:
                    imps.append((mod, f"{n.module}.{a.name}"))
        for q, fn in _units(tree):
            for d in fn.decorator_list:
                txt = ast.unparse(d)
                if any(wd in txt.lower() for wd in CACHE_WORDS):
                    fcaches.append((mod, q, txt))
            for n in ast.walk(fn):
                if isinstance(n, (ast.FunctionDef, ast.AsyncFunctionDef, ast.Lambda)):
                    a = n.args
                    pos = a.posonlyargs + a.args
                    pairs = list(zip(pos[len(pos) - len(a.defaults):], a.defaults)) + \
                        [(p_, d_) for p_, d_ in zip(a.kwonlyargs, a.kw_defaults) if d_ is not None]
                    for prm, dflt in pairs:
                        if not _const_value(dflt) and not isinstance(dflt, (ast.Name, ast.Attribute)):
                            defaults.append((mod, q, ast.unparse(dflt)[:60]))
                            # every use of the parameter that holds the default object: is it written, does it leave the function?
                            units_here = dict(_units(tree))

                            def resolver(fname, _u=units_here, _mod=mod):
                                base = fname.split(".")[-1]
                                if fname in _u:
                                    return (fname, _u[fname], _mod)
                                cands = [u for u in _u if u.split(".")[-1] == base and "." in fname and fname.split(".")[0] in ("self", "cls", u.split(".")[0])]
                                return (cands[0], _u[cands[0]], _mod) if len(cands) == 1 else None
                            scope = n if not isinstance(n, ast.Lambda) else ast.Expression(body=n.body)
                            al = _alias_closure(scope, {prm.arg})
                            w, e, _r = _classify_uses(scope, q, al, None, mod, 0, resolver)
                            default_uses.append((mod, q, prm.arg, sorted(w), sorted(e)))
                if isinstance(n, ast.Attribute) and isinstance(n.ctx, ast.Store) and isinstance(n.value, ast.Name) \
                        and n.value.id not in ("self", "cls"):
                    # attribute stored on a function / module / other object: f.cache = ...
                    if n.value.id in {u.split(".")[-1] for u, _ in _units(tree)}:
                        fcaches.append((mod, q, f"function-attribute {ast.unparse(n)}"))
        for c in [n for n in ast.walk(tree) if isinstance(n, ast.ClassDef)]:
            for s in c.body:
                tv = []
                if isinstance(s, ast.Assign):
                    tv = [(t, s.value) for t in s.targets]
                elif isinstance(s, ast.AnnAssign) and s.value is not None:
                    tv = [(s.target, s.value)]
                for t, v in tv:
                    if not _const_value(v):
                        classobjs.append((mod, f"{c.name}.{ast.unparse(t)}", _value_kind(v)))
    # ---- instance attributes assigned outside __init__
    attrs, memos, setters = [], [], []
    for mod, tree in trees.items():
        for c in [n for n in ast.walk(tree) if isinstance(n, ast.ClassDef)]:
            late = {}
            methods = [m for m in c.body if isinstance(m, (ast.FunctionDef, ast.AsyncFunctionDef))]
            for m in methods:
                if m.name == "__init__":
                    continue
                par = _parents(m)
                deco = [ast.unparse(d) for d in m.decorator_list]
                assigned, reset = set(), set()
                for n in ast.walk(m):
                    if isinstance(n, ast.Attribute) and isinstance(n.ctx, (ast.Store, ast.Del)) and isinstance(n.value, ast.Name) \
                            and n.value.id in ("self", "cls"):
                        p_ = par.get(id(n))
                        shape = "assign"
                        if isinstance(p_, ast.Assign) and isinstance(p_.value, ast.Constant) and p_.value.value is None:
                            shape = "reset-to-None"
                        elif isinstance(p_, ast.AugAssign):
                            shape = "augassign"
                        elif isinstance(n.ctx, ast.Del):
                            shape = "delete"
                        q = p_
                        while q is not None and not isinstance(q, (ast.FunctionDef, ast.AsyncFunctionDef)):
                            if isinstance(q, ast.If) and shape == "assign" and \
                                    ast.unparse(q.test) in (f"self.{n.attr} is None", f"self.{n.attr.lstrip('_')} is None"):
                                shape = "fill-if-None"
                            q = par.get(id(q))
                        if any(d.endswith(".setter") for d in deco) and shape == "assign":
                            shape = "setter"
                        late.setdefault(n.attr, []).append((m.name, shape))
                        (reset if shape in ("reset-to-None", "delete") else assigned).add(n.attr)
                    elif isinstance(n, ast.Call) and ast.unparse(n.func) in ("setattr", "object.__setattr__", "self.__setattr__"):
                        raise Unsupported(f"{mod}.{c.name}.{m.name}: attribute assigned through setattr")
                    elif isinstance(n, ast.Attribute) and n.attr == "__dict__" and isinstance(n.value, ast.Name) and n.value.id == "self":
                        raise Unsupported(f"{mod}.{c.name}.{m.name}: instance __dict__ used")
                if assigned or reset:
                    dele = []
                    for n in ast.walk(m):
                        if isinstance(n, ast.Call):
                            f = ast.unparse(n.func)
                            if f.endswith(".fset") and n.args and ast.unparse(n.args[0]) == "self":
                                dele.append(f[:-len(".fset")])
                            elif f.startswith("super()."):
                                dele.append(f)
                    fills = {a for a, us in late.items() if any(mm == m.name and sh == "fill-if-None" for mm, sh in us)}
                    # a method that only fills a memo is not a setter
                    if (assigned - fills) or reset:
                        setters.append((mod, c.name, m.name, sorted(assigned - fills), sorted(reset), sorted(set(dele))))
            for a, uses in late.items():
                attrs.append((mod, c.name, a, sorted(set(uses))))
            for a, uses in late.items():
                if not any(sh == "fill-if-None" for _, sh in uses):
                    continue
                hand = []
                for m in methods:
                    for n in ast.walk(m):
                        if not (isinstance(n, ast.Return) and n.value is not None):
                            continue

                        def is_attr(x, _a=a):
                            return isinstance(x, ast.Attribute) and isinstance(x.value, ast.Name) and x.value.id == "self" and x.attr == _a
                        vals = n.value.elts if isinstance(n.value, (ast.Tuple, ast.List)) else [n.value]
                        for v in vals:
                            if is_attr(v):
                                hand.append((m.name, "itself"))
                            elif isinstance(v, ast.Call) and ((isinstance(v.func, ast.Attribute) and v.func.attr == "copy" and is_attr(v.func.value))
                                                              or (ast.unparse(v.func) in ("np.copy", "np.array") and v.args and is_attr(v.args[0]))):
                                hand.append((m.name, "copy"))
                            elif isinstance(v, ast.Call) and ast.unparse(v.func) in ALIAS_CALLS and v.args and is_attr(v.args[0]):
                                hand.append((m.name, "itself"))
                # what the memo is computed from: `self.<x>` read by the fill expression, following local names
                reads, fill_in, fill_txt = set(), [], []
                for m in methods:
                    par = _parents(m)
                    for n in ast.walk(m):
                        if isinstance(n, ast.Attribute) and isinstance(n.ctx, ast.Store) and isinstance(n.value, ast.Name) \
                                and n.value.id == "self" and n.attr == a and isinstance(par.get(id(n)), ast.Assign) \
                                and any(mm == m.name and sh == "fill-if-None" for mm, sh in uses):
                            val = par[id(n)].value
                            if isinstance(val, ast.Constant):
                                continue
                            fill_in.append(m.name)
                            fill_txt.append(ast.unparse(val)[:100])
                            todo, seen = [val], set()
                            while todo:
                                e = todo.pop()
                                for x in ast.walk(e):
                                    if isinstance(x, ast.Attribute) and isinstance(x.value, ast.Name) and x.value.id == "self":
                                        reads.add(x.attr)
                                    elif isinstance(x, ast.Name) and x.id not in seen:
                                        seen.add(x.id)
                                        for y in ast.walk(m):
                                            if isinstance(y, ast.Assign) and any(isinstance(t, ast.Name) and t.id == x.id
                                                                                 or isinstance(t, (ast.Tuple, ast.List)) and any(isinstance(tt, ast.Name) and tt.id == x.id for tt in t.elts)
                                                                                 for t in y.targets):
                                                todo.append(y.value)
                memos.append((mod, c.name, a, sorted(set(hand)), sorted(set(fill_in)), sorted(set(fill_txt)), sorted(reads - {a})))
    return dict(objects=result, function_caches=sorted(fcaches), cache_imports=sorted(set(imps)), mutable_defaults=sorted(defaults), default_uses=sorted(default_uses),
                class_objects=sorted(classobjs), global_rebinds=sorted(rebinds), nonlocals=sorted(nonlocals),
                late_attrs=sorted(attrs), memos=sorted(memos), setters=sorted(setters))


def _ls(x: str) -> str:
    """Lean string literal."""
    out = []
    for ch in x:
        if ch == "\\":
            out.append("\\\\")
        elif ch == '"':
            out.append('\\"')
        elif ch == "\n":
            out.append("\\n")
        elif 32 <= ord(ch) < 127:
            out.append(ch)
        else:
            out.append("?")
    return '"' + "".join(out) + '"'


def _ll(xs, f=_ls) -> str:
    return "[" + ", ".join(f(x) for x in xs) + "]"


def _lp(p) -> str:
    return "(" + ", ".join(_ls(x) for x in p) + ")"


def module_state_text() -> str:
    st = module_state()
    parts = [HEADER.format(name="angular_cache", source="every module of src/grid (module-level bindings, decorators, default "
                           "arguments, class bodies, `global`/`nonlocal`, instance attributes assigned outside __init__)")]
    parts.append("import GridVerif.Model.Aliasing\n\nnamespace GridVerif.Gen.ModuleState\nopen GridVerif.Aliasing\n")
    parts.append("/-- the modules that were read -/")
    parts.append("def modules : List String := " + _ll([p.stem for p in _modules()]) + "\n")
    parts.append("/-- every module-level binding whose value is not a literal constant, with every use of it in any function -/")
    parts.append("def moduleObjects : List ModObj := [")
    rows = []
    for o in st["objects"]:
        rows.append(f"  ⟨{_ls(o['module'])}, {_ls(o['name'])}, {_ls(o['kind'])},\n    {_ll(o['writers'], _lp)},\n    {_ll(o['escapes'], _lp)},\n    {_ll(o['readers'])}⟩")
    parts.append(",\n".join(rows) + "]\n")
    parts.append("/-- decorators mentioning cache / lru / memo, attributes stored on functions: `(module, function, text)` -/")
    parts.append("def functionCaches : List (String × String × String) := " + _ll(st["function_caches"], _lp) + "\n")
    parts.append("/-- imports of modules that provide caches or process-wide state: `(module, imported)` -/")
    parts.append("def cacheImports : List (String × String) := " + _ll(st["cache_imports"], _lp) + "\n")
    parts.append("/-- default arguments that are not literal constants or names: `(module, function, text)` -/")
    parts.append("def mutableDefaults : List (String × String × String) := " + _ll(st["mutable_defaults"], _lp) + "\n")
    parts.append("/-- what the function does with the parameter holding such a default object: `(module, function, parameter, writers, escapes)` "
                 "(a write changes the default for every later call that omits the argument, and the caller's object when it is given) -/")
    parts.append("def mutableDefaultUses : List (String × String × String × List (String × String) × List (String × String)) := [")
    parts.append(",\n".join(f"  ({_ls(m)}, {_ls(q)}, {_ls(prm)}, {_ll(w, _lp)}, {_ll(e, _lp)})" for m, q, prm, w, e in st["default_uses"]) + "]\n")
    parts.append("/-- class-body bindings whose value is not a literal constant: `(module, Class.attr, kind)` -/")
    parts.append("def classObjects : List (String × String × String) := " + _ll(st["class_objects"], _lp) + "\n")
    parts.append("/-- `global` statements: `(module, function, name)` -/")
    parts.append("def globalRebinds : List (String × String × String) := " + _ll(st["global_rebinds"], _lp) + "\n")
    parts.append("/-- `nonlocal` statements: `(module, function, name)` -/")
    parts.append("def nonlocals : List (String × String × String) := " + _ll(st["nonlocals"], _lp) + "\n")
    parts.append("/-- instance attributes assigned outside `__init__`: `(module, class, attribute, [(method, shape)])` -/")
    parts.append("def lateAttrs : List (String × String × String × List (String × String)) := [")
    parts.append(",\n".join(f"  ({_ls(m)}, {_ls(c)}, {_ls(a)}, {_ll(us, _lp)})" for m, c, a, us in st["late_attrs"]) + "]\n")
    parts.append("/-- the lazily filled ones among them -/")
    parts.append("def memos : List Memo := [")
    parts.append(",\n".join(f"  ⟨{_ls(m)}, {_ls(c)}, {_ls(a)}, {_ll(h, _lp)}, {_ll(fi)}, {_ll(ft)}, {_ll(rd)}⟩"
                            for m, c, a, h, fi, ft, rd in st["memos"]) + "]\n")
    parts.append("/-- methods other than `__init__` that assign instance attributes (pure memo fills excluded) -/")
    parts.append("def setters : List Setter := [")
    parts.append(",\n".join(f"  ⟨{_ls(m)}, {_ls(c)}, {_ls(me)}, {_ll(a)}, {_ll(r)}, {_ll(d)}⟩" for m, c, me, a, r, d in st["setters"]) + "]\n")
    parts.append("end GridVerif.Gen.ModuleState\n")
    return "\n".join(parts)

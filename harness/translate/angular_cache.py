"""Translator for C19: the copy discipline of AngularGrid.__init__, the `set_maximum_parameter_b`
state update of the b-scaled radial transforms, and the freshness of what the Coulomb
parameter loader returns  ->  Gen/AngularCache.lean."""
import ast

from ..common import SRC
from .util import HEADER, write_if_changed


class Unsupported(Exception):
    pass


def _fresh(e) -> bool:
    """Is the expression a new array (True) or the loaded/cached object itself (False)?"""
    if isinstance(e, ast.BinOp):
        return True
    if isinstance(e, ast.Call):
        f = e.func
        if isinstance(f, ast.Attribute) and f.attr == "copy" and not e.args:
            return True
        if isinstance(f, ast.Attribute) and isinstance(f.value, ast.Name) and f.value.id == "np" and f.attr in ("array", "copy"):
            return True
        raise Unsupported(f"angular.AngularGrid.__init__: cannot classify call {ast.unparse(e)}")
    if isinstance(e, ast.Name):
        return False
    raise Unsupported(f"angular.AngularGrid.__init__: cannot classify {ast.unparse(e)}")


def angular_discipline():
    tree = ast.parse((SRC / "angular.py").read_text())
    cls = next(n for n in tree.body if isinstance(n, ast.ClassDef) and n.name == "AngularGrid")
    init = next(n for n in cls.body if isinstance(n, ast.FunctionDef) and n.name == "__init__")
    found = None
    for n in ast.walk(init):
        if isinstance(n, ast.If):
            def sup(body):
                calls = [s.value for s in body if isinstance(s, ast.Expr) and isinstance(s.value, ast.Call)
                         and ast.unparse(s.value.func) == "super().__init__"]
                return calls[0] if len(calls) == 1 and len(body) == 1 else None
            a, b = sup(n.body), sup(n.orelse)
            if a is not None and b is not None:
                if found is not None:
                    raise Unsupported("angular.AngularGrid.__init__: more than one super().__init__ branch pair")
                found = (n, a, b)
    if found is None:
        # a single unconditional call
        calls = [n for n in ast.walk(init) if isinstance(n, ast.Call) and ast.unparse(n.func) == "super().__init__"]
        if len(calls) != 1:
            raise Unsupported("angular.AngularGrid.__init__: super().__init__ call pattern not recognised")
        c = calls[0]
        pf, wf = _fresh(c.args[0]), _fresh(c.args[1])
        return dict(plain=(pf, wf), scaled=(pf, wf), plain_methods=[])
    n, a, b = found
    test = n.test
    if not (isinstance(test, ast.Compare) and len(test.ops) == 1 and isinstance(test.ops[0], ast.In)
            and isinstance(test.comparators[0], (ast.List, ast.Tuple))):
        raise Unsupported("angular.AngularGrid.__init__: branch test is not `method in [...]`")
    methods = [e.value for e in test.comparators[0].elts]
    for c in (a, b):
        if len(c.args) != 2 or c.keywords:
            raise Unsupported("angular.AngularGrid.__init__: super().__init__ arguments")
    # the cache must hold the loaded arrays and hand back the stored pair
    src = ast.unparse(init)
    if "cache_dict[degree] = (points, weights)" not in src or "points, weights = cache_dict[degree]" not in src:
        raise Unsupported("angular.AngularGrid.__init__: cache fill / reuse statements not recognised")
    return dict(plain=(_fresh(a.args[0]), _fresh(a.args[1])), scaled=(_fresh(b.args[0]), _fresh(b.args[1])),
                plain_methods=methods)


def b_machine():
    """-> per class: ('guarded'|'always', [methods calling set_maximum_parameter_b first], other writers of _b)"""
    tree = ast.parse((SRC / "rtransform.py").read_text())
    out = {}
    for cls in [n for n in tree.body if isinstance(n, ast.ClassDef)]:
        setter = next((n for n in cls.body if isinstance(n, ast.FunctionDef) and n.name == "set_maximum_parameter_b"), None)
        if setter is None:
            continue
        body = [s for s in setter.body if not (isinstance(s, ast.Expr) and isinstance(s.value, ast.Constant))]
        arg = setter.args.args[1].arg

        def is_assign_max(s):
            return (isinstance(s, ast.Assign) and ast.unparse(s.targets[0]) == "self._b"
                    and ast.unparse(s.value) in (f"np.max({arg})", f"{arg}.max()", f"np.amax({arg})"))

        def is_zero_check(s):
            return isinstance(s, ast.If) and all(isinstance(x, ast.Raise) for x in s.body) and not s.orelse

        if len(body) == 1 and isinstance(body[0], ast.If) and ast.unparse(body[0].test) in ("self.b is None", "self._b is None") \
                and not body[0].orelse and is_assign_max(body[0].body[0]) and all(is_zero_check(s) for s in body[0].body[1:]):
            shape = "guarded"
        elif body and is_assign_max(body[0]) and all(is_zero_check(s) for s in body[1:]):
            shape = "always"
        else:
            raise Unsupported(f"rtransform.{cls.name}.set_maximum_parameter_b: body not recognised: {ast.unparse(setter)[:200]}")
        callers, writers, nocall = [], [], []
        for m in cls.body:
            if not isinstance(m, ast.FunctionDef) or m.name in ("__init__", "set_maximum_parameter_b"):
                continue
            stmts = [s for s in m.body if not (isinstance(s, ast.Expr) and isinstance(s.value, ast.Constant))]
            uses_b = any(isinstance(n, ast.Attribute) and n.attr in ("b", "_b") and isinstance(n.value, ast.Name)
                         and n.value.id == "self" for n in ast.walk(m))
            first = stmts[0] if stmts else None
            calls_first = (isinstance(first, ast.Expr) and isinstance(first.value, ast.Call)
                           and ast.unparse(first.value.func) == "self.set_maximum_parameter_b")
            if calls_first:
                callers.append(m.name)
            elif uses_b and not any(d for d in m.decorator_list):
                nocall.append(m.name)
            for n in ast.walk(m):
                if isinstance(n, (ast.Assign, ast.AugAssign)):
                    tg = n.targets if isinstance(n, ast.Assign) else [n.target]
                    if any(ast.unparse(t) in ("self._b", "self.b") for t in tg):
                        writers.append(m.name)
        out[cls.name] = (shape, callers, writers, nocall)
    return out


def coulomb_loader_fresh() -> bool:
    tree = ast.parse((SRC / "coulomb.py").read_text())
    fn = next(n for n in tree.body if isinstance(n, ast.FunctionDef) and n.name == "load_atomic_gaussian_params")
    ret = [n for n in ast.walk(fn) if isinstance(n, ast.Return) and n.value is not None]
    if len(ret) != 1 or not isinstance(ret[0].value, ast.Tuple):
        raise Unsupported("coulomb.load_atomic_gaussian_params: return pattern")
    names = [e.id for e in ret[0].value.elts if isinstance(e, ast.Name)]
    fresh = True
    for nm in names:
        assigns = [n for n in ast.walk(fn) if isinstance(n, ast.Assign) and ast.unparse(n.targets[0]) == nm]
        if len(assigns) != 1:
            raise Unsupported("coulomb.load_atomic_gaussian_params: assignment pattern")
        v = assigns[0].value
        # np.asarray(<python list from JSON>, dtype=float) and np.array(...) build new arrays from lists
        ok = isinstance(v, ast.Call) and ast.unparse(v.func) in ("np.asarray", "np.array") and isinstance(v.args[0], ast.Subscript)
        fresh = fresh and ok
    return fresh and len(names) == 2


def generate():
    d = angular_discipline()
    bm = b_machine()
    cf = coulomb_loader_fresh()
    tb = lambda x: "true" if x else "false"
    parts = [HEADER.format(name="angular_cache", source="src/grid/angular.py (AngularGrid.__init__), src/grid/rtransform.py (set_maximum_parameter_b), src/grid/coulomb.py (load_atomic_gaussian_params)")]
    parts.append("import GridVerif.Model.Aliasing\n\nnamespace GridVerif.Gen.AngularCache\nopen GridVerif.Aliasing\n")
    parts.append(f"/-- branch `method in {d['plain_methods']}`: `super().__init__(points…, weights…)`; other branch: weights rescaled. -/")
    parts.append(f"def discipline : Discipline := ⟨{tb(d['plain'][0])}, {tb(d['plain'][1])}, {tb(d['scaled'][0])}, {tb(d['scaled'][1])}⟩\n")
    parts.append("def plainMethods : List String := [" + ", ".join(f'"{m}"' for m in d["plain_methods"]) + "]\n")
    for cls, (shape, callers, writers, nocall) in bm.items():
        parts.append(f"/-- `{cls}.set_maximum_parameter_b`: new value of the remembered scale given the maximum `mx` of the grid it sees. -/")
        if shape == "guarded":
            parts.append(f"def setMaxB_{cls} {{K : Type}} (b : Option K) (mx : K) : Option K :=\n  match b with\n  | none => some mx\n  | some v => some v\n")
        else:
            parts.append(f"def setMaxB_{cls} {{K : Type}} (_b : Option K) (mx : K) : Option K := some mx\n")
        parts.append(f"/-- methods of `{cls}` that call it before anything else -/")
        parts.append(f"def bCallers_{cls} : List String := [" + ", ".join(f'"{m}"' for m in callers) + "]")
        parts.append(f"/-- methods of `{cls}` (other than the constructor and the setter) that assign the scale -/")
        parts.append(f"def bWriters_{cls} : List String := [" + ", ".join(f'"{m}"' for m in writers) + "]")
        parts.append(f"/-- methods of `{cls}` that read the scale without fixing it first -/")
        parts.append(f"def bReadersWithoutSet_{cls} : List String := [" + ", ".join(f'"{m}"' for m in nocall) + "]\n")
    parts.append("def bClasses : List String := [" + ", ".join(f'"{c}"' for c in bm) + "]\n")
    parts.append("/-- `load_atomic_gaussian_params` builds its two result arrays anew from the JSON lists on every call. -/")
    parts.append(f"def coulombLoaderFresh : Bool := {tb(cf)}\n")
    parts.append("end GridVerif.Gen.AngularCache\n")
    return write_if_changed("AngularCache.lean", "\n".join(parts))

"""Translator: grid/ode.py -> Gen/Ode.lean  (property C15).

AST based, regenerated from the current source on every run.  What is carried:

* `_transform_ode_from_derivs`: the accumulation statements `coeff_b[j] (+)= <expr>` inside the
  `if total > n:` blocks are executed symbolically for `total = 2, 3, 4` (ODE orders 1, 2, 3) and
  every row of `coeff_b` is written out as a generic-`K` scalar definition
  `coeffB_<order>_<row> a0 … a<order> d0 d1 d2` (`a<k>` = `coeff_a_mtr[k]`, `d<i>` = `derivs[i]`),
  operand order and parenthesisation as in the source (so the `Float` instance reproduces NumPy's
  result).  The block guarded by `total > n` with `n ≥ 4` (the Bell-polynomial loop for higher orders)
  cannot run for the orders of the property; since round 3 it is carried statement by statement all the same
  (`coeffBHigh`: the loop over the points is the model's "one point", the two `range` loops with their bounds,
  `coeff_b[j, i_pt] += float(bell(k, j, derivs[:, i_pt])) * coeff_a_mtr[k, i_pt]`), together with
  `coeffBAny` / `transformOdeFromDerivsAny` for any number of coefficients.
* `_transform_ode_from_rtransform`: the list of transform methods handed on (`deriv, deriv2, deriv3`).
* `_rearrange_to_explicit_ode`: `result = fx`, the loop over `enumerate(coeff_b[:-1])`, the final
  division by `coeff_b[-1]` -> an `Option`-monadic fold over lists (an index out of range is `none`).
  The `if` whose body is the one call `warnings.warn(<text>, <int keywords>)` has no effect on the value; since
  round 3 its test (`np.any(np.abs(coeff_b[-1]) < 1e-10)`: comparisons of list reads, `np.abs`, literals) is
  carried as `rearrangeWarns` and the integer keywords as `rearrangeWarnKeywords`; anything else in that block
  (e.g. a clamp of the leading coefficient) raises.
* the defaults of the keyword parameters of `solve_ode_ivp` / `solve_ode_bvp` (round 3): one generated constant per
  literal default (`ivpDefaultRtol`, …), `None` defaults must stay `None`; `solveOdeIvpDefault` / `solveOdeBvpDefault`
  are the calls with the keywords left out.
* `_transform_and_rearrange_to_explicit_ode`: the composition (which point the coefficients, the
  transform derivatives and the right-hand side are evaluated at).
* `_derivative_transformation_matrix`: the `order > numb_derivs` guard, the loop nest with its
  `range(...)` bounds, the target index `deriv_transf[·,·]` and the two integer arguments of
  `bell(·,·, derivs_at_pt)` -> a fold over `Model/Ode.lean`'s `pyRange` / `matSet`; the Bell
  polynomial itself is SymPy's and is the parameter `bell` (modelled in `Model/Ode.lean`).

Anything else in those functions must have exactly the shape checked below; otherwise
`Untranslatable` is raised (the check treats it as a proof obligation that no longer holds).
"""
import ast
import math
from fractions import Fraction

from ..common import SRC
from .util import HEADER, write_if_changed


class Untranslatable(ValueError):
    pass


def _src(node):
    try:
        return ast.unparse(node)
    except Exception:  # pragma: no cover
        return repr(node)


def _fail(node, why):
    raise Untranslatable(f"ode.py line {getattr(node, 'lineno', '?')}: {why}: {_src(node)[:140]}")


def _func(tree, name):
    for f in tree.body:
        if isinstance(f, ast.FunctionDef) and f.name == name:
            return f
    raise Untranslatable(f"function {name} not found in ode.py")


def _body(f):
    b = list(f.body)
    if b and isinstance(b[0], ast.Expr) and isinstance(b[0].value, ast.Constant) and isinstance(b[0].value.value, str):
        b = b[1:]
    return b


def _nat(n):
    return f"(({n} : Nat) : K)"


def _int_const(e):
    if isinstance(e, ast.UnaryOp) and isinstance(e.op, ast.USub):
        c = _int_const(e.operand)
        return None if c is None else -c
    if isinstance(e, ast.Constant) and isinstance(e.value, int) and not isinstance(e.value, bool):
        return e.value
    if isinstance(e, ast.Constant) and isinstance(e.value, float) and e.value == int(e.value) and abs(e.value) < 2**53:
        return int(e.value)
    return None


def _float_literal(e):
    """a non-negative finite float literal as a quotient of two exactly representable naturals (generic `K`)"""
    v = e.value
    if not math.isfinite(v) or v < 0:
        _fail(e, "float literal is negative / not finite")
    fr = Fraction(repr(v))
    if fr.numerator >= 2**53 or fr.denominator >= 2**53 or float(fr.numerator) / float(fr.denominator) != v:
        _fail(e, "float literal is not a quotient of two exactly representable integers")
    if fr.denominator == 1:
        return _nat(fr.numerator)
    return f"({_nat(fr.numerator)} / {_nat(fr.denominator)})"


# ----------------------------------------------------------------------------------------------
# _transform_ode_from_derivs
# ----------------------------------------------------------------------------------------------
class CoeffExpr:
    """Scalar expressions over `coeff_a_mtr[k]`, `derivs[i]` and integer literals."""

    def __init__(self, order, a_name, d_name, nderivs=3):
        self.order, self.a, self.d, self.nd = order, a_name, d_name, nderivs

    def tr(self, e):
        c = _int_const(e)
        if c is not None:
            if c < 0:
                return f"(-{_nat(-c)})"
            return _nat(c)
        if isinstance(e, ast.Subscript) and isinstance(e.value, ast.Name):
            k = _int_const(e.slice)
            if k is None or k < 0:
                _fail(e, "index is not a non-negative integer literal")
            if e.value.id == self.a:
                if k > self.order:
                    _fail(e, f"coefficient row {k} does not exist for an ODE of order {self.order} (IndexError)")
                return f"a{k}"
            if e.value.id == self.d:
                if k >= self.nd:
                    _fail(e, f"derivative row {k} does not exist ({self.nd} transform derivatives are passed)")
                return f"d{k}"
            _fail(e, "unknown array")
        if isinstance(e, ast.UnaryOp) and isinstance(e.op, ast.USub):
            return f"(-{self.tr(e.operand)})"
        if isinstance(e, ast.BinOp):
            if isinstance(e.op, ast.Pow):
                n = _int_const(e.right)
                if n is None or n < 0:
                    _fail(e, "exponent is not a non-negative integer literal")
                return f"(npow {self.tr(e.left)} {n})"
            op = {ast.Add: "+", ast.Sub: "-", ast.Mult: "*", ast.Div: "/"}.get(type(e.op))
            if op is None:
                _fail(e, "unsupported operator")
            return f"({self.tr(e.left)} {op} {self.tr(e.right)})"
        _fail(e, "unsupported expression")


def _total_guard(test):
    """`total > n` -> n"""
    if (isinstance(test, ast.Compare) and len(test.ops) == 1 and isinstance(test.ops[0], ast.Gt)
            and isinstance(test.left, ast.Name) and test.left.id == "total"):
        n = _int_const(test.comparators[0])
        if n is not None:
            return n
    _fail(test, "guard is not `total > <int>`")


PLUMBING_DERIVS = {
    "derivs = np.array([dev(x) for dev in deriv_transformation], dtype=float)",
    "total = len(coeffs)",
    "coeff_a_mtr = _evaluate_coeffs_on_points(x, coeffs)",
    "coeff_b = np.zeros((total, x.size), dtype=float)",
}


def translate_coeffs(tree):
    f = _func(tree, "_transform_ode_from_derivs")
    if [a.arg for a in f.args.args] != ["coeffs", "deriv_transformation", "x"]:
        raise Untranslatable("_transform_ode_from_derivs: unexpected signature")
    body = _body(f)
    seen = set()
    stmts = []  # (guard n or None, row, op, expr-node)
    bell_from = None
    bell_lines = None
    returned = False

    def accum(s, guard):
        if isinstance(s, (ast.AugAssign, ast.Assign)):
            t = s.target if isinstance(s, ast.AugAssign) else (s.targets[0] if len(s.targets) == 1 else None)
            if (isinstance(t, ast.Subscript) and isinstance(t.value, ast.Name) and t.value.id == "coeff_b"
                    and _int_const(t.slice) is not None and _int_const(t.slice) >= 0):
                if isinstance(s, ast.Assign):
                    op = "="
                else:
                    op = {ast.Add: "+", ast.Sub: "-"}.get(type(s.op))
                    if op is None:
                        _fail(s, "unsupported augmented assignment")
                stmts.append((guard, _int_const(t.slice), op, s.value))
                return
        _fail(s, "statement is not `coeff_b[<row>] (+)= <expr>`")

    for s in body:
        if returned:
            _fail(s, "statement after return")
        if isinstance(s, ast.Return):
            if _src(s.value) != "coeff_b":
                _fail(s, "unexpected return value")
            returned = True
            continue
        if isinstance(s, ast.Assign) and _src(s) in PLUMBING_DERIVS:
            seen.add(_src(s))
            continue
        if isinstance(s, ast.If):
            if s.orelse:
                _fail(s, "else branch")
            n = _total_guard(s.test)
            if n >= 4:
                # the Bell-polynomial loop of the higher orders: cannot run for total <= 4 (orders <= 3); carried
                # statement by statement (round 3) as `coeffBHigh`
                if bell_from is not None:
                    _fail(s, "a second block guarded by `total > n`, n >= 4")
                bell_from = n
                bell_lines = translate_bell_block(s.body)
                continue
            for b in s.body:
                accum(b, n)
            continue
        accum(s, None)
    if seen != PLUMBING_DERIVS or not returned:
        raise Untranslatable("_transform_ode_from_derivs: set-up statements changed: missing "
                             + "; ".join(sorted(PLUMBING_DERIVS - seen)))

    out = ["/-! ### `_transform_ode_from_derivs` — rows of `coeff_b` for ODE orders 1, 2, 3",
           "`a<k>` = `coeff_a_mtr[k]` (the coefficient `a_k` at the point), `d<i>` = `derivs[i]`",
           "(the `(i+1)`-th function of `deriv_transformation` at the point). -/", ""]
    for order in (1, 2, 3):
        total = order + 1
        ce = CoeffExpr(order, "coeff_a_mtr", "derivs")
        rows = {j: _nat(0) for j in range(total)}  # np.zeros
        for guard, row, op, expr in stmts:
            if guard is not None and not (total > guard):
                continue
            if row >= total:
                _fail(expr, f"row {row} of coeff_b does not exist for order {order} (IndexError)")
            e = ce.tr(expr)
            rows[row] = e if op == "=" else f"({rows[row]} {op} {e})"
        args = " ".join(f"a{k}" for k in range(total)) + " d0 d1 d2"
        for j in range(total):
            out.append(f"/-- `coeff_b[{j}]` for `len(coeffs) = {total}` (ODE of order {order}). -/")
            out.append(f"def coeffB_{order}_{j} ({args} : K) : K :=\n  {rows[j]}")
            out.append("")
        out.append(f"def coeffB{order} ({args} : K) : List K :=\n  ["
                   + ", ".join(f"coeffB_{order}_{j} {args}" for j in range(total)) + "]")
        out.append("")
    out.append("/-- Dispatch on `len(coeffs)` (orders 1–3 only). -/")
    out.append("def coeffB (a : List K) (d0 d1 d2 : K) : Option (List K) :=\n  match a with")
    for order in (1, 2, 3):
        names = [f"a{k}" for k in range(order + 1)]
        out.append(f"  | [{', '.join(names)}] => some (coeffB{order} {' '.join(names)} d0 d1 d2)")
    out.append("  | _ => none")
    out.append("")
    out.append("/-- The `n` of the block `if total > n:` that holds the Bell-polynomial loop of the higher orders "
               "(`coeffBHigh` below);\nit cannot run for `total ≤ 4`. -/")
    out.append(f"def bellLoopGuard : Option Nat := {'none' if bell_from is None else f'some {bell_from}'}")
    out.append("")
    out.append("/-- The block `if total > n:` (n ≥ 4) of `_transform_ode_from_derivs`, one point (the loop `for i_pt in "
               "range(len(x))` is the\nloop over the points): `bell k j` stands for `float(bell(k, j, derivs[:, i_pt]))` "
               "(SymPy), `coeff_b` is the column\nbuilt so far.  An index out of range is NumPy's IndexError (`none`). -/")
    out.append("def coeffBHigh (bell : Nat → Nat → K) (coeff_a_mtr : List K) (total : Nat) (coeff_b : List K) : "
               "Option (List K) := do")
    if bell_from is None:
        out.append("  pure coeff_b")
    else:
        out.append(f"  if decide (total > {bell_from}) then do")
        out += bell_lines
        out.append("    pure coeff_b")
        out.append("  else pure coeff_b")
    out.append("")
    out.append("/-- `coeff_b` for any `len(coeffs) ≥ 2`, one point: `np.zeros`, the vectorised statements (for `total ≥ 4` every "
               "guard\n`total > n`, n ≤ 3, holds, so rows 0–3 are those of order 3 and the further rows stay zero), then the "
               "block `coeffBHigh`. -/")
    out.append("def coeffBAny (bell : Nat → Nat → K) (a : List K) (d0 d1 d2 : K) : Option (List K) :=\n  match a with")
    for order in (1, 2, 3):
        names = [f"a{k}" for k in range(order + 1)]
        out.append(f"  | [{', '.join(names)}] => coeffBHigh bell a a.length (coeffB{order} {' '.join(names)} d0 d1 d2)")
    out.append("  | a0 :: a1 :: a2 :: a3 :: rest =>\n    coeffBHigh bell a a.length (coeffB3 a0 a1 a2 a3 d0 d1 d2 ++ colZeros rest.length)")
    out.append("  | _ => none")
    out.append("")
    return out


def translate_bell_block(body):
    """for i_pt in range(len(x)): for j in range(4, total): for k in range(j, total):
           all_derivs_at_pt = derivs[:, i_pt]
           coeff_b[j, i_pt] += float(bell(k, j, all_derivs_at_pt)) * coeff_a_mtr[k, i_pt]
    -> the lines of a Lean `do` block over one point (the outermost loop is the loop over the points)."""
    if len(body) != 1 or not isinstance(body[0], ast.For):
        _fail(body[0], "the block is not one loop over the points")
    outer = body[0]
    if outer.orelse or not isinstance(outer.target, ast.Name) or _src(outer.iter) not in ("range(len(x))", "range(x.size)"):
        _fail(outer, "outermost loop is not `for <i> in range(len(x))`")
    pt = outer.target.id
    alias = set()

    def col(e, arrays):
        """`<array>[<nat>, pt]` -> (array, index text)"""
        if (isinstance(e, ast.Subscript) and isinstance(e.value, ast.Name) and e.value.id in arrays
                and isinstance(e.slice, ast.Tuple) and len(e.slice.elts) == 2
                and isinstance(e.slice.elts[1], ast.Name) and e.slice.elts[1].id == pt):
            return e.value.id, e.slice.elts[0]
        return None

    def expr(e, names):
        c = _int_const(e)
        if c is not None:
            return _nat(c) if c >= 0 else f"(-{_nat(-c)})"
        if isinstance(e, ast.Call) and _src(e.func) == "float" and len(e.args) == 1 and not e.keywords:
            b = e.args[0]
            if (isinstance(b, ast.Call) and _src(b.func) == "bell" and len(b.args) == 3 and not b.keywords
                    and isinstance(b.args[2], ast.Name) and b.args[2].id in alias):
                n, k = (_nat_expr(x, names) for x in b.args[:2])
                return f"(bell {n} {k})"
            _fail(e, "float(...) of something that is not bell(n, k, <derivatives at the point>)")
        c2 = col(e, ("coeff_a_mtr", "coeff_b"))
        if c2 is not None:
            return f"(← {c2[0]}[{_nat_expr(c2[1], names)}]?)"
        if isinstance(e, ast.UnaryOp) and isinstance(e.op, ast.USub):
            return f"(-{expr(e.operand, names)})"
        if isinstance(e, ast.BinOp):
            op = {ast.Add: "+", ast.Sub: "-", ast.Mult: "*", ast.Div: "/"}.get(type(e.op))
            if op is None:
                _fail(e, "unsupported operator")
            return f"({expr(e.left, names)} {op} {expr(e.right, names)})"
        _fail(e, "unsupported expression in the Bell loop")

    def block(stmts, names, ind):
        p = " " * ind
        out = []
        for s in stmts:
            if isinstance(s, ast.For):
                it = s.iter
                if s.orelse or not isinstance(s.target, ast.Name) or not (
                        isinstance(it, ast.Call) and _src(it.func) == "range" and not it.keywords and len(it.args) in (1, 2)):
                    _fail(s, "loop is not over range(lo, hi)")
                lo = _nat_expr(it.args[0], names) if len(it.args) == 2 else "0"
                hi = _nat_expr(it.args[-1], names)
                v = s.target.id
                out.append(f"{p}let coeff_b ← (pyRange {lo} {hi}).foldlM (fun coeff_b {v} => do")
                out += block(s.body, names | {v}, ind + 4)
                out.append(f"{p}    pure coeff_b) coeff_b")
                continue
            if (isinstance(s, ast.Assign) and len(s.targets) == 1 and isinstance(s.targets[0], ast.Name)
                    and _src(s.value) == f"derivs[:, {pt}]"):
                alias.add(s.targets[0].id)        # the derivatives of the transform at the point
                continue
            if isinstance(s, (ast.AugAssign, ast.Assign)):
                t = s.target if isinstance(s, ast.AugAssign) else (s.targets[0] if len(s.targets) == 1 else None)
                c2 = col(t, ("coeff_b",)) if t is not None else None
                if c2 is not None:
                    row = _nat_expr(c2[1], names)
                    val = expr(s.value, names)
                    if isinstance(s, ast.AugAssign):
                        op = {ast.Add: "+", ast.Sub: "-"}.get(type(s.op))
                        if op is None:
                            _fail(s, "unsupported augmented assignment")
                        val = f"((← coeff_b[{row}]?) {op} {val})"
                    out.append(f"{p}let coeff_b ← listSet coeff_b {row} {val}")
                    continue
            _fail(s, "unsupported statement in the Bell loop")
        return out

    return block(outer.body, {"total"}, 4)


# ----------------------------------------------------------------------------------------------
# _transform_ode_from_rtransform
# ----------------------------------------------------------------------------------------------
def translate_rtransform(tree):
    f = _func(tree, "_transform_ode_from_rtransform")
    if [a.arg for a in f.args.args] != ["coeff_a", "tf", "x"]:
        raise Untranslatable("_transform_ode_from_rtransform: unexpected signature")
    body = _body(f)
    if len(body) != 2 or not isinstance(body[0], ast.Assign) or not isinstance(body[1], ast.Return):
        raise Untranslatable("_transform_ode_from_rtransform: unexpected body")
    a = body[0]
    if not (len(a.targets) == 1 and isinstance(a.targets[0], ast.Name) and isinstance(a.value, ast.List)):
        _fail(a, "expected `<name> = [tf.<method>, …]`")
    lst = a.targets[0].id
    methods = []
    for e in a.value.elts:
        if not (isinstance(e, ast.Attribute) and isinstance(e.value, ast.Name) and e.value.id == "tf"):
            _fail(e, "list element is not `tf.<method>`")
        methods.append(e.attr)
    if _src(body[1].value) != f"_transform_ode_from_derivs(coeff_a, {lst}, x)":
        _fail(body[1], "unexpected call")
    if len(methods) != 3:
        _fail(a, "expected three transform methods (derivs[0..2])")
    out = ["/-! ### `_transform_ode_from_derivs` (set-up statements) and `_transform_ode_from_rtransform`, one point -/", "",
           "/-- The transform methods whose values are `derivs[0], derivs[1], derivs[2]`, evaluated at the "
           "same\npoint `x` at which the coefficients `a_k` are evaluated. -/",
           "def rtransformDerivMethods : List String := [" + ", ".join(f'"{m}"' for m in methods) + "]", "",
           "/-- `derivs = np.array([dev(x) for dev in deriv_transformation])`, `coeff_a_mtr = "
           "_evaluate_coeffs_on_points(x, coeffs)`,\nthen the rows of `coeff_b` (orders 1–3). -/",
           "def transformOdeFromDerivs (coeffs : List (Coeff K)) (deriv_transformation : List (K → K)) (x : K) :",
           "    Option (List K) := do",
           "  let derivs := deriv_transformation.map fun dev => dev x",
           "  let coeff_a_mtr := evaluateCoeffsOnPoints x coeffs",
           "  coeffB coeff_a_mtr (← derivs[0]?) (← derivs[1]?) (← derivs[2]?)", "",
           "/-- The same statements for any `len(coeffs) ≥ 2` (with the block of the higher orders, `coeffBHigh`): "
           "`bell(k, j, derivs[:, i_pt])`\nreads the derivative list of whatever length was passed. -/",
           "def transformOdeFromDerivsAny (coeffs : List (Coeff K)) (deriv_transformation : List (K → K)) (x : K) :",
           "    Option (List K) := do",
           "  let derivs := deriv_transformation.map fun dev => dev x",
           "  let coeff_a_mtr := evaluateCoeffsOnPoints x coeffs",
           "  coeffBAny (fun n k => bell (seqOfList derivs) n k) coeff_a_mtr (← derivs[0]?) (← derivs[1]?) (← derivs[2]?)", "",
           f"/-- `{lst} = [" + ", ".join(f"tf.{m}" for m in methods) + f"]`; `return _transform_ode_from_derivs(coeff_a, {lst}, x)`. -/",
           "def transformOdeFromRtransform (coeff_a : List (Coeff K)) (tf : TransformFns K) (x : K) : Option (List K) :=",
           f"  let {lst} := [" + ", ".join(f"tf.{m}" for m in methods) + "]",
           f"  transformOdeFromDerivs coeff_a {lst} x", ""]
    return out


# ----------------------------------------------------------------------------------------------
# _rearrange_to_explicit_ode
# ----------------------------------------------------------------------------------------------
class ListExpr:
    """Scalar expressions over scalar names and list reads (`Option` monad)."""

    def __init__(self, scalars, lists):
        self.scalars, self.lists = set(scalars), set(lists)

    def tr(self, e):
        c = _int_const(e)
        if c is not None and c >= 0:
            return _nat(c)
        if isinstance(e, ast.Name):
            if e.id in self.scalars:
                return e.id
            _fail(e, "unknown scalar")
        if isinstance(e, ast.Subscript) and isinstance(e.value, ast.Name) and e.value.id in self.lists:
            l = e.value.id
            k = _int_const(e.slice)
            if k == -1:
                return f"(← {l}.getLast?)"
            if k is not None and k >= 0:
                return f"(← {l}[{k}]?)"
            if isinstance(e.slice, ast.Name) and e.slice.id in self.scalars:
                return f"(← {l}[{e.slice.id}]?)"
            _fail(e, "unsupported index")
        if isinstance(e, ast.UnaryOp) and isinstance(e.op, ast.USub):
            return f"(-{self.tr(e.operand)})"
        if isinstance(e, ast.BinOp):
            op = {ast.Add: "+", ast.Sub: "-", ast.Mult: "*", ast.Div: "/"}.get(type(e.op))
            if op is None:
                _fail(e, "unsupported operator")
            return f"({self.tr(e.left)} {op} {self.tr(e.right)})"
        _fail(e, "unsupported expression")


def translate_rearrange(tree):
    f = _func(tree, "_rearrange_to_explicit_ode")
    if [a.arg for a in f.args.args] != ["y", "coeff_b", "fx"]:
        raise Untranslatable("_rearrange_to_explicit_ode: unexpected signature")
    le = ListExpr({"fx"}, {"y", "coeff_b"})
    lines = []
    returned = False
    warn = None
    for s in _body(f):
        if returned:
            _fail(s, "statement after return")
        if isinstance(s, ast.If):
            # only the warning about a (nearly) vanishing leading coefficient: no effect on the value.  The block must
            # consist of the one call `warnings.warn(<text>, <int keywords>)`; its test is carried as `rearrangeWarns`.
            if s.orelse or len(s.body) != 1 or not (isinstance(s.body[0], ast.Expr)
                                                    and isinstance(s.body[0].value, ast.Call)
                                                    and _src(s.body[0].value.func) == "warnings.warn"):
                _fail(s, "`if` with an effect on the result")
            if warn is not None:
                _fail(s, "a second warning block")
            call = s.body[0].value
            if len(call.args) != 1 or not isinstance(call.args[0], (ast.Constant, ast.JoinedStr)) or \
                    (isinstance(call.args[0], ast.Constant) and not isinstance(call.args[0].value, str)):
                _fail(call, "warnings.warn is not called with one message text")
            kws = []
            for k in call.keywords:
                v = _int_const(k.value)
                if k.arg is None or v is None or v < 0 or not isinstance(k.value.value if isinstance(k.value, ast.Constant) else None, int):
                    _fail(call, "keyword of warnings.warn is not `<name>=<non-negative int>`")
                kws.append((k.arg, v))
            warn = (WarnExpr(set(le.scalars), set(le.lists)).test(s.test), kws)
            continue
        if isinstance(s, ast.Assign) and len(s.targets) == 1 and isinstance(s.targets[0], ast.Name):
            n = s.targets[0].id
            lines.append(f"  let {n} := {le.tr(s.value)}")
            le.scalars.add(n)
            continue
        if isinstance(s, ast.AugAssign) and isinstance(s.target, ast.Name) and s.target.id in le.scalars:
            op = {ast.Add: "+", ast.Sub: "-", ast.Mult: "*", ast.Div: "/"}.get(type(s.op))
            if op is None:
                _fail(s, "unsupported augmented assignment")
            lines.append(f"  let {s.target.id} := ({s.target.id} {op} {le.tr(s.value)})")
            continue
        if isinstance(s, ast.For):
            if s.orelse:
                _fail(s, "for-else")
            t = s.target
            if not (isinstance(t, ast.Tuple) and len(t.elts) == 2 and all(isinstance(x, ast.Name) for x in t.elts)):
                _fail(s, "loop target is not `i, b`")
            iv, bv = t.elts[0].id, t.elts[1].id
            it = _src(s.iter)
            if it == "enumerate(coeff_b[:-1])":
                seq = "coeff_b.dropLast.zipIdx"
            elif it == "enumerate(coeff_b)":
                seq = "coeff_b.zipIdx"
            else:
                _fail(s.iter, "loop is not over enumerate(coeff_b[:-1])")
            if len(s.body) != 1:
                _fail(s, "loop body is not a single statement")
            b = s.body[0]
            inner = ListExpr(le.scalars | {iv, bv}, le.lists)
            if isinstance(b, ast.Assign) and len(b.targets) == 1 and isinstance(b.targets[0], ast.Name) \
                    and b.targets[0].id in le.scalars:
                st, val = b.targets[0].id, inner.tr(b.value)
            elif isinstance(b, ast.AugAssign) and isinstance(b.target, ast.Name) and b.target.id in le.scalars:
                op = {ast.Add: "+", ast.Sub: "-", ast.Mult: "*", ast.Div: "/"}.get(type(b.op))
                if op is None:
                    _fail(b, "unsupported augmented assignment")
                st, val = b.target.id, f"({b.target.id} {op} {inner.tr(b.value)})"
            else:
                _fail(b, "loop body does not update a scalar accumulator")
            lines.append(f"  let {st} ← ({seq}).foldlM (fun {st} (p : K × Nat) => do")
            lines.append(f"      let {bv} := p.1")
            lines.append(f"      let {iv} := p.2")
            lines.append(f"      pure {val}) {st}")
            continue
        if isinstance(s, ast.Return):
            lines.append(f"  pure {le.tr(s.value)}")
            returned = True
            continue
        _fail(s, "unsupported statement")
    if not returned:
        raise Untranslatable("_rearrange_to_explicit_ode: no return")
    out = ["/-! ### `_rearrange_to_explicit_ode` (one point; rows of `y`, `coeff_b` as lists) -/", "",
           "/-- `(fx − Σ_{i<K} coeff_b[i]·y[i]) / coeff_b[K]` as the code computes it. -/",
           "def rearrangeToExplicitOde (y coeff_b : List K) (fx : K) : Option K := do"] + lines + [""]
    out += ["section warn", "variable [LT K] [DecidableLT K] [LE K] [DecidableLE K] [Elem K]", "",
            "/-- The test of the `if` of `_rearrange_to_explicit_ode` whose only statement is `warnings.warn(…)`, at one point "
            "(the code\nasks `np.any(…)` over the points): `none` = evaluating the test raises.  The block has no effect on the "
            "value:\n`rearrangeToExplicitOde` does not read it (the translator raises when the block holds anything but the "
            "one call). -/",
            "def rearrangeWarns (y coeff_b : List K) (fx : K) : Option Bool := do",
            f"  pure {warn[0] if warn else 'false'}", "", "end warn", "",
            "/-- integer keyword arguments of that `warnings.warn` call (no effect on any value). -/",
            "def rearrangeWarnKeywords : List (String × Nat) := ["
            + ", ".join(f'("{k}", {v})' for k, v in (warn[1] if warn else [])) + "]", ""]
    return out


class WarnExpr(ListExpr):
    """the test of the warning block: comparisons of expressions over list reads, `np.abs`, literals"""

    def tr(self, e):
        if isinstance(e, ast.Constant) and isinstance(e.value, float):
            return _float_literal(e)
        if isinstance(e, ast.Call) and _src(e.func) in ("np.abs", "abs", "np.absolute", "np.fabs") and len(e.args) == 1 \
                and not e.keywords:
            return f"(Elem.abs {self.tr(e.args[0])})"
        return ListExpr.tr(self, e)

    def test(self, e):
        if isinstance(e, ast.Call) and _src(e.func) == "np.any" and len(e.args) == 1 and not e.keywords:
            e = e.args[0]          # over the points; the model is one point
        if isinstance(e, ast.BoolOp):
            op = "&&" if isinstance(e.op, ast.And) else "||"
            return "(" + f" {op} ".join(self.test(v) for v in e.values) + ")"
        if isinstance(e, ast.Compare) and len(e.ops) == 1:
            l, r = self.tr(e.left), self.tr(e.comparators[0])
            if isinstance(e.ops[0], ast.Lt):
                return f"(decide ({l} < {r}))"
            if isinstance(e.ops[0], ast.Gt):
                return f"(decide ({r} < {l}))"
            if isinstance(e.ops[0], ast.LtE):
                return f"(decide ({l} ≤ {r}))"
            if isinstance(e.ops[0], ast.GtE):
                return f"(decide ({r} ≤ {l}))"
        _fail(e, "test of the warning block is not a comparison")


# ----------------------------------------------------------------------------------------------
# _transform_and_rearrange_to_explicit_ode
# ----------------------------------------------------------------------------------------------
def translate_compose(tree):
    f = _func(tree, "_transform_and_rearrange_to_explicit_ode")
    params = [a.arg for a in f.args.args]
    if params != ["x", "y", "coeff_a", "tf", "fx_func"]:
        raise Untranslatable("_transform_and_rearrange_to_explicit_ode: unexpected signature")
    lines, names = [], set()
    returned = False
    for s in _body(f):
        if returned:
            _fail(s, "statement after return")
        if isinstance(s, ast.Assign) and len(s.targets) == 1 and isinstance(s.targets[0], ast.Name):
            n, v = s.targets[0].id, s.value
            if (isinstance(v, ast.Call) and _src(v.func) == "_transform_ode_from_rtransform" and len(v.args) == 3
                    and not v.keywords and all(isinstance(a, ast.Name) and a.id in params for a in v.args)):
                a0, a1, a2 = (a.id for a in v.args)
                if (a0, a1) != ("coeff_a", "tf"):
                    _fail(s, "coefficients / transform are not passed as the first two arguments")
                lines.append(f"  let {n} := (← transformOdeFromRtransform {a0} {a1} {a2})")
                names.add(n)
                continue
            if (isinstance(v, ast.Call) and _src(v.func) == "_rearrange_to_explicit_ode" and len(v.args) == 3
                    and not v.keywords and _src(v.args[0]) == "y" and isinstance(v.args[1], ast.Name)
                    and v.args[1].id in names and isinstance(v.args[2], ast.Call)
                    and _src(v.args[2].func) == "fx_func" and len(v.args[2].args) == 1
                    and not v.args[2].keywords
                    and isinstance(v.args[2].args[0], ast.Name) and v.args[2].args[0].id == "x"):
                lines.append(f"  let {n} := (← rearrangeToExplicitOde y {v.args[1].id} (fx_func x))")
                names.add(n)
                continue
            _fail(s, "unrecognised call")
        if isinstance(s, ast.Return) and isinstance(s.value, ast.Name) and s.value.id in names:
            lines.append(f"  pure {s.value.id}")
            returned = True
            continue
        _fail(s, "unsupported statement")
    if not returned:
        raise Untranslatable("_transform_and_rearrange_to_explicit_ode: no return")
    out = ["/-! ### `_transform_and_rearrange_to_explicit_ode` (one point) -/", "",
           "/-- The coefficients `coeff_b` of the transformed equation (`_transform_ode_from_rtransform`) and the "
           "right-hand side\n`fx_func` are evaluated at the same point `x` (a point of the *original* variable). -/",
           "def transformAndRearrange (x : K) (y : List K) (coeff_a : List (Coeff K)) (tf : TransformFns K) "
           "(fx_func : K → K) :",
           "    Option K := do"] + lines + [""]
    return out


# ----------------------------------------------------------------------------------------------
# _derivative_transformation_matrix
# ----------------------------------------------------------------------------------------------
PLUMBING_MATRIX = {
    "numb_derivs = len(deriv_func_list)",
    "derivs_at_pt = np.array([dev(point) for dev in deriv_func_list], dtype=float)",
    "deriv_transf = np.zeros((order, order))",
}


def _nat_expr(e, names):
    c = _int_const(e)
    if c is not None:
        if c < 0:
            _fail(e, "negative integer in an index expression")
        return str(c)
    if isinstance(e, ast.Name) and e.id in names:
        return e.id
    if isinstance(e, ast.BinOp) and isinstance(e.op, (ast.Add, ast.Mult)):
        op = "+" if isinstance(e.op, ast.Add) else "*"
        return f"({_nat_expr(e.left, names)} {op} {_nat_expr(e.right, names)})"
    _fail(e, "unsupported index expression (only +, * of loop variables, `order` and literals)")


def translate_matrix(tree):
    f = _func(tree, "_derivative_transformation_matrix")
    if [a.arg for a in f.args.args] != ["deriv_func_list", "point", "order"]:
        raise Untranslatable("_derivative_transformation_matrix: unexpected signature")
    seen = set()
    guard = None
    loops = None
    returned = False

    def block(stmts, names, ind):
        p = " " * ind
        out = []
        for s in stmts:
            if isinstance(s, ast.For):
                if s.orelse or not isinstance(s.target, ast.Name):
                    _fail(s, "unsupported loop")
                it = s.iter
                if not (isinstance(it, ast.Call) and _src(it.func) == "range" and not it.keywords
                        and len(it.args) in (1, 2)):
                    _fail(s, "loop is not over range(lo, hi)")
                lo = _nat_expr(it.args[0], names) if len(it.args) == 2 else "0"
                hi = _nat_expr(it.args[-1], names)
                v = s.target.id
                out.append(f"{p}let deriv_transf := (pyRange {lo} {hi}).foldl (fun deriv_transf {v} =>")
                out += block(s.body, names | {v}, ind + 4)
                out.append(f"{p}    deriv_transf) deriv_transf")
                continue
            if (isinstance(s, ast.Assign) and len(s.targets) == 1 and isinstance(s.targets[0], ast.Subscript)
                    and _src(s.targets[0].value) == "deriv_transf" and isinstance(s.targets[0].slice, ast.Tuple)
                    and len(s.targets[0].slice.elts) == 2):
                r, c = (_nat_expr(x, names) for x in s.targets[0].slice.elts)
                v = s.value
                if not (isinstance(v, ast.Call) and _src(v.func) == "float" and len(v.args) == 1
                        and isinstance(v.args[0], ast.Call) and _src(v.args[0].func) == "bell"
                        and len(v.args[0].args) == 3 and _src(v.args[0].args[2]) == "derivs_at_pt"):
                    _fail(s, "entry is not float(bell(·, ·, derivs_at_pt))")
                n, k = (_nat_expr(x, names) for x in v.args[0].args[:2])
                out.append(f"{p}let deriv_transf := matSet deriv_transf {r} {c} (bell {n} {k})")
                continue
            _fail(s, "unsupported statement in the loop nest")
        return out

    body_lines = []
    for s in _body(f):
        if returned:
            _fail(s, "statement after return")
        if isinstance(s, ast.If):
            src = _src(s.test)
            if s.orelse or len(s.body) != 1 or not isinstance(s.body[0], ast.Raise):
                _fail(s, "`if` that is not a guard")
            exc = _src(s.body[0].exc.func) if isinstance(s.body[0].exc, ast.Call) else None
            if src == "not isinstance(point, (Real, float))" and exc == "TypeError":
                continue  # type check of the argument; the model is typed
            if src == "order > numb_derivs" and exc == "ValueError":
                guard = "decide (order > numb_derivs)"
                continue
            _fail(s, "unknown guard")
        if isinstance(s, ast.Assign) and _src(s) in PLUMBING_MATRIX:
            seen.add(_src(s))
            continue
        if isinstance(s, ast.For):
            body_lines += block([s], {"order"}, 2)
            loops = True
            continue
        if isinstance(s, ast.Return):
            if _src(s.value) != "deriv_transf":
                _fail(s, "unexpected return value")
            returned = True
            continue
        _fail(s, "unsupported statement")
    if seen != PLUMBING_MATRIX or guard is None or not loops or not returned:
        raise Untranslatable("_derivative_transformation_matrix: set-up statements / guard changed")
    out = ["/-! ### `_derivative_transformation_matrix` -/", "",
           "/-- `raise ValueError` guard. -/",
           f"def derivMatrixRaises (order numb_derivs : Nat) : Bool := {guard}", "",
           "/-- The loop nest; `bell n k` stands for `float(bell(n, k, derivs_at_pt))` (SymPy). -/",
           "def derivMatrix (bell : Nat → Nat → K) (order : Nat) : Mat K :=",
           "  let deriv_transf : Mat K := matZeros"] + body_lines + ["  deriv_transf", "",
           "/-- `_derivative_transformation_matrix(deriv_func_list, point, order)` when the guard does not fire:\n"
           "`derivs_at_pt = np.array([dev(point) for dev in deriv_func_list])`, entries `float(bell(·, ·, derivs_at_pt))`. -/",
           "def derivativeTransformationMatrix (deriv_func_list : List (K → K)) (point : K) (order : Nat) : Mat K :=",
           "  let derivs_at_pt := deriv_func_list.map fun dev => dev point",
           "  derivMatrix (fun n k => bell (seqOfList derivs_at_pt) n k) order", ""]
    return out


# ----------------------------------------------------------------------------------------------
# _evaluate_coeffs_on_points
# ----------------------------------------------------------------------------------------------
def translate_eval_coeffs(tree):
    f = _func(tree, "_evaluate_coeffs_on_points")
    if [a.arg for a in f.args.args] != ["x", "coeff"]:
        raise Untranslatable("_evaluate_coeffs_on_points: unexpected signature")
    body = _body(f)
    if not (len(body) == 3 and _src(body[0]) == "coeff_mtr = np.zeros((len(coeff), x.size), dtype=float)"
            and isinstance(body[1], ast.For) and _src(body[2]) == "return coeff_mtr"):
        raise Untranslatable("_evaluate_coeffs_on_points: unexpected body")
    loop = body[1]
    if not (_src(loop.target) == "(i, val)" and _src(loop.iter) == "enumerate(coeff)" and not loop.orelse
            and len(loop.body) == 1 and isinstance(loop.body[0], ast.If)):
        _fail(loop, "loop is not `for i, val in enumerate(coeff): if …`")
    top = loop.body[0]
    if not (_src(top.test) == "isinstance(val, Number)" and len(top.orelse) == 1 and isinstance(top.orelse[0], ast.If)
            and _src(top.orelse[0].test) == "callable(val)" and len(top.orelse[0].orelse) == 1
            and isinstance(top.orelse[0].orelse[0], ast.Raise)):
        _fail(top, "branches are not `isinstance(val, Number)` / `callable(val)` / raise")

    def update(stmts, is_fn):
        if len(stmts) != 1:
            _fail(stmts[0], "branch is not a single statement")
        st = stmts[0]
        if not (isinstance(st, (ast.AugAssign, ast.Assign))):
            _fail(st, "branch does not update coeff_mtr[i]")
        tgt = st.target if isinstance(st, ast.AugAssign) else st.targets[0]
        if _src(tgt) != "coeff_mtr[i]":
            _fail(st, "target is not coeff_mtr[i]")

        def tr(e):
            c = _int_const(e)
            if c is not None and c >= 0:
                return _nat(c)
            if isinstance(e, ast.Name) and e.id == "val" and not is_fn:
                return "val"
            if (is_fn and isinstance(e, ast.Call) and isinstance(e.func, ast.Name) and e.func.id == "val"
                    and len(e.args) == 1 and not e.keywords and _src(e.args[0]) == "x"):
                return "(val x)"
            if isinstance(e, ast.UnaryOp) and isinstance(e.op, ast.USub):
                return f"(-{tr(e.operand)})"
            if isinstance(e, ast.BinOp):
                op = {ast.Add: "+", ast.Sub: "-", ast.Mult: "*", ast.Div: "/"}.get(type(e.op))
                if op is None:
                    _fail(e, "unsupported operator")
                return f"({tr(e.left)} {op} {tr(e.right)})"
            _fail(e, "unsupported expression in the coefficient row")
        v = tr(st.value)
        if isinstance(st, ast.Assign):
            return v
        op = {ast.Add: "+", ast.Sub: "-", ast.Mult: "*", ast.Div: "/"}.get(type(st.op))
        if op is None:
            _fail(st, "unsupported augmented assignment")
        return f"(coeff_mtr_i {op} {v})"

    num = update(top.body, False)
    fn = update(top.orelse[0].body, True)
    return ["/-! ### `_evaluate_coeffs_on_points` (one point) -/", "",
            "/-- One row: `coeff_mtr[i]` starts as `np.zeros`; a number is added as it is, a callable is evaluated at `x`\n"
            "(anything else: `TypeError`; the model is typed). -/",
            "def evaluateCoeffOnPoint (x : K) (val : Coeff K) : K :=",
            "  let coeff_mtr_i : K := ((0 : Nat) : K)",
            "  match val with",
            f"  | .const val => {num}",
            f"  | .fn val => {fn}", "",
            "def evaluateCoeffsOnPoints (x : K) (coeff : List (Coeff K)) : List K :=",
            "  coeff.map (evaluateCoeffOnPoint x)", ""]


# ----------------------------------------------------------------------------------------------
# solve_ode_ivp, solve_ode_bvp, _transform_solution_to_original_domain: a small statement compiler
# ----------------------------------------------------------------------------------------------
# Types of Python values in the bodies (one evaluation point / one column of the solver's arrays):
#   K scalar | vec List K | vecs List (List K) | nat | bool | tf TransformFns | tfopt Option TransformFns |
#   mat (with the size it was built with) | fn K → K | fns List (K → K) | coeffs | res SolveResult | func | bc |
#   bd List (Nat × Nat × K) | callable (the returned function) | opaque (passed on to SciPy only)
LEAN_TY = {"K": "K", "vec": "List K", "vecs": "List (List K)", "nat": "Nat", "bool": "Bool", "tf": "TransformFns K",
           "tfopt": "Option (TransformFns K)", "mat": "Mat K", "fn": "K → K", "fns": "List (K → K)",
           "coeffs": "List (Coeff K)", "res": "SolveResult K", "func": "K → List K → Option (List K)",
           "bc": "List K → List K → Option (List K)", "bd": "List (Nat × Nat × K)",
           "callable": "K → Option (List K)"}

ERR = {"ValueError": ".valueError", "NotImplementedError": ".notImplementedError", "IndexError": ".indexError"}


class Comp:
    """Compiles a list of Python statements into the lines of a Lean `do` block.
    monad = 'opt' (Option: callbacks and per-point functions) or 'exc' (Except OdeErr: the public functions)."""

    def __init__(self, fname, monad, closures=None, colvar=None):
        self.fname, self.monad = fname, monad
        self.closures = closures or {}      # python name of a nested def -> (lean text, type)
        self.colvar = colvar                # (loop variable, point array) when compiling a per-column loop body
        self.ntmp = 0
        self.matsize = {}                   # lean name of a matrix -> text of its size
        self.helpers = []                   # extracted helper definitions (lists of lines)
        self.kwrecord = {}

    # ---- expressions -------------------------------------------------------------------------------
    def tmp(self):
        self.ntmp += 1
        return f"t{self.ntmp}"

    def bind_opt(self, text, pre, ind):
        """bind an Option-valued expression"""
        t = self.tmp()
        if self.monad == "opt":
            pre.append(f"{ind}let {t} ← {text}")
        else:
            pre.append(f"{ind}let {t} ← liftO ({text})")
        return t

    def bind_idx(self, l, i, pre, ind):
        t = self.tmp()
        if self.monad == "opt":
            pre.append(f"{ind}let {t} ← {l}[{i}]?")
        else:
            pre.append(f"{ind}let {t} ← idxE {l} {i}")
        return t

    def ex(self, e, env, pre, ind):
        """-> (lean text, type)"""
        c = _int_const(e)
        if c is not None and isinstance(e, ast.Constant) and isinstance(e.value, int):
            if c < 0:
                _fail(e, "negative integer")
            return str(c), "nat"
        if isinstance(e, ast.Name):
            if e.id in env:
                return env[e.id]
            if e.id in self.closures:
                return self.closures[e.id]
            _fail(e, f"{self.fname}: unknown name")
        if isinstance(e, ast.BoolOp):
            op = "&&" if isinstance(e.op, ast.And) else "||"
            parts = []
            for v in e.values:
                t, ty = self.ex(v, env, pre, ind)
                if ty != "bool":
                    _fail(v, "operand of and/or is not a condition")
                parts.append(t)
            return "(" + f" {op} ".join(parts) + ")", "bool"
        if isinstance(e, ast.Compare) and len(e.ops) == 1:
            op, l, r = e.ops[0], e.left, e.comparators[0]
            if isinstance(op, (ast.IsNot, ast.Is)) and isinstance(r, ast.Constant) and r.value is None:
                t, ty = self.ex(l, env, pre, ind)
                if ty != "tfopt":
                    _fail(e, "`is None` test of something that is not the optional transform")
                return (f"{t}.isSome" if isinstance(op, ast.IsNot) else f"{t}.isNone"), "bool"
            lt, lty = self.ex(l, env, pre, ind)
            rt, rty = self.ex(r, env, pre, ind)
            if {lty, rty} <= {"nat", "int"}:
                if isinstance(op, ast.NotEq):
                    return f"({lt} != {rt})", "bool"
                if isinstance(op, ast.Eq):
                    return f"({lt} == {rt})", "bool"
                sym = {ast.Gt: ">", ast.Lt: "<", ast.GtE: "≥", ast.LtE: "≤"}.get(type(op))
                if sym and lty == rty == "nat":
                    return f"decide ({lt} {sym} {rt})", "bool"
            if lty == rty == "K":
                if isinstance(op, ast.Lt):
                    return f"decide ({lt} < {rt})", "bool"
                if isinstance(op, ast.Gt):
                    return f"decide ({rt} < {lt})", "bool"
            _fail(e, "unsupported comparison")
        if isinstance(e, ast.BinOp):
            lt, lty = self.ex(e.left, env, pre, ind)
            rt, rty = self.ex(e.right, env, pre, ind)
            op = {ast.Add: "+", ast.Sub: "-", ast.Mult: "*", ast.Div: "/"}.get(type(e.op))
            if op is None:
                _fail(e, "unsupported operator")
            if lty == rty == "nat" and op in "+-*":
                return f"({lt} {op} {rt})", "nat"
            if lty == rty == "K":
                return f"({lt} {op} {rt})", "K"
            _fail(e, "operands of different kinds")
        if isinstance(e, ast.List):
            items = [self.ex(x, env, pre, ind) for x in e.elts]
            kinds = {ty for _, ty in items}
            text = "[" + ", ".join(t for t, _ in items) + "]"
            if kinds == {"fn"}:
                return text, "fns"
            if kinds == {"vec"}:
                return text, "vecs"
            if kinds == {"K"}:
                return text, "vec"
            _fail(e, "list literal of mixed / unsupported kinds")
        if isinstance(e, ast.Attribute):
            t, ty = self.ex(e.value, env, pre, ind)
            if ty == "tf" and e.attr in ("transform", "inverse", "deriv", "deriv2", "deriv3"):
                return f"{t}.{e.attr}", "fn"
            if ty == "res" and e.attr == "status":
                return f"{t}.status", "int"
            if ty == "res" and e.attr == "sol":
                return f"(fun pt => some ({t}.sol pt))", "callable"
            _fail(e, "unsupported attribute")
        if isinstance(e, ast.Subscript):
            return self.subscript(e, env, pre, ind)
        if isinstance(e, ast.Call):
            return self.call(e, env, pre, ind)
        _fail(e, f"{self.fname}: unsupported expression")

    def subscript(self, e, env, pre, ind):
        # transform.domain[k]
        if isinstance(e.value, ast.Attribute) and e.value.attr == "domain":
            t, ty = self.ex(e.value.value, env, pre, ind)
            k = _int_const(e.slice)
            if ty != "tf" or k not in (0, 1):
                _fail(e, "unsupported use of .domain")
            return f"{t}.domain.{k + 1}", "K"
        sl = e.slice
        # the point array of a per-column loop: pt[i]
        if self.colvar and isinstance(e.value, ast.Name) and e.value.id == self.colvar[1]:
            if isinstance(sl, ast.Name) and sl.id == self.colvar[0]:
                return env[self.colvar[1]][0], "K"
            _fail(e, f"the point array is not read at the loop index `{self.colvar[0]}`")
        t, ty = self.ex(e.value, env, pre, ind)
        two = isinstance(sl, ast.Tuple) and len(sl.elts) == 2
        if two:
            # a (rows, points) array, modelled by one column: the second index must select that column
            row, col = sl.elts
            col_ok = (isinstance(col, ast.Slice) and col.lower is None and col.upper is None and col.step is None) or \
                     (self.colvar and isinstance(col, ast.Name) and col.id == self.colvar[0])
            if ty != "vec" or not col_ok:
                _fail(e, "second index does not select the column of the current point")
            sl = row
        if isinstance(sl, ast.Slice):
            if sl.upper is not None or sl.step is not None or sl.lower is None:
                _fail(e, "unsupported slice")
            k = _int_const(sl.lower)
            if k is None or k < 0 or ty != "vec":
                _fail(e, "unsupported slice")
            return f"({t}.drop {k})", "vec"
        it, ity = self.ex(sl, env, pre, ind)
        if ity != "nat":
            _fail(e, "index is not a non-negative integer")
        if ty == "vec":
            return self.bind_idx(t, it, pre, ind), "K"
        if ty == "vecs":
            return self.bind_idx(t, it, pre, ind), "vec"
        _fail(e, "unsupported subscript")

    def args(self, call, env, pre, ind, kinds, kw=()):
        if len(call.args) != len(kinds) or sorted(k.arg for k in call.keywords) != sorted(kw):
            _fail(call, "unexpected arguments")
        out = []
        for a, want in zip(call.args, kinds):
            t, ty = self.ex(a, env, pre, ind)
            if ty != want:
                _fail(a, f"argument of kind {ty}, expected {want}")
            out.append(t)
        return out

    def call(self, e, env, pre, ind):
        fn = _src(e.func)
        if fn == "len" and len(e.args) == 1:
            t, ty = self.ex(e.args[0], env, pre, ind)
            if ty not in ("vec", "coeffs", "bd", "fns"):
                _fail(e, "len of an unsupported object")
            return f"{t}.length", "nat"
        if fn in ("min", "max") and len(e.args) == 1 and not e.keywords:
            (t,) = self.args(e, env, pre, ind, ["vec"])
            if self.monad != "exc":
                _fail(e, "min/max inside a callback")
            v = self.tmp()
            pre.append(f"{ind}let {v} ← py{fn.capitalize()} {t}")
            return v, "K"
        if fn in ("np.array", "list") and len(e.args) == 1 and not e.keywords:
            t, ty = self.ex(e.args[0], env, pre, ind)
            if ty != "vec":
                _fail(e, "conversion of an unsupported object")
            return t, "vec"
        if fn == "np.vstack" and len(e.args) == 1 and isinstance(e.args[0], ast.Tuple):
            parts = []
            for x in e.args[0].elts:
                if isinstance(x, ast.Starred):
                    t, ty = self.ex(x.value, env, pre, ind)
                    if ty != "vec":
                        _fail(x, "starred argument is not a block of rows")
                    parts.append(t)
                else:
                    t, ty = self.ex(x, env, pre, ind)
                    if ty != "K":
                        _fail(x, "row is not one value per point")
                    parts.append(f"[{t}]")
            return "(" + " ++ ".join(parts) + ")", "vec"
        if fn == "np.hstack" and len(e.args) == 1 and isinstance(e.args[0], ast.Tuple):
            parts = []
            for x in e.args[0].elts:
                t, ty = self.ex(x, env, pre, ind)
                if ty != "vec":
                    _fail(x, "hstack of something that is not a 1-D array")
                parts.append(t)
            return "(" + " ++ ".join(parts) + ")", "vec"
        if fn == "np.any" and len(e.args) == 1 and isinstance(e.args[0], ast.Call) and _src(e.args[0].func) == "np.isinf":
            (t,) = self.args(e.args[0], env, pre, ind, ["vec"])
            return f"({t}.any isinf)", "bool"
        if fn == "np.zeros" and len(e.args) == 1 and isinstance(e.args[0], ast.Attribute) and e.args[0].attr == "shape":
            t, ty = self.ex(e.args[0].value, env, pre, ind)
            if ty != "vec":
                _fail(e, "zeros of an unsupported shape")
            return f"(colZeros {t}.length)", "vec"
        if fn == "_evaluate_coeffs_on_points":
            x, c = self.args(e, env, pre, ind, ["K", "coeffs"])
            return f"(evaluateCoeffsOnPoints {x} {c})", "vec"
        if fn == "_rearrange_to_explicit_ode":
            y, b, f = self.args(e, env, pre, ind, ["vec", "vec", "K"])
            return self.bind_opt(f"rearrangeToExplicitOde {y} {b} {f}", pre, ind), "K"
        if fn == "_transform_and_rearrange_to_explicit_ode":
            a = self.args(e, env, pre, ind, ["K", "vec", "coeffs", "tf", "fn"])
            return self.bind_opt("transformAndRearrange " + " ".join(a), pre, ind), "K"
        if fn == "_derivative_transformation_matrix":
            l, p, n = self.args(e, env, pre, ind, ["fns", "K", "nat"])
            if self.monad == "exc":
                pre.append(f"{ind}if derivMatrixRaises {n} {l}.length then throw .valueError")
            else:
                pre.append(f"{ind}if derivMatrixRaises {n} {l}.length then none")
            return f"(derivativeTransformationMatrix {l} {p} {n})", ("mat", n)
        if fn == "solve":
            if len(e.args) != 2 or e.keywords:
                _fail(e, "unexpected arguments of scipy.linalg.solve")
            m, mty = self.ex(e.args[0], env, pre, ind)
            v, vty = self.ex(e.args[1], env, pre, ind)
            if not (isinstance(mty, tuple) and mty[0] == "mat") or vty != "vec":
                _fail(e, "unexpected arguments of scipy.linalg.solve")
            return f"(solve {m} {v})", "vec"
        if fn == "solve_ivp":
            want = {"y0": None, "dense_output": "True", "vectorized": "True", "rtol": "rtol", "atol": "atol", "method": "method"}
            kws = {k.arg: k.value for k in e.keywords}
            if set(kws) != set(want) or any(v is not None and _src(kws[k]) != v for k, v in want.items()):
                _fail(e, "keyword arguments of scipy's solve_ivp changed")
            f, sp = self.args(ast.Call(func=e.func, args=e.args, keywords=[]), env, pre, ind, ["func", "vec"])
            y0, ty = self.ex(kws["y0"], env, pre, ind)
            if ty != "vec":
                _fail(e, "y0 is not a 1-D array")
            self.kwrecord["solve_ivp"] = sorted(want)
            return f"(solve_ivp {f} {sp} {y0})", "res"
        if fn == "solve_bvp":
            want = {"y": "initial_guess_y", "tol": "tol", "max_nodes": "max_nodes"}
            kws = {k.arg: k.value for k in e.keywords}
            if set(kws) != set(want) or any(_src(kws[k]) != v for k, v in want.items()):
                _fail(e, "keyword arguments of scipy's solve_bvp changed")
            f, b, x = self.args(ast.Call(func=e.func, args=e.args, keywords=[]), env, pre, ind, ["func", "bc", "vec"])
            self.kwrecord["solve_bvp"] = sorted(want)
            return f"(solve_bvp {f} {b} {x})", "res"
        if fn == "_transform_solution_to_original_domain":
            a = self.args(e, env, pre, ind, ["res", "tf", "bool", "nat"])
            return "(transformSolutionToOriginalDomain " + " ".join(a) + ")", "callable"
        # methods
        if isinstance(e.func, ast.Attribute) and len(e.args) == 1 and not e.keywords:
            o, oty = self.ex(e.func.value, env, pre, ind)
            a, aty = self.ex(e.args[0], env, pre, ind)
            if oty == "tf" and e.func.attr in ("transform", "inverse", "deriv", "deriv2", "deriv3"):
                if aty == "K":
                    return f"({o}.{e.func.attr} {a})", "K"
                if aty == "vec":
                    return f"({a}.map {o}.{e.func.attr})", "vec"
            if oty == "res" and e.func.attr == "sol" and aty == "K":
                return f"({o}.sol {a})", "vec"
            if isinstance(oty, tuple) and oty[0] == "mat" and e.func.attr == "dot" and aty == "vec":
                return self.bind_opt(f"matDot {o} {oty[1]} {a}", pre, ind), "vec"
            _fail(e, "unsupported method call")
        # a plain callable K → K
        if isinstance(e.func, ast.Name) and len(e.args) == 1 and not e.keywords:
            f, fty = self.ex(e.func, env, pre, ind)
            a, aty = self.ex(e.args[0], env, pre, ind)
            if fty == "fn" and aty == "K":
                return f"({f} {a})", "K"
        _fail(e, f"{self.fname}: unsupported call")

    # ---- statements --------------------------------------------------------------------------------
    def pure(self, text):
        return f"pure {text}"

    def is_transform_test(self, test, env):
        """`if transform:` / `if transform is not None:` on the optional transform -> its python name"""
        if isinstance(test, ast.Name) and env.get(test.id, (None, None))[1] == "tfopt":
            return test.id
        if (isinstance(test, ast.Compare) and len(test.ops) == 1 and isinstance(test.ops[0], ast.IsNot)
                and isinstance(test.left, ast.Name) and env.get(test.left.id, (None, None))[1] == "tfopt"
                and isinstance(test.comparators[0], ast.Constant) and test.comparators[0].value is None):
            return test.left.id
        return None

    @staticmethod
    def assigned(stmts):
        out = []
        for s in stmts:
            if isinstance(s, ast.Assign) and len(s.targets) == 1 and isinstance(s.targets[0], ast.Name):
                if s.targets[0].id not in out:
                    out.append(s.targets[0].id)
        return out

    @staticmethod
    def ends_with_return(stmts):
        return bool(stmts) and isinstance(stmts[-1], ast.Return)

    def block(self, stmts, env, ind, skip=(), extract=None):
        """-> lines.  `env` is updated in place.  The block must end with a return unless it is a branch whose
        live-out variables are handled by the caller."""
        out = []
        stmts = list(stmts)
        k = 0
        while k < len(stmts):
            s = stmts[k]
            k += 1
            src = _src(s)
            if src in skip:
                out.append(f"{ind}-- not carried ({skip[src]}): {src.splitlines()[0]}")
                continue
            if isinstance(s, ast.FunctionDef):
                if s.name not in self.closures:
                    _fail(s, "unexpected nested function")
                continue
            pre = []
            if isinstance(s, ast.Return):
                t, ty = self.ex(s.value, env, pre, ind)
                if ty == "K" and getattr(self, "scalar_return_as_column", False):
                    t = f"[{t}]"
                out += pre + [f"{ind}{self.pure(t)}"]
                if k != len(stmts):
                    _fail(stmts[k], "statement after return")
                return out
            if isinstance(s, ast.Assign) and len(s.targets) == 1 and isinstance(s.targets[0], ast.Name):
                n = s.targets[0].id
                t, ty = self.ex(s.value, env, pre, ind)
                out += pre + [f"{ind}let {n} := {t}"]
                env[n] = (n, ty)
                continue
            # column assignments of the back-transformation
            if isinstance(s, ast.Assign) and len(s.targets) == 1 and isinstance(s.targets[0], ast.Subscript):
                tg = s.targets[0]
                if not (isinstance(tg.value, ast.Name) and env.get(tg.value.id, (None, None))[1] == "vec"
                        and isinstance(tg.slice, ast.Tuple) and len(tg.slice.elts) == 2):
                    _fail(s, "unsupported assignment target")
                n = tg.value.id
                row, col = tg.slice.elts
                v, vty = self.ex(s.value, env, pre, ind)
                whole = isinstance(col, ast.Slice) and col.lower is None and col.upper is None and col.step is None
                at_i = self.colvar and isinstance(col, ast.Name) and col.id == self.colvar[0]
                if _int_const(row) == 0 and whole and vty == "K" and not self.colvar:
                    t = self.bind_opt(f"setRow0 {n} {v}", pre, ind)
                elif (isinstance(row, ast.Slice) and _int_const(row.lower) == 1 and row.upper is None and row.step is None
                      and at_i and vty == "vec"):
                    t = self.bind_opt(f"setRowsFrom1 {n} {v}", pre, ind)
                else:
                    _fail(s, "assignment does not address row 0 of all points / rows 1: of the current point")
                out += pre + [f"{ind}let {n} := {t}"]
                continue
            if isinstance(s, ast.If):
                # guard
                if not s.orelse and len(s.body) == 1 and isinstance(s.body[0], ast.Raise):
                    exc = s.body[0].exc
                    name = _src(exc.func) if isinstance(exc, ast.Call) else _src(exc)
                    if name not in ERR or self.monad != "exc":
                        _fail(s, "unsupported raise")
                    t, ty = self.ex(s.test, env, pre, ind)
                    if ty != "bool":
                        _fail(s.test, "guard is not a condition")
                    out += pre + [f"{ind}if {t} then throw {ERR[name]}"]
                    continue
                tv = self.is_transform_test(s.test, env)
                rest = stmts[k:]
                if tv is not None:
                    inner = dict(env)
                    tl = tv + "_"          # Lean name of the transform object inside the branch
                    inner[tv] = (tl, "tf")
                    if self.ends_with_return(s.body) and not s.orelse:
                        # if transform is not None: return A      (rest of the block is the `none` branch)
                        out.append(f"{ind}match {tv} with")
                        out.append(f"{ind}| some {tl} => do")
                        out += self.block(s.body, inner, ind + "  ", skip)
                        out.append(f"{ind}| none => do")
                        out += self.block(rest, dict(env), ind + "  ", skip)
                        return out
                    live = self.assigned(s.body)
                    if s.orelse:
                        # variables that survive the branch: assigned on both sides (the others are branch-local)
                        live = [x for x in live if x in self.assigned(s.orelse)]
                    else:
                        live = [x for x in live if x in env]
                    if not live:
                        _fail(s, "branch on the transform without effect")
                    tup = live[0] if len(live) == 1 else "(" + ", ".join(live) + ")"
                    if extract and not s.orelse:
                        # the branch becomes a definition of its own
                        hname, hdoc = extract
                        free = [n for n in env if any(isinstance(x, ast.Name) and x.id == n for b in s.body for x in ast.walk(b))]
                        henv = {n: env[n] for n in free}
                        henv[tv] = (tv, "tf")
                        hlines = self.block(s.body + [ast.Return(value=ast.Tuple(elts=[ast.Name(id=x) for x in live]))],
                                            henv, "  ", skip)
                        self.helpers.append((hname, hdoc, free, {n: (env[n] if n != tv else (tv, "tf")) for n in free},
                                             [henv[x][1] for x in live], hlines))
                        out.append(f"{ind}let {tup} ← match {tv} with")
                        out.append(f"{ind}  | some {tl} => {hname} " + " ".join(["solve", "isinf"] + [tl if n == tv else n for n in free]))
                        out.append(f"{ind}  | none => pure {tup}")
                        for x, ty in zip(live, [henv[x][1] for x in live]):
                            env[x] = (x, ty)
                        continue
                    out.append(f"{ind}let {tup} ← match {tv} with")
                    out.append(f"{ind}  | some {tl} => do")
                    benv = dict(inner)
                    out += self.block(s.body + [ast.Return(value=ast.Tuple(elts=[ast.Name(id=x) for x in live]) if len(live) > 1
                                                         else ast.Name(id=live[0]))], benv, ind + "    ", skip)
                    out.append(f"{ind}  | none => do")
                    if s.orelse:
                        eenv = dict(env)
                        out += self.block(s.orelse + [ast.Return(value=ast.Tuple(elts=[ast.Name(id=x) for x in live]) if len(live) > 1
                                                               else ast.Name(id=live[0]))], eenv, ind + "    ", skip)
                        for x in live:
                            if benv[x][1] != eenv[x][1]:
                                _fail(s, f"`{x}` has different kinds in the two branches")
                    else:
                        out.append(f"{ind}    pure {tup}")
                    for x in live:
                        env[x] = (x, benv[x][1])
                    continue
                # if <bool>: … return …      (rest = else)
                t, ty = self.ex(s.test, env, pre, ind)
                if ty == "bool" and self.ends_with_return(s.body) and not s.orelse:
                    out += pre + [f"{ind}if {t} then do"]
                    out += self.block(s.body, dict(env), ind + "  ", skip)
                    out.append(f"{ind}else do")
                    out += self.block(rest, dict(env), ind + "  ", skip)
                    return out
                _fail(s, "unsupported `if`")
            if isinstance(s, ast.For):
                if s.orelse:
                    _fail(s, "for-else")
                out += self.loop(s, env, ind, skip)
                continue
            _fail(s, f"{self.fname}: unsupported statement")
        return out

    def ex_tuple(self, e, env, pre, ind):
        items = [self.ex(x, env, pre, ind) for x in e.elts]
        return "(" + ", ".join(t for t, _ in items) + ")", tuple(ty for _, ty in items)

    def loop(self, s, env, ind, skip):
        _fail(s, f"{self.fname}: unsupported loop")


# make `Return (a, b)` of the synthetic branch ends work
_orig_ex = Comp.ex


def _ex(self, e, env, pre, ind):
    if isinstance(e, ast.Tuple):
        return self.ex_tuple(e, env, pre, ind)
    return _orig_ex(self, e, env, pre, ind)


Comp.ex = _ex


def _sig(params, env):
    out = []
    for n in params:
        ty = env[n][1]
        out.append(f"({n} : {LEAN_TY[ty[0] if isinstance(ty, tuple) else ty]})")
    return " ".join(out)


def _nested(f, name):
    for s in f.body:
        if isinstance(s, ast.FunctionDef) and s.name == name:
            return s
    raise Untranslatable(f"{f.name}: nested function {name} not found")


FUNC_DOC = {
    "ivp": "/-- `func(x, y)` of `solve_ode_ivp`, one point: `x` is the integrator's independent variable (with a transform: "
           "`r = g(x)`),\n`y` the column `[Y₀, …, Y_{K-1}]`; the answer is the column of derivatives. -/",
    "bvp": "/-- `func(x, y)` of `solve_ode_bvp`, one mesh point. -/",
}


def translate_func(outer, which, skip):
    """the nested `func` of solve_ode_ivp / solve_ode_bvp"""
    f = _nested(outer, "func")
    if [a.arg for a in f.args.args] != ["x", "y"]:
        _fail(f, "func: unexpected signature")
    free = ["coeffs", "transform", "fx"]
    env = {"coeffs": ("coeffs", "coeffs"), "transform": ("transform", "tfopt"), "fx": ("fx", "fn"),
           "x": ("x", "K"), "y": ("y", "vec")}
    used = {n.id for n in ast.walk(f) if isinstance(n, ast.Name)}
    extra = used - set(env) - {"np", "dy_dx", "orig_dom", "coeffs_mt", "_transform_and_rearrange_to_explicit_ode",
                               "_evaluate_coeffs_on_points", "_rearrange_to_explicit_ode"}
    if extra:
        _fail(f, f"func reads names the model does not know: {sorted(extra)}")
    c = Comp(f"{outer.name}.func", "opt")
    lines = c.block(_body(f), env, "  ", skip)
    name = f"{which}Func"
    return [FUNC_DOC[which],
            f"def {name} (coeffs : List (Coeff K)) (transform : Option (TransformFns K)) (fx : K → K) (x : K) (y : List K) :",
            "    Option (List K) := do"] + lines + [""], name


class BcComp(Comp):
    def loop(self, s, env, ind, skip):
        # conds = []; for i, deriv, value in bd_cond: conds.append(<expr>)
        if not (isinstance(s.target, ast.Tuple) and len(s.target.elts) == 3 and all(isinstance(x, ast.Name) for x in s.target.elts)
                and isinstance(s.iter, ast.Name) and env.get(s.iter.id, (None, None))[1] == "bd" and len(s.body) == 1):
            _fail(s, "bc: unsupported loop")
        i, d, v = (x.id for x in s.target.elts)
        st = s.body[0]
        if not (isinstance(st, ast.Expr) and isinstance(st.value, ast.Call) and isinstance(st.value.func, ast.Attribute)
                and st.value.func.attr == "append" and isinstance(st.value.func.value, ast.Name)
                and env.get(st.value.func.value.id) == (st.value.func.value.id, "acc") and len(st.value.args) == 1):
            _fail(st, "bc: loop body is not `<list>.append(<expr>)`")
        acc = st.value.func.value.id
        inner = dict(env)
        inner.update({i: (i, "nat"), d: (d, "nat"), v: (v, "K")})
        pre = []
        t, ty = self.ex(st.value.args[0], inner, pre, ind + "    ")
        if ty != "K":
            _fail(st, "bc: appended value is not a number")
        env[acc] = (acc, "vec")
        return ([f"{ind}let {acc} ← {s.iter.id}.mapM fun (c : Nat × Nat × K) => do",
                 f"{ind}    let {i} := c.1", f"{ind}    let {d} := c.2.1", f"{ind}    let {v} := c.2.2"]
                + pre + [f"{ind}    pure {t}"])

    def block(self, stmts, env, ind, skip=(), extract=None):
        # `conds = []` introduces the accumulator
        stmts = list(stmts)
        out = []
        while stmts and isinstance(stmts[0], ast.Assign) and isinstance(stmts[0].value, ast.List) and not stmts[0].value.elts:
            env[stmts[0].targets[0].id] = (stmts[0].targets[0].id, "acc")
            stmts.pop(0)
        # the accumulator may also be introduced after other assignments
        rest = []
        for s in stmts:
            if isinstance(s, ast.Assign) and isinstance(s.value, ast.List) and not s.value.elts and len(s.targets) == 1 \
                    and isinstance(s.targets[0], ast.Name):
                env[s.targets[0].id] = (s.targets[0].id, "acc")
                continue
            rest.append(s)
        return out + Comp.block(self, rest, env, ind, skip, extract)


def translate_bc(outer):
    f = _nested(outer, "bc")
    if [a.arg for a in f.args.args] != ["ya", "yb"]:
        _fail(f, "bc: unexpected signature")
    env = {"bd_cond": ("bd_cond", "bd"), "ya": ("ya", "vec"), "yb": ("yb", "vec")}
    c = BcComp("solve_ode_bvp.bc", "opt")
    body = _body(f)
    # `return np.array(conds)`
    if not (isinstance(body[-1], ast.Return) and isinstance(body[-1].value, ast.Call) and _src(body[-1].value.func) == "np.array"):
        _fail(body[-1], "bc: unexpected return")
    lines = c.block(body, env, "  ")
    return ["/-- `bc(ya, yb)` of `solve_ode_bvp`: one residual per entry `(i, deriv, value)` of `bd_cond`\n"
            "(non-negative indices; out of range = IndexError = `none`). -/",
            "def bvpBc (bd_cond : List (Nat × Nat × K)) (ya yb : List K) : Option (List K) := do"] + lines + [""]


class ColComp(Comp):
    """`interpolate_wrt_original_var(pt)` for one entry `pt_i` of `pt` (one column of every (rows, points) array)."""

    def loop(self, s, env, ind, skip):
        if not (isinstance(s.target, ast.Name) and _src(s.iter) == "range(interpolated.shape[1])"):
            _fail(s, "loop is not over the points (`range(interpolated.shape[1])`)")
        inner = ColComp(self.fname, self.monad, self.closures, colvar=(s.target.id, "pt"))
        inner.ntmp = self.ntmp
        lines = Comp.block(inner, s.body, env, ind, skip)
        self.ntmp = inner.ntmp
        return lines


def translate_back(tree):
    f = _func(tree, "_transform_solution_to_original_domain")
    if [a.arg for a in f.args.args] != ["result", "tf", "no_derivs", "order"]:
        raise Untranslatable("_transform_solution_to_original_domain: unexpected signature")
    body = _body(f)
    if not (len(body) == 2 and isinstance(body[0], ast.FunctionDef) and [a.arg for a in body[0].args.args] == ["pt"]
            and _src(body[1]) == f"return {body[0].name}"):
        raise Untranslatable("_transform_solution_to_original_domain: unexpected body")
    env = {"result": ("result", "res"), "tf": ("tf", "tf"), "no_derivs": ("no_derivs", "bool"), "order": ("order", "nat"),
           "pt": ("pt_i", "K")}
    c = ColComp("_transform_solution_to_original_domain", "opt")
    c.scalar_return_as_column = True
    skip = {"if interpolated.ndim == 1:\n    return interpolated":
            "scalar argument: the integrator's vector is handed back as it is"}
    stmts = _body(body[0])
    # `tf.transform(pt)` on the whole array = per point
    lines = c.block(stmts, env, "  ", skip)
    # the `no_derivs` branch returns row 0 (a number per point); the callable's value is modelled as a column
    return ["/-! ### `_transform_solution_to_original_domain` (one evaluation point `pt_i` of `pt`) -/", "",
            "/-- The callable returned in the transform branch: `result.sol` is the integrator's dense output (a function of\n"
            "`r = g(x)`).  With `no_derivs` the value is the single number `interpolated[0]` (returned here as a one-element\n"
            "column); otherwise rows `1:` are multiplied by the derivative matrix built at the same point `pt[i]`. -/",
            "def transformSolutionToOriginalDomain (result : SolveResult K) (tf : TransformFns K) (no_derivs : Bool) (order : Nat)",
            "    (pt_i : K) : Option (List K) := do"] + lines + [""]


def _emit_helpers(c, prims):
    out = []
    for hname, hdoc, free, fenv, rtys, hlines in c.helpers:
        ret = " × ".join(LEAN_TY[t] for t in rtys)
        out += [hdoc, f"def {hname} {prims}", f"    {_sig(free, fenv)} :", f"    Except OdeErr ({ret}) := do"] + hlines + [""]
    return out


PRIM_SOLVE = "(solve : Mat K → List K → List K) (isinf : K → Bool)"


def _camel(name):
    return "".join(w.capitalize() for w in name.split("_"))


def translate_defaults(f, prefix, must_be_none):
    """defaults of the keyword parameters (signature) -> one generated constant each; -> (lines, {param: lean name})"""
    params = f.args.args
    defaults = f.args.defaults
    if f.args.kwonlyargs or f.args.vararg or f.args.kwarg or f.args.posonlyargs:
        _fail(f, "unexpected kind of parameters")
    out = [f"/-! ### defaults of the keyword parameters of `{f.name}` (its signature) -/", ""]
    names = {}
    seen_none = set()
    for a, d in zip(params[len(params) - len(defaults):], defaults):
        lname = f"{prefix}Default{_camel(a.arg)}"
        if isinstance(d, ast.Constant) and d.value is None:
            seen_none.add(a.arg)
            continue
        if a.arg in must_be_none:
            _fail(d, f"default of `{a.arg}` is not None")
        if isinstance(d, ast.Constant) and isinstance(d.value, bool):
            out += [f"/-- `{a.arg}={d.value}` -/", f"def {lname} : Bool := {'true' if d.value else 'false'}", ""]
        elif isinstance(d, ast.Constant) and isinstance(d.value, int):
            if d.value < 0:
                _fail(d, "negative integer default")
            out += [f"/-- `{a.arg}={d.value}` -/", f"def {lname} : Nat := {d.value}", ""]
        elif isinstance(d, ast.Constant) and isinstance(d.value, float):
            out += [f"/-- `{a.arg}={_src(d)}` -/", f"def {lname} : K := {_float_literal(d)}", ""]
        elif isinstance(d, ast.Constant) and isinstance(d.value, str) and '"' not in d.value and "\\" not in d.value:
            out += [f"/-- `{a.arg}={d.value!r}` -/", f'def {lname} : String := "{d.value}"', ""]
        else:
            _fail(d, f"default of `{a.arg}` is not a literal")
        names[a.arg] = lname
    if seen_none != set(must_be_none):
        _fail(f, f"parameters with default None are {sorted(seen_none)}, expected {sorted(must_be_none)}")
    return out, names


def translate_ivp(tree):
    f = _func(tree, "solve_ode_ivp")
    params = [a.arg for a in f.args.args]
    if params != ["x_span", "fx", "coeffs", "y0", "transform", "method", "no_derivatives", "rtol", "atol"]:
        raise Untranslatable("solve_ode_ivp: unexpected signature")
    skip = {"x = np.array([x])": "shape plumbing: the scalar `x` becomes a one-point array"}
    func_lines, fname = translate_func(f, "ivp", skip)
    env = {"x_span": ("x_span", "vec"), "fx": ("fx", "fn"), "coeffs": ("coeffs", "coeffs"), "y0": ("y0", "vec"),
           "transform": ("transform", "tfopt"), "no_derivatives": ("no_derivatives", "bool")}
    c = Comp("solve_ode_ivp", "exc", closures={"func": (f"({fname} coeffs transform fx)", "func")})
    lines = c.block(_body(f), env, "  ",
                    extract=("ivpTransformSetup",
                             "/-- `solve_ode_ivp`, the block `if transform:` before the integrator is called: domain check, the matrix at\n"
                             "`x_span[0]`, the transformed span, the initial derivatives mapped by `scipy.linalg.solve`; the answer is\n"
                             "`(x_span, y0)` as handed to `scipy.integrate.solve_ivp`. -/"))
    out = ["/-! ### `solve_ode_ivp` -/", ""] + func_lines
    out += ["section ordered", "variable [LT K] [DecidableLT K]", ""]
    out += _emit_helpers(c, PRIM_SOLVE)
    out += ["/-- The body of `solve_ode_ivp`.  `solve_ivp func x_span y0` stands for `scipy.integrate.solve_ivp(func, x_span, y0=y0,\n"
            "dense_output=True, vectorized=True, rtol=…, atol=…, method=…)`, `solve` for `scipy.linalg.solve`, `isinf` for `np.isinf`.\n"
            "The value is the returned callable, evaluated at one point of the original variable. -/",
            "def solveOdeIvp (solve_ivp : (K → List K → Option (List K)) → List K → List K → SolveResult K)",
            f"    {PRIM_SOLVE}",
            "    (x_span : List K) (fx : K → K) (coeffs : List (Coeff K)) (y0 : List K) (transform : Option (TransformFns K))",
            "    (no_derivatives : Bool) : Except OdeErr (K → Option (List K)) := do"] + lines + ["", "end ordered", ""]
    out += ["/-- keyword arguments of the `scipy.integrate.solve_ivp` call (besides `func`, `x_span`). -/",
            "def solveIvpKeywords : List String := [" + ", ".join(f'"{k}"' for k in c.kwrecord.get("solve_ivp", [])) + "]", ""]
    dl, dn = translate_defaults(f, "ivp", {"transform"})
    if set(dn) != {"method", "no_derivatives", "rtol", "atol"}:
        _fail(f, f"solve_ode_ivp: parameters with a default are {sorted(dn)}")
    out += dl
    out += ["section ordered", "variable [LT K] [DecidableLT K]", "",
            "/-- `solve_ode_ivp(x_span, fx, coeffs, y0, transform)` with every further keyword left at its default: `rtol`, `atol`, `method`\n"
            "go to `scipy.integrate.solve_ivp` (the parameter `solve_ivp` stands for that call), `no_derivatives` selects the returned rows. -/",
            "def solveOdeIvpDefault (solve_ivp : (K → List K → Option (List K)) → List K → List K → SolveResult K)",
            f"    {PRIM_SOLVE}",
            "    (x_span : List K) (fx : K → K) (coeffs : List (Coeff K)) (y0 : List K) (transform : Option (TransformFns K)) :",
            "    Except OdeErr (K → Option (List K)) :=",
            f"  solveOdeIvp solve_ivp solve isinf x_span fx coeffs y0 transform {dn['no_derivatives']}", "", "end ordered", ""]
    return out


def translate_bvp(tree):
    f = _func(tree, "solve_ode_bvp")
    params = [a.arg for a in f.args.args]
    if params != ["x", "fx", "coeffs", "bd_cond", "transform", "tol", "max_nodes", "initial_guess_y", "no_derivatives"]:
        raise Untranslatable("solve_ode_bvp: unexpected signature")
    func_lines, fname = translate_func(f, "bvp", {})
    bc_lines = translate_bc(f)
    env = {"x": ("x", "vec"), "fx": ("fx", "fn"), "coeffs": ("coeffs", "coeffs"), "bd_cond": ("bd_cond", "bd"),
           "transform": ("transform", "tfopt"), "no_derivatives": ("no_derivatives", "bool")}
    skip = {"if initial_guess_y is None:\n    initial_guess_y = np.random.rand(order, x.size)":
            "the starting guess of the iteration is SciPy's business"}
    c = Comp("solve_ode_bvp", "exc", closures={"func": (f"({fname} coeffs transform fx)", "func"),
                                               "bc": ("(bvpBc bd_cond)", "bc")})
    lines = c.block(_body(f), env, "  ", skip)
    out = ["/-! ### `solve_ode_bvp` -/", ""] + func_lines + bc_lines
    out += ["/-- The body of `solve_ode_bvp`.  `solve_bvp func bc mesh` stands for `scipy.integrate.solve_bvp(func, bc, mesh,\n"
            "y=initial_guess_y, tol=tol, max_nodes=max_nodes)`.  The value is the returned callable, evaluated at one point. -/",
            "def solveOdeBvp (solve_bvp : (K → List K → Option (List K)) → (List K → List K → Option (List K)) → List K → SolveResult K)",
            "    (x : List K) (fx : K → K) (coeffs : List (Coeff K)) (bd_cond : List (Nat × Nat × K))",
            "    (transform : Option (TransformFns K)) (no_derivatives : Bool) : Except OdeErr (K → Option (List K)) := do"] + lines + [""]
    out += ["/-- keyword arguments of the `scipy.integrate.solve_bvp` call (besides `func`, `bc`, the mesh). -/",
            "def solveBvpKeywords : List String := [" + ", ".join(f'"{k}"' for k in c.kwrecord.get("solve_bvp", [])) + "]", ""]
    dl, dn = translate_defaults(f, "bvp", {"transform", "initial_guess_y"})
    if set(dn) != {"tol", "max_nodes", "no_derivatives"}:
        _fail(f, f"solve_ode_bvp: parameters with a default are {sorted(dn)}")
    out += dl
    out += ["/-- `solve_ode_bvp(x, fx, coeffs, bd_cond, transform)` with every further keyword left at its default: `tol`, `max_nodes` go to\n"
            "`scipy.integrate.solve_bvp` (the parameter `solve_bvp` stands for that call), `no_derivatives` selects the returned rows. -/",
            "def solveOdeBvpDefault (solve_bvp : (K → List K → Option (List K)) → (List K → List K → Option (List K)) → List K → SolveResult K)",
            "    (x : List K) (fx : K → K) (coeffs : List (Coeff K)) (bd_cond : List (Nat × Nat × K))",
            "    (transform : Option (TransformFns K)) : Except OdeErr (K → Option (List K)) :=",
            f"  solveOdeBvp solve_bvp x fx coeffs bd_cond transform {dn['no_derivatives']}", ""]
    return out


def translate():
    tree = ast.parse((SRC / "ode.py").read_text())
    parts = []
    parts += translate_coeffs(tree)
    parts += translate_eval_coeffs(tree)
    parts += translate_rtransform(tree)
    parts += translate_rearrange(tree)
    parts += translate_compose(tree)
    parts += translate_matrix(tree)
    parts += translate_back(tree)
    parts += translate_ivp(tree)
    parts += translate_bvp(tree)
    return "\n".join(parts)


def generate():
    text = HEADER.format(name="ode", source="src/grid/ode.py (solve_ode_ivp, solve_ode_bvp, _transform_solution_to_original_domain, "
                         "_transform_ode_from_derivs, _transform_ode_from_rtransform, _transform_and_rearrange_to_explicit_ode, "
                         "_derivative_transformation_matrix, _evaluate_coeffs_on_points, _rearrange_to_explicit_ode)")
    text += ("import GridVerif.Model.Elem\nimport GridVerif.Model.Ode\n\nset_option linter.unusedVariables false\n\n"
             "namespace GridVerif.Gen.Ode\nopen GridVerif GridVerif.Ode\n\n"
             "variable {K : Type} [Add K] [Sub K] [Mul K] [Div K] [Neg K] [NatCast K]\n\n")
    text += translate()
    text += "\nend GridVerif.Gen.Ode\n"
    return write_if_changed("Ode.lean", text)


if __name__ == "__main__":
    print(translate())

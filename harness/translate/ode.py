"""Translator: grid/ode.py -> Gen/Ode.lean  (property C15).

AST based, regenerated from the current source on every run.  What is carried:

* `_transform_ode_from_derivs`: the accumulation statements `coeff_b[j] (+)= <expr>` inside the
  `if total > n:` blocks are executed symbolically for `total = 2, 3, 4` (ODE orders 1, 2, 3) and
  every row of `coeff_b` is written out as a generic-`K` scalar definition
  `coeffB_<order>_<row> a0 … a<order> d0 d1 d2` (`a<k>` = `coeff_a_mtr[k]`, `d<i>` = `derivs[i]`),
  operand order and parenthesisation as in the source (so the `Float` instance reproduces NumPy's
  result).  Blocks guarded by `total > n` with `n ≥ 4` (the Bell-polynomial loop for higher orders)
  cannot run for the orders of the property and are not carried; the smallest such `n` is recorded.
* `_transform_ode_from_rtransform`: the list of transform methods handed on (`deriv, deriv2, deriv3`).
* `_rearrange_to_explicit_ode`: `result = fx`, the loop over `enumerate(coeff_b[:-1])`, the final
  division by `coeff_b[-1]` -> an `Option`-monadic fold over lists (an index out of range is `none`).
  The `warnings.warn` guard has no effect on the value and is skipped.
* `_transform_and_rearrange_to_explicit_ode`: the composition (which point the coefficients, the
  transform derivatives and the right-hand side are evaluated at).
* `_derivative_transformation_matrix`: the `order > numb_derivs` guard, the loop nest with its
  `range(...)` bounds, the target index `deriv_transf[·,·]` and the two integer arguments of
  `bell(·,·, derivs_at_pt)` -> a fold over `Model/Ode.lean`'s `pyRange` / `matSet`; the Bell
  polynomial itself is SymPy's and is the parameter `bell` (modelled in `Model/Ode.lean`).

Anything else in those functions must have exactly the shape checked below; otherwise
`Untranslatable` is raised (the check treats it as a proof obligation that no longer holds).
"""
import ast

from ..common import SRC
from .util import HEADER, write_if_changed


class Untranslatable(ValueError):
    pass


def _src(node):
    try:
        return ast.unparse(node)
    except Exception:  # pragma: no cover
        return repr(node)


def _fail(node, why):
    raise Untranslatable(f"ode.py line {getattr(node, 'lineno', '?')}: {why}: {_src(node)[:140]}")


def _func(tree, name):
    for f in tree.body:
        if isinstance(f, ast.FunctionDef) and f.name == name:
            return f
    raise Untranslatable(f"function {name} not found in ode.py")


def _body(f):
    b = list(f.body)
    if b and isinstance(b[0], ast.Expr) and isinstance(b[0].value, ast.Constant) and isinstance(b[0].value.value, str):
        b = b[1:]
    return b


def _nat(n):
    return f"(({n} : Nat) : K)"


def _int_const(e):
    if isinstance(e, ast.UnaryOp) and isinstance(e.op, ast.USub):
        c = _int_const(e.operand)
        return None if c is None else -c
    if isinstance(e, ast.Constant) and isinstance(e.value, int) and not isinstance(e.value, bool):
        return e.value
    if isinstance(e, ast.Constant) and isinstance(e.value, float) and e.value == int(e.value) and abs(e.value) < 2**53:
        return int(e.value)
    return None


# ----------------------------------------------------------------------------------------------
# _transform_ode_from_derivs
# ----------------------------------------------------------------------------------------------
class CoeffExpr:
    """Scalar expressions over `coeff_a_mtr[k]`, `derivs[i]` and integer literals."""

    def __init__(self, order, a_name, d_name, nderivs=3):
        self.order, self.a, self.d, self.nd = order, a_name, d_name, nderivs

    def tr(self, e):
        c = _int_const(e)
        if c is not None:
            if c < 0:
                return f"(-{_nat(-c)})"
            return _nat(c)
        if isinstance(e, ast.Subscript) and isinstance(e.value, ast.Name):
            k = _int_const(e.slice)
            if k is None or k < 0:
                _fail(e, "index is not a non-negative integer literal")
            if e.value.id == self.a:
                if k > self.order:
                    _fail(e, f"coefficient row {k} does not exist for an ODE of order {self.order} (IndexError)")
                return f"a{k}"
            if e.value.id == self.d:
                if k >= self.nd:
                    _fail(e, f"derivative row {k} does not exist ({self.nd} transform derivatives are passed)")
                return f"d{k}"
            _fail(e, "unknown array")
        if isinstance(e, ast.UnaryOp) and isinstance(e.op, ast.USub):
            return f"(-{self.tr(e.operand)})"
        if isinstance(e, ast.BinOp):
            if isinstance(e.op, ast.Pow):
                n = _int_const(e.right)
                if n is None or n < 0:
                    _fail(e, "exponent is not a non-negative integer literal")
                return f"(npow {self.tr(e.left)} {n})"
            op = {ast.Add: "+", ast.Sub: "-", ast.Mult: "*", ast.Div: "/"}.get(type(e.op))
            if op is None:
                _fail(e, "unsupported operator")
            return f"({self.tr(e.left)} {op} {self.tr(e.right)})"
        _fail(e, "unsupported expression")


def _total_guard(test):
    """`total > n` -> n"""
    if (isinstance(test, ast.Compare) and len(test.ops) == 1 and isinstance(test.ops[0], ast.Gt)
            and isinstance(test.left, ast.Name) and test.left.id == "total"):
        n = _int_const(test.comparators[0])
        if n is not None:
            return n
    _fail(test, "guard is not `total > <int>`")


PLUMBING_DERIVS = {
    "derivs = np.array([dev(x) for dev in deriv_transformation], dtype=float)",
    "total = len(coeffs)",
    "coeff_a_mtr = _evaluate_coeffs_on_points(x, coeffs)",
    "coeff_b = np.zeros((total, x.size), dtype=float)",
}


def translate_coeffs(tree):
    f = _func(tree, "_transform_ode_from_derivs")
    if [a.arg for a in f.args.args] != ["coeffs", "deriv_transformation", "x"]:
        raise Untranslatable("_transform_ode_from_derivs: unexpected signature")
    body = _body(f)
    seen = set()
    stmts = []  # (guard n or None, row, op, expr-node)
    bell_from = None
    returned = False

    def accum(s, guard):
        if isinstance(s, (ast.AugAssign, ast.Assign)):
            t = s.target if isinstance(s, ast.AugAssign) else (s.targets[0] if len(s.targets) == 1 else None)
            if (isinstance(t, ast.Subscript) and isinstance(t.value, ast.Name) and t.value.id == "coeff_b"
                    and _int_const(t.slice) is not None and _int_const(t.slice) >= 0):
                if isinstance(s, ast.Assign):
                    op = "="
                else:
                    op = {ast.Add: "+", ast.Sub: "-"}.get(type(s.op))
                    if op is None:
                        _fail(s, "unsupported augmented assignment")
                stmts.append((guard, _int_const(t.slice), op, s.value))
                return
        _fail(s, "statement is not `coeff_b[<row>] (+)= <expr>`")

    for s in body:
        if returned:
            _fail(s, "statement after return")
        if isinstance(s, ast.Return):
            if _src(s.value) != "coeff_b":
                _fail(s, "unexpected return value")
            returned = True
            continue
        if isinstance(s, ast.Assign) and _src(s) in PLUMBING_DERIVS:
            seen.add(_src(s))
            continue
        if isinstance(s, ast.If):
            if s.orelse:
                _fail(s, "else branch")
            n = _total_guard(s.test)
            if n >= 4:
                bell_from = n if bell_from is None else min(bell_from, n)
                continue  # cannot run for total <= 4 (orders <= 3)
            for b in s.body:
                accum(b, n)
            continue
        accum(s, None)
    if seen != PLUMBING_DERIVS or not returned:
        raise Untranslatable("_transform_ode_from_derivs: set-up statements changed: missing "
                             + "; ".join(sorted(PLUMBING_DERIVS - seen)))

    out = ["/-! ### `_transform_ode_from_derivs` — rows of `coeff_b` for ODE orders 1, 2, 3",
           "`a<k>` = `coeff_a_mtr[k]` (the coefficient `a_k` at the point), `d<i>` = `derivs[i]`",
           "(the `(i+1)`-th function of `deriv_transformation` at the point). -/", ""]
    for order in (1, 2, 3):
        total = order + 1
        ce = CoeffExpr(order, "coeff_a_mtr", "derivs")
        rows = {j: _nat(0) for j in range(total)}  # np.zeros
        for guard, row, op, expr in stmts:
            if guard is not None and not (total > guard):
                continue
            if row >= total:
                _fail(expr, f"row {row} of coeff_b does not exist for order {order} (IndexError)")
            e = ce.tr(expr)
            rows[row] = e if op == "=" else f"({rows[row]} {op} {e})"
        args = " ".join(f"a{k}" for k in range(total)) + " d0 d1 d2"
        for j in range(total):
            out.append(f"/-- `coeff_b[{j}]` for `len(coeffs) = {total}` (ODE of order {order}). -/")
            out.append(f"def coeffB_{order}_{j} ({args} : K) : K :=\n  {rows[j]}")
            out.append("")
        out.append(f"def coeffB{order} ({args} : K) : List K :=\n  ["
                   + ", ".join(f"coeffB_{order}_{j} {args}" for j in range(total)) + "]")
        out.append("")
    out.append("/-- Dispatch on `len(coeffs)` (orders 1–3 only). -/")
    out.append("def coeffB (a : List K) (d0 d1 d2 : K) : Option (List K) :=\n  match a with")
    for order in (1, 2, 3):
        names = [f"a{k}" for k in range(order + 1)]
        out.append(f"  | [{', '.join(names)}] => some (coeffB{order} {' '.join(names)} d0 d1 d2)")
    out.append("  | _ => none")
    out.append("")
    out.append("/-- Smallest `n` of a block `if total > n:` that is not carried (Bell-polynomial loop of the "
               "higher orders);\nit cannot run for `total ≤ 4`. -/")
    out.append(f"def bellLoopGuard : Option Nat := {'none' if bell_from is None else f'some {bell_from}'}")
    out.append("")
    return out


# ----------------------------------------------------------------------------------------------
# _transform_ode_from_rtransform
# ----------------------------------------------------------------------------------------------
def translate_rtransform(tree):
    f = _func(tree, "_transform_ode_from_rtransform")
    if [a.arg for a in f.args.args] != ["coeff_a", "tf", "x"]:
        raise Untranslatable("_transform_ode_from_rtransform: unexpected signature")
    body = _body(f)
    if len(body) != 2 or not isinstance(body[0], ast.Assign) or not isinstance(body[1], ast.Return):
        raise Untranslatable("_transform_ode_from_rtransform: unexpected body")
    a = body[0]
    if not (len(a.targets) == 1 and isinstance(a.targets[0], ast.Name) and isinstance(a.value, ast.List)):
        _fail(a, "expected `<name> = [tf.<method>, …]`")
    lst = a.targets[0].id
    methods = []
    for e in a.value.elts:
        if not (isinstance(e, ast.Attribute) and isinstance(e.value, ast.Name) and e.value.id == "tf"):
            _fail(e, "list element is not `tf.<method>`")
        methods.append(e.attr)
    if _src(body[1].value) != f"_transform_ode_from_derivs(coeff_a, {lst}, x)":
        _fail(body[1], "unexpected call")
    out = ["/-! ### `_transform_ode_from_rtransform` -/", "",
           "/-- The transform methods whose values are `derivs[0], derivs[1], derivs[2]`, evaluated at the "
           "same\npoint `x` at which the coefficients `a_k` are evaluated. -/",
           "def rtransformDerivMethods : List String := [" + ", ".join(f'"{m}"' for m in methods) + "]", ""]
    return out


# ----------------------------------------------------------------------------------------------
# _rearrange_to_explicit_ode
# ----------------------------------------------------------------------------------------------
class ListExpr:
    """Scalar expressions over scalar names and list reads (`Option` monad)."""

    def __init__(self, scalars, lists):
        self.scalars, self.lists = set(scalars), set(lists)

    def tr(self, e):
        c = _int_const(e)
        if c is not None and c >= 0:
            return _nat(c)
        if isinstance(e, ast.Name):
            if e.id in self.scalars:
                return e.id
            _fail(e, "unknown scalar")
        if isinstance(e, ast.Subscript) and isinstance(e.value, ast.Name) and e.value.id in self.lists:
            l = e.value.id
            k = _int_const(e.slice)
            if k == -1:
                return f"(← {l}.getLast?)"
            if k is not None and k >= 0:
                return f"(← {l}[{k}]?)"
            if isinstance(e.slice, ast.Name) and e.slice.id in self.scalars:
                return f"(← {l}[{e.slice.id}]?)"
            _fail(e, "unsupported index")
        if isinstance(e, ast.UnaryOp) and isinstance(e.op, ast.USub):
            return f"(-{self.tr(e.operand)})"
        if isinstance(e, ast.BinOp):
            op = {ast.Add: "+", ast.Sub: "-", ast.Mult: "*", ast.Div: "/"}.get(type(e.op))
            if op is None:
                _fail(e, "unsupported operator")
            return f"({self.tr(e.left)} {op} {self.tr(e.right)})"
        _fail(e, "unsupported expression")


def translate_rearrange(tree):
    f = _func(tree, "_rearrange_to_explicit_ode")
    if [a.arg for a in f.args.args] != ["y", "coeff_b", "fx"]:
        raise Untranslatable("_rearrange_to_explicit_ode: unexpected signature")
    le = ListExpr({"fx"}, {"y", "coeff_b"})
    lines = []
    returned = False
    for s in _body(f):
        if returned:
            _fail(s, "statement after return")
        if isinstance(s, ast.If):
            # only the warning about a (nearly) vanishing leading coefficient: no effect on the value
            if s.orelse or len(s.body) != 1 or not (isinstance(s.body[0], ast.Expr)
                                                    and isinstance(s.body[0].value, ast.Call)
                                                    and _src(s.body[0].value.func) == "warnings.warn"):
                _fail(s, "`if` with an effect on the result")
            continue
        if isinstance(s, ast.Assign) and len(s.targets) == 1 and isinstance(s.targets[0], ast.Name):
            n = s.targets[0].id
            lines.append(f"  let {n} := {le.tr(s.value)}")
            le.scalars.add(n)
            continue
        if isinstance(s, ast.AugAssign) and isinstance(s.target, ast.Name) and s.target.id in le.scalars:
            op = {ast.Add: "+", ast.Sub: "-", ast.Mult: "*", ast.Div: "/"}.get(type(s.op))
            if op is None:
                _fail(s, "unsupported augmented assignment")
            lines.append(f"  let {s.target.id} := ({s.target.id} {op} {le.tr(s.value)})")
            continue
        if isinstance(s, ast.For):
            if s.orelse:
                _fail(s, "for-else")
            t = s.target
            if not (isinstance(t, ast.Tuple) and len(t.elts) == 2 and all(isinstance(x, ast.Name) for x in t.elts)):
                _fail(s, "loop target is not `i, b`")
            iv, bv = t.elts[0].id, t.elts[1].id
            it = _src(s.iter)
            if it == "enumerate(coeff_b[:-1])":
                seq = "coeff_b.dropLast.zipIdx"
            elif it == "enumerate(coeff_b)":
                seq = "coeff_b.zipIdx"
            else:
                _fail(s.iter, "loop is not over enumerate(coeff_b[:-1])")
            if len(s.body) != 1:
                _fail(s, "loop body is not a single statement")
            b = s.body[0]
            inner = ListExpr(le.scalars | {iv, bv}, le.lists)
            if isinstance(b, ast.Assign) and len(b.targets) == 1 and isinstance(b.targets[0], ast.Name) \
                    and b.targets[0].id in le.scalars:
                st, val = b.targets[0].id, inner.tr(b.value)
            elif isinstance(b, ast.AugAssign) and isinstance(b.target, ast.Name) and b.target.id in le.scalars:
                op = {ast.Add: "+", ast.Sub: "-", ast.Mult: "*", ast.Div: "/"}.get(type(b.op))
                if op is None:
                    _fail(b, "unsupported augmented assignment")
                st, val = b.target.id, f"({b.target.id} {op} {inner.tr(b.value)})"
            else:
                _fail(b, "loop body does not update a scalar accumulator")
            lines.append(f"  let {st} ← ({seq}).foldlM (fun {st} (p : K × Nat) => do")
            lines.append(f"      let {bv} := p.1")
            lines.append(f"      let {iv} := p.2")
            lines.append(f"      pure {val}) {st}")
            continue
        if isinstance(s, ast.Return):
            lines.append(f"  pure {le.tr(s.value)}")
            returned = True
            continue
        _fail(s, "unsupported statement")
    if not returned:
        raise Untranslatable("_rearrange_to_explicit_ode: no return")
    out = ["/-! ### `_rearrange_to_explicit_ode` (one point; rows of `y`, `coeff_b` as lists) -/", "",
           "/-- `(fx − Σ_{i<K} coeff_b[i]·y[i]) / coeff_b[K]` as the code computes it. -/",
           "def rearrangeToExplicitOde (y coeff_b : List K) (fx : K) : Option K := do"] + lines + [""]
    return out


# ----------------------------------------------------------------------------------------------
# _transform_and_rearrange_to_explicit_ode
# ----------------------------------------------------------------------------------------------
def translate_compose(tree):
    f = _func(tree, "_transform_and_rearrange_to_explicit_ode")
    if [a.arg for a in f.args.args] != ["x", "y", "coeff_a", "tf", "fx_func"]:
        raise Untranslatable("_transform_and_rearrange_to_explicit_ode: unexpected signature")
    calls = {
        "_transform_ode_from_rtransform(coeff_a, tf, x)": "(← transformOde x)",
    }
    lines, names = [], set()
    returned = False
    for s in _body(f):
        if returned:
            _fail(s, "statement after return")
        if isinstance(s, ast.Assign) and len(s.targets) == 1 and isinstance(s.targets[0], ast.Name):
            n, v = s.targets[0].id, s.value
            src = _src(v)
            if src in calls:
                lines.append(f"  let {n} := {calls[src]}")
                names.add(n)
                continue
            if (isinstance(v, ast.Call) and _src(v.func) == "_rearrange_to_explicit_ode" and len(v.args) == 3
                    and not v.keywords and _src(v.args[0]) == "y" and isinstance(v.args[1], ast.Name)
                    and v.args[1].id in names and isinstance(v.args[2], ast.Call)
                    and _src(v.args[2].func) == "fx_func" and len(v.args[2].args) == 1
                    and isinstance(v.args[2].args[0], ast.Name) and v.args[2].args[0].id == "x"):
                lines.append(f"  let {n} := (← rearrangeToExplicitOde y {v.args[1].id} (fx_func x))")
                names.add(n)
                continue
            _fail(s, "unrecognised call")
        if isinstance(s, ast.Return) and isinstance(s.value, ast.Name) and s.value.id in names:
            lines.append(f"  pure {s.value.id}")
            returned = True
            continue
        _fail(s, "unsupported statement")
    if not returned:
        raise Untranslatable("_transform_and_rearrange_to_explicit_ode: no return")
    out = ["/-! ### `_transform_and_rearrange_to_explicit_ode` -/", "",
           "/-- `transformOde x` stands for `_transform_ode_from_rtransform(coeff_a, tf, x)` (the rows of `coeff_b` "
           "at the\npoint `x` of the *original* variable); the right-hand side `fx_func` is evaluated at the same `x`. -/",
           "def transformAndRearrange (transformOde : K → Option (List K)) (fx_func : K → K) (x : K) (y : List K) :",
           "    Option K := do"] + lines + [""]
    return out


# ----------------------------------------------------------------------------------------------
# _derivative_transformation_matrix
# ----------------------------------------------------------------------------------------------
PLUMBING_MATRIX = {
    "numb_derivs = len(deriv_func_list)",
    "derivs_at_pt = np.array([dev(point) for dev in deriv_func_list], dtype=float)",
    "deriv_transf = np.zeros((order, order))",
}


def _nat_expr(e, names):
    c = _int_const(e)
    if c is not None:
        if c < 0:
            _fail(e, "negative integer in an index expression")
        return str(c)
    if isinstance(e, ast.Name) and e.id in names:
        return e.id
    if isinstance(e, ast.BinOp) and isinstance(e.op, (ast.Add, ast.Mult)):
        op = "+" if isinstance(e.op, ast.Add) else "*"
        return f"({_nat_expr(e.left, names)} {op} {_nat_expr(e.right, names)})"
    _fail(e, "unsupported index expression (only +, * of loop variables, `order` and literals)")


def translate_matrix(tree):
    f = _func(tree, "_derivative_transformation_matrix")
    if [a.arg for a in f.args.args] != ["deriv_func_list", "point", "order"]:
        raise Untranslatable("_derivative_transformation_matrix: unexpected signature")
    seen = set()
    guard = None
    loops = None
    returned = False

    def block(stmts, names, ind):
        p = " " * ind
        out = []
        for s in stmts:
            if isinstance(s, ast.For):
                if s.orelse or not isinstance(s.target, ast.Name):
                    _fail(s, "unsupported loop")
                it = s.iter
                if not (isinstance(it, ast.Call) and _src(it.func) == "range" and not it.keywords
                        and len(it.args) in (1, 2)):
                    _fail(s, "loop is not over range(lo, hi)")
                lo = _nat_expr(it.args[0], names) if len(it.args) == 2 else "0"
                hi = _nat_expr(it.args[-1], names)
                v = s.target.id
                out.append(f"{p}let deriv_transf := (pyRange {lo} {hi}).foldl (fun deriv_transf {v} =>")
                out += block(s.body, names | {v}, ind + 4)
                out.append(f"{p}    deriv_transf) deriv_transf")
                continue
            if (isinstance(s, ast.Assign) and len(s.targets) == 1 and isinstance(s.targets[0], ast.Subscript)
                    and _src(s.targets[0].value) == "deriv_transf" and isinstance(s.targets[0].slice, ast.Tuple)
                    and len(s.targets[0].slice.elts) == 2):
                r, c = (_nat_expr(x, names) for x in s.targets[0].slice.elts)
                v = s.value
                if not (isinstance(v, ast.Call) and _src(v.func) == "float" and len(v.args) == 1
                        and isinstance(v.args[0], ast.Call) and _src(v.args[0].func) == "bell"
                        and len(v.args[0].args) == 3 and _src(v.args[0].args[2]) == "derivs_at_pt"):
                    _fail(s, "entry is not float(bell(·, ·, derivs_at_pt))")
                n, k = (_nat_expr(x, names) for x in v.args[0].args[:2])
                out.append(f"{p}let deriv_transf := matSet deriv_transf {r} {c} (bell {n} {k})")
                continue
            _fail(s, "unsupported statement in the loop nest")
        return out

    body_lines = []
    for s in _body(f):
        if returned:
            _fail(s, "statement after return")
        if isinstance(s, ast.If):
            src = _src(s.test)
            if s.orelse or len(s.body) != 1 or not isinstance(s.body[0], ast.Raise):
                _fail(s, "`if` that is not a guard")
            exc = _src(s.body[0].exc.func) if isinstance(s.body[0].exc, ast.Call) else None
            if src == "not isinstance(point, (Real, float))" and exc == "TypeError":
                continue  # type check of the argument; the model is typed
            if src == "order > numb_derivs" and exc == "ValueError":
                guard = "decide (order > numb_derivs)"
                continue
            _fail(s, "unknown guard")
        if isinstance(s, ast.Assign) and _src(s) in PLUMBING_MATRIX:
            seen.add(_src(s))
            continue
        if isinstance(s, ast.For):
            body_lines += block([s], {"order"}, 2)
            loops = True
            continue
        if isinstance(s, ast.Return):
            if _src(s.value) != "deriv_transf":
                _fail(s, "unexpected return value")
            returned = True
            continue
        _fail(s, "unsupported statement")
    if seen != PLUMBING_MATRIX or guard is None or not loops or not returned:
        raise Untranslatable("_derivative_transformation_matrix: set-up statements / guard changed")
    out = ["/-! ### `_derivative_transformation_matrix` -/", "",
           "/-- `raise ValueError` guard. -/",
           f"def derivMatrixRaises (order numb_derivs : Nat) : Bool := {guard}", "",
           "/-- The loop nest; `bell n k` stands for `float(bell(n, k, derivs_at_pt))` (SymPy). -/",
           "def derivMatrix (bell : Nat → Nat → K) (order : Nat) : Mat K :=",
           "  let deriv_transf : Mat K := matZeros"] + body_lines + ["  deriv_transf", ""]
    return out


def translate():
    tree = ast.parse((SRC / "ode.py").read_text())
    parts = []
    parts += translate_coeffs(tree)
    parts += translate_rtransform(tree)
    parts += translate_rearrange(tree)
    parts += translate_compose(tree)
    parts += translate_matrix(tree)
    return "\n".join(parts)


def generate():
    text = HEADER.format(name="ode", source="src/grid/ode.py (_transform_ode_from_derivs, _transform_ode_from_rtransform, "
                         "_rearrange_to_explicit_ode, _transform_and_rearrange_to_explicit_ode, "
                         "_derivative_transformation_matrix)")
    text += ("import GridVerif.Model.Elem\nimport GridVerif.Model.Ode\n\nset_option linter.unusedVariables false\n\n"
             "namespace GridVerif.Gen.Ode\nopen GridVerif GridVerif.Ode\n\n"
             "variable {K : Type} [Add K] [Sub K] [Mul K] [Div K] [Neg K] [NatCast K]\n\n")
    text += translate()
    text += "\nend GridVerif.Gen.Ode\n"
    return write_if_changed("Ode.lean", text)


if __name__ == "__main__":
    print(translate())
